#!/usr/bin/env python3
"""Confirm a seeded change produced by a sub-agent in its scratch worktree and store it under /verif/seeded/<id>/.

usage: tools/seed_ingest.py <id> <worktree> <property> --src <changed source file>... --demo-cmd '<cargo test ...>' [--needs '<text>'] [--summary '<text>']

Steps (all in the scratch worktree, never in /repo):
  1. split the worktree's changes into patch.diff (the --src files) and the demonstration (untracked files + other tracked edits, demo_reg.diff)
  2. demonstration fails with the change, passes with the change reverted
  3. with the change and WITHOUT the demonstration, the pinned 899-test baseline passes (tools/baseline.sh)
  4. run /verif's quick check for the property against the worktree (change applied, demo removed) and record the verdict
"""
import argparse, json, os, shutil, subprocess, sys

HERE = os.path.dirname(os.path.dirname(os.path.abspath(__file__)))
ENV = dict(os.environ, CARGO_NET_OFFLINE="true", RUSTUP_TOOLCHAIN="1.88.0", CARGO_TARGET_DIR=os.environ.get("SEED_TARGET", "/tmp/seed-target"))


def sh(cmd, cwd, env=ENV, ok=None):
    r = subprocess.run(cmd, shell=True, cwd=cwd, env=env, stdout=subprocess.PIPE, stderr=subprocess.STDOUT, text=True)
    return r.returncode, r.stdout


def main():
    ap = argparse.ArgumentParser()
    ap.add_argument("id"); ap.add_argument("wt"); ap.add_argument("prop")
    ap.add_argument("--src", nargs="+", required=True)
    ap.add_argument("--demo-cmd", required=True)
    ap.add_argument("--needs", default=""); ap.add_argument("--summary", default="")
    ap.add_argument("--expect", default="")
    ap.add_argument("--tier", default="quick")
    a = ap.parse_args()
    wt = a.wt
    out = os.path.join(HERE, "seeded", a.id)
    os.makedirs(out, exist_ok=True)
    rc, patch = sh("git diff -- " + " ".join(a.src), wt)
    assert patch.strip(), "empty source patch"
    open(os.path.join(out, "patch.diff"), "w").write(patch)
    rc, status = sh("git status --porcelain", wt)
    untracked = [l[3:].rstrip("/") for l in status.splitlines() if l.startswith("??") and not l[3:].startswith("target")]
    other = [l[3:] for l in status.splitlines() if l[:2].strip() == "M" and l[3:] not in a.src]
    rc, reg = sh("git diff -- " + " ".join(other), wt) if other else (0, "")
    if reg.strip():
        open(os.path.join(out, "demo_reg.diff"), "w").write(reg)
    demo_dir = os.path.join(out, "demo")
    assert untracked, "no demonstration files found in the worktree"
    shutil.rmtree(demo_dir, ignore_errors=True)
    for u in untracked:
        dst = os.path.join(demo_dir, u)
        os.makedirs(os.path.dirname(dst), exist_ok=True)
        if os.path.isdir(os.path.join(wt, u)):
            shutil.copytree(os.path.join(wt, u), dst)
        else:
            shutil.copy(os.path.join(wt, u), dst)
    # several worktrees share one CARGO_TARGET_DIR and cargo's fingerprints are workspace-relative: make sure nothing built from
    # another worktree is considered fresh for this one
    for u in untracked + other + a.src:
        sh(f"find {u} -type f -exec touch {{}} +", wt)
    ran = []
    # 2. demo with change
    rc1, o1 = sh(a.demo_cmd, wt)
    ran.append({"cmd": a.demo_cmd, "state": "with change", "exit": rc1, "tail": o1.strip().splitlines()[-6:]})
    sh("git apply -R " + os.path.join(out, "patch.diff"), wt)
    rc2, o2 = sh(a.demo_cmd, wt)
    ran.append({"cmd": a.demo_cmd, "state": "change reverted", "exit": rc2, "tail": o2.strip().splitlines()[-4:]})
    sh("git apply " + os.path.join(out, "patch.diff"), wt)
    demo_ok = rc1 != 0 and rc2 == 0
    # 3. baseline without demo
    if reg.strip():
        sh("git apply -R " + os.path.join(out, "demo_reg.diff"), wt)
    stash = "/tmp/seed-demo-stash-" + a.id
    shutil.rmtree(stash, ignore_errors=True)
    for u in untracked:
        os.makedirs(os.path.dirname(os.path.join(stash, u)), exist_ok=True)
        shutil.move(os.path.join(wt, u), os.path.join(stash, u))
    rc3, o3 = sh(f"{HERE}/tools/baseline.sh {wt}", wt)
    ran.append({"cmd": "tools/baseline.sh <worktree> (pinned 899-test suite, change applied, demo removed)", "exit": rc3, "tail": o3.strip().splitlines()[-3:]})
    # 4. my check
    ev = "/tmp/seed-ev-" + a.id
    shutil.rmtree(ev, ignore_errors=True); os.makedirs(ev)
    env = dict(os.environ, VERIF_REPO=wt, VERIF_EVIDENCE_DIR=ev)
    rc4, o4 = sh(f"./check {a.prop}" + (" --tier thorough" if a.tier == "thorough" else ""), HERE, env=env)
    viol = [l[:400] for l in o4.splitlines() if "VIOLATION" in l or "UNRECOGNISED" in l or "MISSING" in l]
    shutil.rmtree(ev, ignore_errors=True)
    meta = {
        "id": a.id, "property": a.prop, "summary": a.summary, "needs_to_manifest": a.needs,
        "files": {"patch": "patch.diff", "demo": sorted(untracked), "demo_registration": "demo_reg.diff" if reg.strip() else None},
        "confirmed": {"demo_fails_with_change": rc1 != 0, "demo_passes_without_change": rc2 == 0, "pinned_suite_passes_with_change": rc3 == 0},
        "ran": ran,
        "verif_check": {"cmd": f"VERIF_REPO=<worktree> ./check {a.prop}" + (" --tier thorough" if a.tier == "thorough" else ""), "exit": rc4, "caught": rc4 == 1 and bool(viol), "reports": viol[:6]},
    }
    json.dump(meta, open(os.path.join(out, "meta.json"), "w"), indent=1)
    print(json.dumps({k: meta[k] for k in ("id", "confirmed")}, indent=None))
    print("check exit", rc4, *viol[:4], sep="\n  ")
    for u in untracked:   # put the demonstration back
        shutil.move(os.path.join(stash, u), os.path.join(wt, u))
    if reg.strip():
        sh("git apply " + os.path.join(out, "demo_reg.diff"), wt)
    shutil.rmtree(stash, ignore_errors=True)
    if not (demo_ok and rc3 == 0):
        print("NOT CONFIRMED"); sys.exit(1)


main()
