#!/usr/bin/env python3
"""Regenerates /verif/MANIFEST.json from the table below (claimed checks) + not_applicable."""
import json, os
HERE = os.path.dirname(os.path.dirname(os.path.abspath(__file__)))

CLAIMED = {
    "C16": dict(
        technique="const-evaluated METADATA + encode-set bitmask + decision table of authorization_header + effect extraction of make_endpoint_url + sibling agreement over every generated request/response pair (configuration B)",
        text="Decides structural necessary conditions: encode set covers / ? # %; placeholders percent-encoded one argument each; auth header table; all paths of every endpoint carry the same placeholders; "
             "(thorough: 445 request/response pairs) same query and body carrier types on both sides, path-argument count written = read = placeholders; XMatrix writes the parameter names it parses. "
             "Value round trips of field types and select_path over arbitrary version subsets are NOT decided.",
        note="Trusted: serde_html_form, serde_json, http crates.",
        design="DESIGN.md §4 C16"),
    "C18": dict(
        technique="writer/reader agreement on MIR: dispatch arms of every generated Any*Event deserializer vs const-evaluated TYPE constants and event-type tables; decision extraction of redaction detection; shape rules for Raw<T>; serde skip/required symmetry over all derived impls",
        text="Decides: every dispatch arm parses the kind of the content type whose TYPE is the arm's literal (or alias) and builds the matching variant, fallback _Custom (165 arms, 11 enums); Redacted iff "
             "unsigned.redacted_because; Raw<T> keeps and parses the original text, get_field scans all keys; no derived type can skip a field it requires on input. Fixpoint of each content type under a second round trip is NOT decided.",
        note="Trusted: serde derive semantics, serde_json RawValue.",
        design="DESIGN.md §4 C18"),
    "C06": dict(
        technique="type-directed order-taint inventory over MIR (hash-iteration consumers) with automatic discharge + reviewed exact-key table; comparator extraction; who-may-call deny list; identity path",
        text="Decides: every consumer of a hash-ordered iteration in ruma-state-res is order-insensitive by construction or reviewed with its discharge (10 sites); the two discharging orders end in the "
             "event id; no clock/thread/env/RNG call; unconflicted-only input returned as is. That listed commutative effects commute for the data at hand is argued per site, not proved.",
        note="Trusted: reviewed reasons in spec/order_allow.json; precondition one room = one create event (creator cache).",
        design="DESIGN.md §4 C06"),
    "C07": dict(
        technique="ordered-effect/provenance extraction of resolve's pipeline + decision table of is_power_event + comparator/heap/loop-shape rules + CFG rule insert-iff-authorised",
        text="Decides structural clauses only: pipeline stage order and data flow, power-event definition (table vs spec), Kahn sort directions/Reverse heap/ready-only pushes/emit-once, mainline positions vs default "
             "(known finding F06), insert iff auth_check Ok, auth-difference and unconflicted predicates. Equality with the specification's algorithm on all histories is NOT decided.",
        note="Known finding F06 recorded (pinned by test_sort).",
        design="DESIGN.md §4 C07"),
    "C12": dict(
        technique="decision/effect extraction from MIR for the iterators, get_match, the five kinds' applies, PushCondition dispatch, operator table; constant-order rule for key escaping; field-read rule for rule identity",
        text="Decides kind priority and wrapping, first-match semantics, own-event and disabled-rule exclusion, condition dispatch incl. _Custom -> false, word matching requested only for content.body/display name, "
             "RoomMemberCountIs prefix->operator and bound tables, escape order `\\` before `.`, rule identity = rule_id. Glob / word-boundary / regex semantics and FlattenedJson for all inputs are NOT decided.",
        note="Trusted: regex, wildmatch crates; SenderNotificationPermission formula is decided in C20.",
        design="DESIGN.md §4 C12"),
    "C14": dict(
        technique="const-evaluated phf allow-lists vs spec + loop-shape rule (no early accept in a for-all loop) on the CFG + decision extraction of the node dispatch",
        text="Decides: allow-lists/schemes/classes/depth equal the specification's; the scheme check cannot accept from inside the attribute loop; text kept, other node kinds removed; "
             "removed nodes' children not visited, ignored nodes detached with children re-parented, kept elements' attributes cleaned; depth test `>=`; verdict order. "
             "Does NOT decide what an HTML parser sees in html5ever's output.",
        note="Trusted: html5ever parser/serializer, phf table layout as evaluated by rustc.",
        design="DESIGN.md §4 C14"),
    "C15": dict(
        technique="table closure check on const-evaluated replacement maps + effect (who-may-call) locality rule + must-visit traversal rule on MIR paths",
        text="Narrow: decides three structural necessary conditions of idempotence (replacement tables closed under the allow-lists and applied before renaming; verdict functions are local to the node; "
             "every child of a non-removed node is cleaned). Idempotence / fixpoint as equality of serialized documents is NOT decided.",
        note="The property's behavioural core (equality of documents) is outside the reach of a sound static argument here; see DESIGN.md §6.",
        design="DESIGN.md §4 C15"),
    "C20": dict(
        category="translation_validation",
        technique="formula extraction of the helper predicates from MIR + comparison with the C08 spec model under all weak orderings of the levels (4 values per symbol)",
        text="Decides that user_can_{ban,kick,unban}(_user), user_can_invite, user_can_send_{message,state}, user_can_trigger_room_notification and the level getters/for_action are equivalent to "
             "the authorization model's accept decision for a joined sender (ban / kick of a joined-or-invited target / unban of a banned target / invite / required send level) and to the push "
             "condition's formula; defaults and the content->RoomPowerLevels conversion are field-exact. String-typed levels before v10 are not decided.",
        note="Trusted: spec/auth_rules.py; the actor is assumed joined.",
        design="DESIGN.md §4 C20"),
    "C08": dict(
        category="translation_validation",
        technique="decision-table extraction from MIR per rule function + exhaustive comparison with a spec-derived model over a finite abstraction (flags x memberships x join rules x weak orderings of levels); const-evaluated flag matrix",
        text="Decides decision equivalence (allow / reject / which sub-check) of auth_check's top level, create, member dispatch, join, invite, third-party-invite prefix, leave, ban, knock, "
             "v1-v2 redaction, the power-levels scalar and map-entry rules, level defaults and fallbacks with the specification model for every scenario of the abstraction (~39k scenarios), "
             "and the nine flags per room version. Content parsing (string vs integer levels, identifiers), signature validity in the third-party-invite loop are NOT decided.",
        note="Trusted: spec/auth_rules.py (hand-written from the specification); opaque observations are uninterpreted.",
        design="DESIGN.md §4 C08"),
    "C09": dict(
        technique="decision-table extraction of the selection + who-may-call/read-discipline over resolved callees + per-branch read-set containment + provenance of the auth-state map",
        text="Decides the selection table under all scenarios (288) and the structural non-interference argument: state is read only through five FetchStateExt methods at constant types and "
             "keys from the event, every read of a membership branch lies within that branch's selection, and the map behind the closure is filled only from auth_events and selected keys.",
        note="Trusted: Event trait accessors are pure getters.",
        design="DESIGN.md §4 C09"),
    "C19": dict(
        technique="decision-table extraction of both conversion directions for every discovered string enum (all macro expansions) + inverse/alias/prefix/fallback checks + frozen spelling table",
        text="Decides, for every enum with the derived/generated string conversions (48 in the default build, 64 with API features): From and AsRef tables are mutually inverse, "
             "aliases canonicalise, wildcard prefixes keep the suffix, unknown strings are stored and returned verbatim, serde/Display go through the string form, spellings equal the frozen table; "
             "derived structural orderings are reported (21 known findings). Hand-written string enums are not covered by the template rule.",
        note="Trusted: frozen spellings (reviewed for the spec-named enums); privacy of PrivOwnedStr.",
        design="DESIGN.md §4 C19"),
    "C11": dict(
        technique="A3 site rule + const-evaluated encode-set bitmask + sanitizer must-pass-through over MIR paths + writer/reader table agreement",
        text="Decides structural necessary conditions of the round trip: no panic site in matrix_uri parsing; the path-segment encode set covers '/', '?', '#', '%'; "
             "every identifier byte and every free-text query value is written through an encoder; written type words and query keys are the ones the reader maps back "
             "to the same sigil/field. Round-trip equality for all values is NOT decided.",
        note="Trusted: percent-encoding, form_urlencoded, url crates.",
        design="DESIGN.md §4 C11"),
    "C13": dict(
        technique="error-atomicity path rule (A7) + index-bound provenance rule + decision-table evaluation of the refusal conditions (32 valuations) + sibling agreement over the five kinds",
        text="Decides: no Err path mutates a set; move_index arguments are bounded by len; refusal conditions equal the documented ones; default positions; enabled flag kept by all kinds. "
             "Does NOT decide the resulting order after arbitrary operation sequences.",
        note="Trusted: indexmap semantics.",
        design="DESIGN.md §4 C13"),
    "C10": dict(
        technique="sibling-agreement over every macro expansion (validate-before-construct on MIR paths) + pointer-cast shape rules + who-may-call classification + A3 site rules + boundary evaluation of the length atom",
        text="Decides: all generated constructors of each validated identifier type call the same validate on the same string before any unchecked "
             "constructor; storage is byte-for-byte; Display/Serialize go through as_str; hand-written unchecked constructions are existing ids, sub-slices or "
             "re-validated; validators/accessors have no undischarged panic site; 255-byte limit exact. Does NOT decide the accepted language of each validator "
             "(e.g. port digits) nor that every spec-grammar identifier is accepted.",
        note="Trusted: reviewed panic table; the nested-language conversion pairs (RoomId/RoomAliasId <-> RoomOrAliasId). Known finding: KeyId::from_parts.",
        design="DESIGN.md §4 C10"),
    "C17": dict(
        technique="MIR site inventory (panic/bounds/cast/RefCell) with dominating-guard discharge + reviewed exact-key table; call-graph SCCs; loop-exit and static scans",
        text="Decides: every potential panic/truncation/bounds site in 7 crates (hand-written and macro-generated bodies) is discharged by a verified rule or "
             "reviewed with a reason, so any NEW site fails; recursion only in three reviewed tree walks; every loop has an exit; no writable statics. "
             "Does not decide termination in general, allocation blow-up, or panics inside dependencies.",
        note="Trusted: the one-line reviewed reasons (spec/panic_allow.json); rustc MIR incl. its Assert terminators.",
        design="DESIGN.md §4 C17"),
    "C01": dict(
        technique="type/alias facts + MIR decision extraction of the number-admission paths + who-may-call deny list + serializer effect order",
        text="Decides structural necessary conditions only: sorted map type, Integer only via as_i64 -> js_int::Int::try_from, every other number "
             "rejected, no float/saturating/pretty calls in canonical_json or ruma-signatures, Serialize emits the BTreeMap's own order entry by entry, "
             "serde_json without arbitrary_precision. Byte-exact escaping/printing and parse-back equality are NOT decided (serde_json's behaviour).",
        note="Trusted: serde_json compact output, String byte order = code-point order, rustc MIR.",
        design="DESIGN.md §4 C01"),
    "C02": dict(
        technique="error-atomicity path rule (A7) + ordered-effect/provenance rules over MIR paths + quantifier (must-exhaust) rules",
        text="Decides: no Err return of sign_json leaves removed entries out of the object; signed bytes = compact serialization after removing "
             "exactly signatures+unsigned; placement under signatures[entity][key id], earlier entries kept, unsigned restored; verify_json/Ok only after "
             "every entity verified, per entity >=1 verified and none failed, skip only for unparsable key id / unsupported algorithm; roles unswapped; "
             "unpadded standard base64. Does NOT decide RFC 8032 conformance or unforgeability.",
        note="Trusted: ed25519-dalek, base64, serde_json. One reviewed exception: serializer Err edge of sign_json is infeasible.",
        design="DESIGN.md §4 C02"),
    "C03": dict(
        technique="const tables via rules() + decision-table extraction of the required-signer set vs spec model (exhaustive over 96 scenarios) + pipeline provenance",
        text="Decides SignaturesRules/RedactionRules per version, the required-signer set under every combination of type/membership/third-party invite/"
             "authorising user/flags, and the verify_event / hash_and_sign_event pipelines (redacted copy, all servers before Ok, hash status). "
             "Behaviour under field mutation follows from C04/C05 tables plus cryptography and is not decided.",
        note="Trusted: as C02/C04/C05. Known finding F10 recorded (authorising server demanded for non-join events).",
        design="DESIGN.md §4 C03"),
    "C04": dict(
        technique="decision-table extraction from MIR + const-evaluated rule tables vs spec table (exhaustive)",
        text="Exhaustive over the finite table: for each of the 11 room versions (rules obtained through RoomVersionId::rules(), "
             "constants const-evaluated by rustc) x every special event type and 'any other type' x every literal key and 'any other key', "
             "the keep/drop decision extracted from the MIR of the retained-key functions equals spec/redaction.json; "
             "RetainedKeys::apply re-inserts only untouched old entries; the three entry points write nothing else. "
             "Idempotence follows from retention depending only on (type, key, flags) - checked as 'no foreign atom', not tested.",
        note="Trusted: rustc nightly front end/MIR, BTreeMap semantics, the hand-written spec tables under /verif/spec.",
        design="DESIGN.md §4 C04"),
    "C05": dict(
        technique="const-evaluated tables + MIR data-provenance (pipeline order) + boundary evaluation of the size atom",
        text="Decides the structural clauses: removed-field sets, 65 535 limit (accept 65535, refuse 65536), redact->remove->size->SHA-256->encode "
             "order by operand provenance, alphabet per event-id format per room version, unpadded. Does not decide SHA-256/base64 correctness or collision resistance.",
        note="Trusted: sha2, base64, serde_json; rustc MIR.",
        design="DESIGN.md §4 C05"),
}

NOT_APPLICABLE = {}

def main():
    props = [json.loads(l) for l in open(os.path.join(HERE, "properties.jsonl"))]
    checks = []
    for p in props:
        pid = p["id"]
        if pid in CLAIMED:
            c = CLAIMED[pid]
            checks.append({
                "property_id": pid,
                "quick_cmd": f"./check {pid} --tier quick",
                "thorough_cmd": f"./check {pid} --tier thorough",
                "evidence_file": f"/verif/evidence/{pid}.json",
                "replay_cmd_template": f"./check {pid} --replay {{path}}",
                "engine": "rsa",
                "level_claimed": {"category": c.get("category", "other"), "text": c["text"], "design_ref": c["design"]},
                "level_note": c["note"],
                "technique": c["technique"],
            })
    na = [{"property_id": p["id"], "reason": NOT_APPLICABLE.get(p["id"], "check not built yet in this session (static rules under construction; see DESIGN.md §7 build order)")}
          for p in props if p["id"] not in CLAIMED]
    m = {
        "version": 1,
        "setup_cmd": "cd /verif/engine/mirfacts && CARGO_NET_OFFLINE=true cargo build --release --offline",
        "hooks": {
            "guard": "ruma_ruma_verif (unused: the static checks need no instrumentation)",
            "enable": "none - checks analyse /repo's source as built by `cargo +nightly check --offline --workspace --exclude xtask` through the mirfacts RUSTC_WORKSPACE_WRAPPER",
            "baseline_off_cmd": "/verif/tools/baseline.sh /repo",
            "source_commits": [],
            "add_only": True,
        },
        "engines": [
            {"name": "mirfacts", "path": "/verif/engine/mirfacts", "serves_properties": sorted(CLAIMED),
             "kind_free_text": "rustc_private driver: MIR, resolved callees, const-evaluated values, ADTs, impls as JSON facts"},
            {"name": "rsa", "path": "/verif/engine/rsa", "serves_properties": sorted(CLAIMED),
             "kind_free_text": "Python static rules over the facts: CFG/dominators, call graph, DEX decision-table extraction, table comparison"},
        ],
        "checks": checks,
        "notes": "Technique family: static analysis only. Genuine defects found are listed in known_findings.json (fixed ones as 'fixed').",
        "not_applicable": na,
    }
    json.dump(m, open(os.path.join(HERE, "MANIFEST.json"), "w"), indent=1)
    print(f"claimed {len(checks)}, not_applicable {len(na)}")

if __name__ == "__main__":
    main()
