#!/usr/bin/env python3
"""(Re)writes spec/panic_allow_B.json: reviewed panic/truncation/bounds sites that exist only in build configuration B (client+server
features of the API crates, ruma-html/matrix, ruma-signatures/ring-compat). Same scheme as gen_panic_table.py; the thorough tier of C17 reads
the JSON (exact keys) together with spec/panic_allow.json."""
import sys, os, json
sys.path.insert(0, os.path.join(os.path.dirname(os.path.dirname(os.path.abspath(__file__))), "engine"))
from rsa import facts as F, world as W
from rsa.rules import panic_common as PC

SER = "serialization of a value of this crate's own typed structs (string enums, integers, identifiers, Raw JSON) to serde_json::Value cannot fail, and every such type serializes to an object"
R = [
 ("ruma_federation_api::authenticated_media::parse_multipart_body_part", None, None, "CURSOR",
  "start <= headers_start <= line_start <= line_end <= end <= len: every position is start/line_start plus a memchr offset inside bytes[..end] plus 1; callers pass start <= end (non-overlapping memmem matches); a missing newline is an error (fix 39c743f)"),
 ("ruma_federation_api::authenticated_media::try_from_multipart_mixed_response", "unwrap", None, "INFALLIBLE", "full_boundary was just built with the prefix `\\r\\n`, so strip_prefix(b\"\\r\\n\") is Some"),
 ("ruma_federation_api::authenticated_media::try_from_multipart_mixed_response", "assert:overflow", None, "ARITH", "sums of a match position in the body and the boundary length (both <= isize::MAX, header-sized)"),
 ("ruma_html::html::matrix::CodeData::parse", None, None, "G2",
  "match_start comes from match_indices on value_str (so match_start + prefix.len() <= len, ASCII prefix); [match_start - 1] is under `match_start != 0`; language_end is language_start + a find offset or len; lengths of a StrTendril fit u32"),
 ("ruma_client_api::backup::get_backup_info::v3::ResponseBody", "unwrap", None, "INFALLIBLE", SER),
 ("ruma_client_api::backup::get_latest_backup_info::v3::ResponseBody", "unwrap", None, "INFALLIBLE", SER),
 ("get_capabilities::iter::CapabilitiesIter", "assert:overflow", None, "ARITH", "self.pos += 1 only in the arms pos == 0..=4"),
 ("get_capabilities::iter::CapabilityRef", "unwrap", None, "CONTRACT", "value is None only for the five built-in names, for each of which Capabilities::get returns Some"),
 ("ruma_client_api::discovery::get_capabilities::Capabilities::get::serialize", "unwrap", None, "INFALLIBLE", SER),
 ("ruma_client_api::push::PushRule as core::convert::From<ruma_common::push::iter::AnyPushRule>>::from", "panic", None, "UNREACHABLE", "catch-all arm of a match that lists every variant of the #[non_exhaustive] AnyPushRule of the same workspace"),
 ("set_pushrule::v3::RequestBody as core::convert::From<ruma_common::push::NewPushRule>>::from", "panic", None, "UNREACHABLE", "catch-all arm of a match that lists every variant of the #[non_exhaustive] NewPushRule of the same workspace"),
 ("ruma_client_api::http_headers::system_time_to_http_date", "unwrap", None, "INFALLIBLE", "date_header::format wrote 29 ASCII bytes (an IMF-fixdate), which is a valid header value"),
 ("get_login_token::v1::Response::default_expiration_duration", "assert:overflow", None, "ARITH", "2 * 60 on constants"),
 ("get_login_types::v3::LoginType::data::serialize", None, None, "NOT-REMOTE", SER),
 ("ruma_client_api::uiaa::AuthData::data::serialize", None, None, "NOT-REMOTE", SER),
 ("ruma_appservice_api::event::push_events::v1::EphemeralData::data::serialize", None, None, "NOT-REMOTE", SER),
 ("ruma_push_gateway_api::send_event_notification::v1::tweak_serde::serialize", "panic", None, "UNREACHABLE", "catch-all arm of a match that lists every variant of the #[non_exhaustive] Tweak of the same workspace"),
 ("ruma_signatures::keys::compat::fix_ring_doc", "vec_op", None, "G2", "split_off(idx) with idx = doc.find(template) on the same vector (idx <= len) (fix 8e56396 removed the asserting sites)"),
]
fx = F.Facts('B')
names = sorted({f.split('-')[0] for f in os.listdir(fx.dir) if f.endswith('.json')})
CRATES = [n for n in names if n.startswith('ruma') and n not in ('ruma_macros', 'ruma')]
w = W.World(fx, CRATES)
const_only = PC.const_only_functions(w)
tableA = PC.load_table()
entries, todo = [], []
for fn, s, key in PC.inventory(w, CRATES):
    if PC.auto_discharge(w, fn, s, const_only) or key in tableA:
        continue
    for sub, kind, det, cat, reason in R:
        if sub in PC.norm_path(fn["path"]) and (kind is None or s["kind"] == kind) and (det is None or det in s["detail"]):
            entries.append({"key": key, "cat": cat, "reason": reason, "where": f"{fn['span'][0]}"})
            break
    else:
        todo.append(key)
json.dump({"_doc": "Reviewed sites of build configuration B only (thorough tier of C17); see panic_allow.json for the scheme.", "entries": entries},
          open(os.path.join(os.path.dirname(os.path.dirname(os.path.abspath(__file__))), "spec", "panic_allow_B.json"), "w"), indent=1)
print(len(entries), "entries;", len(todo), "unclassified")
for k in todo:
    print("  TODO", k)
