#!/usr/bin/env python3
"""Lists the panic/truncation sites that no automatic rule discharges and the table does not cover (for review)."""
import sys, os, json, collections
sys.path.insert(0, os.path.join(os.path.dirname(os.path.dirname(os.path.abspath(__file__))), "engine"))
from rsa import facts as F, world as W
from rsa.rules import panic_common as PC
CRATES = ['ruma_common','ruma_identifiers_validation','ruma_signatures','ruma_state_res','ruma_html','ruma_events','ruma_federation_api']
fx = F.Facts('A'); w = W.World(fx, CRATES)
try: table = PC.load_table()
except Exception: table = {}
const_only = PC.const_only_functions(w)
auto = collections.Counter(); todo = []
for fn, s, key in PC.inventory(w, CRATES):
    r = PC.auto_discharge(w, fn, s, const_only)
    if r: auto[r.split(':')[0]] += 1; continue
    if key in table: auto['TABLE'] += 1; continue
    todo.append((fn, s, key))
print(dict(auto), 'todo', len(todo))
for fn, s, key in todo:
    print(f"{key}\n      {fn['span'][0]}:{s['line']}  {PC.source_line(F.REPO, fn, s['line'])[:150]}")
