#!/bin/bash
# Runs the repository's pinned test suite (guard off; there are no hooks) and compares with BASELINE.json's stable_pass list.
# usage: tools/baseline.sh [repo-dir]   (default /repo)
set -u
REPO=${1:-/repo}
[ -f /w/out/rust_env.sh ] && . /w/out/rust_env.sh
cd "$REPO" || exit 2
export CARGO_NET_OFFLINE=true
rm -f "$REPO/target/nextest/pb/junit.xml"
cargo nextest run --workspace --no-fail-fast --tool-config-file pb:/w/lib/nextest.toml --profile pb --test-threads 8 --offline >/tmp/baseline.$$.log 2>&1
rc=$?
J=$(find "$REPO/target/nextest/pb" "${CARGO_TARGET_DIR:-$REPO/target}/nextest/pb" -name junit.xml 2>/dev/null | head -1)
python3 - "$J" <<'PY'
import json, sys, xml.etree.ElementTree as ET
base = json.load(open('/root/.vp/BASELINE.json'))
want = set(base['stable_pass'])
t = ET.parse(sys.argv[1]).getroot()
passed, failed = set(), set()
for ts in t.iter('testsuite'):
    for tc in ts.iter('testcase'):
        name = tc.get('classname') + '::' + tc.get('name')
        bad = any(ch.tag in ('failure', 'error') for ch in tc)
        (failed if bad else passed).add(name)
def norm(n):
    return n
missing = sorted(w for w in want if w not in passed)
print(f"baseline: {len(want)} expected, {len(passed)} passed, {len(failed)} failed, {len(missing)} expected-but-not-passed")
for m in missing[:40]:
    print("  NOT PASSED:", m)
sys.exit(1 if missing else 0)
PY
r=$?
rm -f /tmp/baseline.$$.log
exit $r
