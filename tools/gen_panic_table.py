#!/usr/bin/env python3
"""One-off helper that (re)writes spec/panic_allow.json from the reviewed classification below.
Each rule = (substring of function path, kind or None, detail-substring or None, category, reason). The output table lists exact
site keys; the check itself only reads the JSON (exact keys), never this script."""
import sys, os, json
sys.path.insert(0, os.path.join(os.path.dirname(os.path.dirname(os.path.abspath(__file__))), "engine"))
from rsa import facts as F, world as W
from rsa.rules import panic_common as PC

INV = "identifier type invariant: every construction path runs the type's validate (rule C10.validate-before-construct), which guarantees "
R = [
 # --- identifiers: accessors on validated ids
 ("identifiers::event_id::EventId::localpart", "str_index", None, "INV-ID", INV + "the 1-byte sigil at 0 and that idx is the index of the first ':' (> 0)"),
 ("identifiers::event_id::EventId::server_name", "str_index", None, "INV-ID", INV + "idx is the index of a ':' so idx+1 <= len on a char boundary"),
 ("identifiers::key_id::KeyId::<A, K>::algorithm", "str_index", None, "INV-ID", INV + "a ':' at index >= 1; the slice ends at the index returned by find(':')"),
 ("identifiers::key_id::KeyId::<A, K>::colon_idx", "unwrap", None, "INV-ID", INV + "that the id contains ':' (validate rejects MissingColon; from_parts writes one)"),
 ("identifiers::key_id::KeyId::<A, K>::key_name::{closure}", "panic", None, "INV-ID", INV + "K::validate accepted the part after the colon, which is what <&K>::try_from checks again"),
 ("identifiers::key_id::KeyId::<A, K>::key_name", "str_index", None, "INV-ID", INV + "colon_idx()+1 <= len on a char boundary (':' is one byte)"),
 ("identifiers::key_id::KeyId::<A, K>::from_parts", "assert:overflow", None, "ARITH", "sum of two string lengths plus 1; each length <= isize::MAX"),
 ("identifiers::matrix_uri::MatrixId::to_string_with_type", "index", None, "INV-ID", INV + "a non-empty string starting with a 1-byte sigil, so as_bytes()[1..] is in range"),
 ("identifiers::matrix_uri::MatrixToUri::parse", "unwrap", None, "INFALLIBLE", "first next() of str::split always yields an element"),
 ("identifiers::mxc_uri::MxcUri::parts::{closure}", "str_index", None, "G2", "idx is the value just returned by mxc_uri::validate(self): 6 + index of the first '/' after the 6-byte ASCII prefix `mxc://`, checked to fit u8 without wrapping"),
 ("identifiers::room_alias_id::RoomAliasId::alias", "str_index", None, "INV-ID", INV + "sigil '#' at 0 and a ':' at colon_idx() >= 1"),
 ("identifiers::room_alias_id::RoomAliasId::colon_idx", "unwrap", None, "INV-ID", INV + "that the alias contains ':'"),
 ("identifiers::room_alias_id::RoomAliasId::server_name", "str_index", None, "INV-ID", INV + "colon_idx()+1 <= len on a char boundary"),
 ("identifiers::room_or_alias_id::RoomOrAliasId::server_name", "str_index", None, "G2", "colon_idx comes from find(':') on the same string in the same function"),
 ("identifiers::server_name::ServerName::host", "str_index", None, "INV-ID", INV + "`[` ... `]` for IPv6 literals; bounds come from find(']') / find(':') / len on the same string"),
 ("identifiers::server_name::ServerName::port::{closure}", None, None, "INV-ID", INV + "that what follows the host is ':' followed by a u16 (server_name::validate parses it), so the byte exists, is ':', and the rest parses"),
 ("identifiers::session_id::SessionId::_priv_const_new", "panic", None, "CONTRACT", "private constructor behind the session_id! macro, which validates the literal at compile time"),
 ("identifiers::user_id::UserId::colon_idx", "unwrap", None, "INV-ID", INV + "that the user id contains ':'"),
 ("identifiers::user_id::UserId::localpart", "str_index", None, "INV-ID", INV + "sigil '@' at 0 and a ':' at colon_idx() >= 1"),
 ("identifiers::user_id::UserId::server_name", "str_index", None, "INV-ID", INV + "colon_idx()+1 <= len on a char boundary"),
 ("identifiers::base64_public_key::OwnedBase64PublicKey", "panic", None, "INFALLIBLE", "the string is the unpadded-base64 rendering of bytes, which the base64 public key validator accepts"),
 # --- validators
 ("ruma_identifiers_validation::key_id::validate", "str_index", None, "G2", "colon_idx is the index returned by s.find(':') (checked to fit u8, non-zero); ':' is one byte so +1 is a boundary <= len"),
 ("ruma_identifiers_validation::mxc_uri::validate", "str_index", None, "G2", "index comes from uri.find('/') on the same string; '/' is one byte"),
 ("ruma_identifiers_validation::parse_id", "str_index", None, "G2", "colon_idx comes from id.find(':') on the same string"),
 ("ruma_identifiers_validation::room_alias_id::validate", "str_index", None, "G2", "parse_id checked the 1-byte sigil at 0 and returned the index of the first ':' (>= 1)"),
 ("ruma_identifiers_validation::user_id::validate", "str_index", None, "G2", "parse_id checked the 1-byte sigil at 0 and returned the index of the first ':' (>= 1)"),
 ("ruma_identifiers_validation::server_name::validate", "str_index", None, "G2", "bounds are 1 after starts_with('['), find(']'), find(':') or len of the same string; [end_of_host+1..] is evaluated only after bytes[end_of_host] == ':'"),
 ("ruma_identifiers_validation::server_name::validate", "assert:bounds", None, "G2", "evaluated only when len != end_of_host, and end_of_host <= len by construction (find result + 1 after a 1-byte ']' or find(':') or len)"),
 # --- content disposition
 ("http_headers::content_disposition::ContentDisposition as core::convert::TryFrom<&[u8]>>::try_from", "index", None, "CURSOR", "disposition_type_start <= pos <= len: pos only advances while value.get(pos) is Some"),
 ("http_headers::content_disposition::TokenString", "unwrap", None, "INFALLIBLE", "all bytes were checked to be token chars (ASCII) just before"),
 ("http_headers::content_disposition::RawParam::<'a>::parse_next", None, None, "CURSOR", "cursor invariant *pos <= len; the index is dominated by the `*pos == bytes.len()` early return"),
 ("http_headers::content_disposition::parse_param_name", None, None, "CURSOR", "cursor invariant *pos <= len (advances only while bytes.get(*pos) is Some); indexing follows the `*pos == bytes.len()` early return; name_start <= *pos"),
 ("http_headers::content_disposition::parse_param_value", None, None, "CURSOR", "cursor invariant *pos <= len; each bytes[*pos] follows a `*pos != len` test; value_start <= *pos; +1 only when *pos < len"),
 ("http_headers::content_disposition::skip_ascii_whitespaces", None, None, "CURSOR", "*pos advances only while bytes.get(*pos) is Some"),
 # --- push
 ("push::condition::room_member_count_is::RoomMemberCountIs as core::str::traits::FromStr>::from_str", "str_index", None, "G2", "each slice start equals the byte length of the ASCII prefix that starts_with just matched in the match guard"),
 ("ruma_common::push::condition::StrExt>::char_at::{closure}", "panic", None, "INFALLIBLE", "char_str is exactly one char: [index, next char boundary)"),
 ("ruma_common::push::condition::StrExt>::char_at", None, None, "CONTRACT", "private helper; callers pass a char boundary < len (find result, or `end` after the `end == len` test); char_len stops at the next boundary <= len"),
 ("ruma_common::push::condition::StrExt>::char_len", None, None, "CONTRACT", "is_char_boundary(len) is true, so the loop stops with index + len <= self.len()"),
 ("ruma_common::push::condition::StrExt>::find_prev_char", "assert:overflow", None, "GUARD", "index != 0 is tested first; is_char_boundary(0) is true so pos never goes below 0"),
 ("ruma_common::push::condition::StrExt>::matches_word", "str_index", None, "G2", "bounds are char_indices() positions of `pattern`, its len, find() results on the sliced string itself"),
 ("ruma_common::push::condition::StrExt>::matches_word", "unwrap", "unwrap", "GUARD", "find_prev_char(end) is None only for end == 0, and end = start + pattern.len() with a non-empty pattern"),
 ("ruma_common::push::condition::StrExt>::matches_word", "assert:overflow", None, "ARITH", "start + pattern.len() <= value.len() because the pattern was found at start"),
 ("ruma_common::push::Ruleset::remove", "panic", None, "UNREACHABLE", "self.get(kind, rule_id) returned Some before, which is None for RuleKind::_Custom"),
 ("ruma_common::push::condition::flattened_json::FlattenedJson::from_raw", "unwrap", None, "INFALLIBLE", "Raw<T> holds text that already parsed as JSON under serde_json's recursion limit; converting it to a Value parses it again"),
 ("ruma_common::push::insert_and_move_rule", "assert:overflow", None, "GUARD", "`to -= 1` is under `from < to` (so to >= 1); `set.len() - 1` follows replace_full, after which the set is non-empty"),
 ("ruma_common::push::insert_and_move_rule", "index_op", None, "GUARD", "to = min(.., len - 1) and from is the index replace_full returned"),
 ("push::predefined::<impl ruma_common::push::Ruleset>::update_with_server_default", "index_op", None, "GUARD", "pos is the index insert_full just returned; target 0 < len because the set is non-empty after the insert"),
 ("push::condition::push_condition_serde::PushConditionSerDeHelper", "panic", None, "UNREACHABLE", "Serialize for PushCondition handles _Custom before converting to the helper (reviewed: the only caller)"),
 # --- api metadata (programmer-supplied, not remote)
 ("ruma_common::api::metadata::Metadata::make_endpoint_url", None, None, "CONTRACT", "documented panics on programmer errors (wrong number of path arguments for the endpoint's own path); paths come from METADATA constants, arguments from generated code that passes exactly the declared path fields"),
 ("ruma_common::api::metadata::Metadata::_path_parameters", "unwrap", None, "CONTRACT", "test-support helper behind generated #[cfg(test)] code; VersionHistory::new guarantees at least one path"),
 ("ruma_common::api::metadata::VersionHistory::select_path", None, None, "UNREACHABLE", "consistency of versioning_decision_for with the history it was computed from (Removed implies `removed` is Some; any_removed implies a deprecated version; Stable implies a stable path)"),
 ("ruma_common::api::error::IntoHttpError as core::fmt::Display>::fmt", "unwrap", None, "INFALLIBLE", "MatrixVersion::V1_0.as_str() is Some for every version >= 1.0"),
 # --- serde helpers
 ("serde::strings::deserialize_as_number_or_string::F64OrStringVisitor", "float_cast", None, "INFALLIBLE", "`f64::MAX as i64/u64` are saturating float->int casts of constants; float casts never panic"),
 ("ruma_common::serde::test::serde_json_eq", None, None, "NOT-REMOTE", "test-support function (asserts are its purpose)"),
 ("ruma_common::time::MilliSecondsSinceUnixEpoch as core::fmt::Debug>::fmt", "time_arith", None, "G-RANGE", "the date is the Ok result of OffsetDateTime::from_unix_timestamp(whole seconds), i.e. at most 9999-12-31T23:59:59; adding the remaining < 1000 ms stays within that second"),
 ("ruma_common::time::MilliSecondsSinceUnixEpoch as core::fmt::Debug>::fmt", None, None, "ARITH", "division / remainder by the constant 1000 of a value < 2^53"),
 ("ruma_common::time::MilliSecondsSinceUnixEpoch::now", "unwrap", None, "NOT-REMOTE", "reads the local clock"),
 ("ruma_common::time::SecondsSinceUnixEpoch::now", "unwrap", None, "NOT-REMOTE", "reads the local clock"),
 # --- signatures
 ("ruma_signatures::error::Error as core::convert::From<ruma_common::canonical_json::RedactionError>>::from", "panic", None, "UNREACHABLE", "RedactionError is non_exhaustive upstream; both existing variants are matched before the wildcard"),
 ("ruma_signatures::functions::hash_and_sign_event", "unwrap", None, "GUARD", "sign_json returned Ok just before, which always inserts `signatures` into the redacted copy"),
 ("ruma_signatures::keys::Ed25519KeyPair::correct_privkey_from_octolet", None, None, "GUARD", "both slices and the 32-byte conversion are under `key.len() == 34`"),
 # --- state res
 ("ruma_state_res::add_event_and_auth_chain_to_graph", "unwrap", None, "GUARD", "graph.entry(eid).or_default() two lines above inserts the key"),
 ("ruma_state_res::events::power_levels::RoomPowerLevelsEvent::<E>::get_as_int", "unwrap", None, "INFALLIBLE", "the mutex is poisoned only by a panic while held; the critical section has no panic site (map lookups and inserts)"),
 ("ruma_state_res::get_auth_chain_diff", "assert:overflow", None, "ARITH", "counter bounded by the number of auth chain sets"),
 ("ruma_state_res::separate::{closure", "assert:overflow", None, "ARITH", "counters bounded by the number of state sets"),
 ("ruma_state_res::lexicographical_topological_sort", "unwrap", None, "TREE", "reverse_graph and outdegree_map are built over every node and every edge of `graph` before the loop; heap entries are keys of graph"),
 ("ruma_state_res::mainline_sort::{closure}", "unwrap", None, "TREE", "order_map is filled for every id of sort_event_ids in the loop just before (errors propagate with ?)"),
 # --- html
 ("ruma_html::html::Html as core::fmt::Display>::fmt", "unwrap", None, "INFALLIBLE", "serializing into a Vec<u8> cannot fail; html5ever writes str data so the bytes are UTF-8"),
 ("markup5ever::interface::tree_builder::TreeSink>::add_attrs_if_missing", "unwrap", None, "CONTRACT", "html5ever TreeSink contract: called with element handles only"),
 ("markup5ever::interface::tree_builder::TreeSink>::elem_name", "unwrap", None, "CONTRACT", "html5ever TreeSink contract: called with element handles only"),
 ("ruma_html::html::Html::root", "unwrap", None, "TREE", "parse_fragment always creates the html root element under the document"),
 ("ruma_html::html::NodeRef::detach", "vec_op", None, "TREE", "index is the position parent_and_index found among the parent's children"),
 ("ruma_html::html::NodeRef::insert_before_sibling", "vec_op", None, "TREE", "index is the sibling's position among its parent's children (<= len)"),
 ("ruma_html::html::NodeRef::insert_before_sibling", "unwrap", None, "CONTRACT", "crate-private; only called on children of a node that is itself attached (clean_node re-parents children of an ignored, attached node)"),
 ("ruma_html::html::NodeRef::parent_and_index", "unwrap", None, "TREE", "a node with a parent is in that parent's children (append/insert/detach keep both links in step)"),
 ("ruma_html::html::NodeRef::replace_with_element_name", "unwrap", None, "CONTRACT", "crate-private; apply_replacements calls it only in the element branch"),
 ("sanitizer_config::SanitizerConfig>::clean_node", "assert:overflow", None, "ARITH", "depth grows by one per DOM level; the DOM depth is bounded by the input length"),
 # --- events
 ("ruma_events::enums::GlobalAccountDataEventType as core::convert::From<&str>>::from", "unwrap", None, "GUARD", "strip_prefix result under the starts_with test generated by the same macro arm"),
 ("ruma_events::kinds::InitialStateEvent::<C>::to_raw", "unwrap", None, "INFALLIBLE", "serializing a typed state event content to JSON text (documented infallible for the crate's content types)"),
 ("serialize_data", None, None, "INFALLIBLE", "the relation types serialize to JSON objects by construction (struct / map serializers with string keys)"),
 ("ruma_events::room::message::MessageType::data::serialize", None, None, "INFALLIBLE", "message content structs serialize to JSON objects by construction"),
 ("ruma_events::secret_storage::key::SecretStorageEncryptionAlgorithm::properties::serialize", None, None, "INFALLIBLE", "properties structs serialize to JSON objects by construction"),
 ("ruma_events::room::message::MessageType::make_replacement_body", "panic", None, "CONTRACT", "debug assertion on two values computed in the same function"),
 ("ruma_events::room::redaction::redacts", "unwrap", None, "CONTRACT", "documented: deserialization refuses a redaction without any `redacts`, so both None needs a value modified after deserialization"),
 ("ruma_events::tag::TagName::display_name", "str_index", None, "G2", "start comes from rfind('.') + 1 under a starts_with(\"u.\") guard; [2..] under the same 2-byte ASCII prefix guard"),
 ("ruma_events::tag::TagName::display_name", "assert:overflow", None, "ARITH", "index + 1 of a found '.'"),
 ("ruma_federation_api::authentication::<impl core::convert::From<&ruma_federation_api::authentication::XMatrix> for http::header::value::HeaderValue>::from", "unwrap", None, "INV-ID", "the header is made of validated server names, a validated key id and base64, quoted when needed: visible ASCII only"),
]

CO_CALL = {
    "<ruma_common::time::MilliSecondsSinceUnixEpoch as core::fmt::Debug>::fmt|time_arith|add": "OffsetDateTime::from_unix_timestamp",
}
NE_LEN_GUARD = {
    "ruma_common::http_headers::content_disposition::RawParam::<'a>::parse_next|assert:bounds|bounds",
    "ruma_common::http_headers::content_disposition::parse_param_name|assert:bounds|bounds",
    "ruma_common::http_headers::content_disposition::parse_param_value|assert:bounds|bounds",
    "ruma_common::http_headers::content_disposition::parse_param_value|assert:bounds|bounds#2",
    "ruma_identifiers_validation::server_name::validate|assert:bounds|bounds",
}
CRATES = ['ruma_common','ruma_identifiers_validation','ruma_signatures','ruma_state_res','ruma_html','ruma_events','ruma_federation_api']
fx = F.Facts('A'); w = W.World(fx, CRATES)
const_only = PC.const_only_functions(w)
entries, todo = [], []
for fn, s, key in PC.inventory(w, CRATES):
    if PC.auto_discharge(w, fn, s, const_only):
        continue
    for sub, kind, det, cat, reason in R:
        if sub in PC.norm_path(fn["path"]) and (kind is None or s["kind"] == kind) and (det is None or det in s["detail"]):
            e = {"key": key, "cat": cat, "reason": reason, "where": f"{fn['span'][0]}"}
            if key in NE_LEN_GUARD:
                e["requires"] = "ne-len-guard"      # re-verified on every run by panic_common.ne_len_guard
            if key in CO_CALL:
                e["requires"] = "co-call:" + CO_CALL[key]      # the premise of the reason is a call in the same function: re-verified on every run
            entries.append(e)
            break
    else:
        todo.append(key)
json.dump({"_doc": "Reviewed panic/truncation/bounds sites (A3). One exact key per site: `fn path|kind|detail[#ordinal]`. A site that is neither "
                   "discharged by an automatic rule nor listed here fails the check; a listed key that no longer exists is reported as stale.",
           "entries": entries}, open(os.path.join(os.path.dirname(os.path.dirname(os.path.abspath(__file__))), "spec", "panic_allow.json"), "w"), indent=1)
print(len(entries), "entries;", len(todo), "unclassified")
for k in todo: print("  TODO", k)
