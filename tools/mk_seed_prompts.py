#!/usr/bin/env python3
"""Write clause-focused seeding prompts and create the scratch worktrees.
usage: tools/mk_seed_prompts.py <round-tag> <clauses.json>   (clauses.json: {"C01": "clause text", ...})
Creates /tmp/<round-tag>-<Cxx> (detached worktree of /repo HEAD) and /tmp/<round-tag>-prompt-<Cxx>.txt."""
import json, os, subprocess, sys
HERE = os.path.dirname(os.path.dirname(os.path.abspath(__file__)))
tag, cl = sys.argv[1], json.load(open(sys.argv[2]))
TEMPLATE = sys.argv[3] if len(sys.argv) > 3 else "tools/prompts/seeded_change_clause.txt"
props = {json.loads(l)["id"]: json.loads(l) for l in open(os.path.join(HERE, "properties.jsonl"))}
tmpl = open(os.path.join(HERE, TEMPLATE)).read()
for pid, clause in cl.items():
    d = f"/tmp/{tag}-{pid}"
    if not os.path.isdir(d):
        subprocess.run(["git", "-C", "/repo", "worktree", "add", "--detach", d, "HEAD", "-q"], check=True)
    p = props[pid]
    text = p.get("title", "") + ". " + p.get("statement", p.get("description", ""))
    open(f"/tmp/{tag}-prompt-{pid}.txt", "w").write(tmpl.replace("{DIR}", d).replace("{PROP}", text).replace("{CLAUSE}", clause))
    print(d)
