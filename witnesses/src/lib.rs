//! A10 - compile-fail witnesses (and compiling twins) for the encapsulation facts that the MIR rules rely on.
//!
//! Every witness is an *external user's* program (this crate depends on ruma-common by path, like any downstream crate) that would
//! break a property if it type-checked. It is compiled by `cargo +nightly test --doc` (the error code is only honoured on nightly);
//! nothing here is executed: witnesses are `compile_fail`, twins are `no_run`. A twin differs from its witness only by the offending
//! line, so a witness that fails for an unrelated reason (renamed path, missing feature) is exposed by its twin failing too.

/// C10 - an identifier cannot be created around an unvalidated string from outside ruma-common:
/// the generated `from_borrowed` is `pub(super)`.
/// ```compile_fail,E0624
/// let s = "no sigil, no server name";
/// let _id: &ruma_common::UserId = ruma_common::UserId::from_borrowed(s);
/// ```
/// Twin: the validating constructor is the one that is reachable.
/// ```no_run
/// let s = "no sigil, no server name";
/// let _id: &ruma_common::UserId = <&ruma_common::UserId>::try_from(s).unwrap();
/// ```
pub struct C10FromBorrowed;

/// C10 - same for the owning constructors (`from_box`).
/// ```compile_fail,E0624
/// let s: Box<str> = "!not:a:room:alias".into();
/// let _id: Box<ruma_common::RoomAliasId> = ruma_common::RoomAliasId::from_box(s);
/// ```
/// ```no_run
/// let s: Box<str> = "!not:a:room:alias".into();
/// let _id: Box<ruma_common::RoomAliasId> = ruma_common::RoomAliasId::parse_box(s).unwrap();
/// ```
pub struct C10FromBox;

/// C19 - the `_Custom` payload of a string enum cannot be built by a user, so `_Custom("known")` (which would compare unequal to
/// the known variant and break losslessness) is not constructible: `PrivOwnedStr`'s field is private.
/// ```compile_fail,E0603
/// let _f = ruma_common::push::PushFormat::_Custom(ruma_common::PrivOwnedStr("event_id_only".into()));
/// ```
/// ```no_run
/// let _f = ruma_common::push::PushFormat::from("event_id_only");
/// ```
pub struct C19PrivOwnedStr;

/// C16 - a `VersionHistory` cannot be assembled field by field (bypassing the checks of `VersionHistory::new`): fields are private.
/// ```compile_fail,E0451
/// use ruma_common::api::{MatrixVersion, VersionHistory};
/// let _h = VersionHistory { unstable_paths: &[], stable_paths: &[(MatrixVersion::V1_1, "/a/:b")], deprecated: None, removed: Some(MatrixVersion::V1_0) };
/// ```
/// ```no_run
/// use ruma_common::api::{MatrixVersion, VersionHistory};
/// let _h = VersionHistory::new(&[], &[(MatrixVersion::V1_1, "/a/:b")], None, None);
/// ```
pub struct C16VersionHistoryFields;

/// C18 - the JSON text inside `Raw<T>` cannot be swapped or built around non-JSON from outside: fields are private.
/// ```compile_fail,E0451
/// let json = serde_json::value::to_raw_value(&1u8).unwrap();
/// let _r: ruma_common::serde::Raw<u8> = ruma_common::serde::Raw { json, _ev: std::marker::PhantomData };
/// ```
/// ```no_run
/// let json = serde_json::value::to_raw_value(&1u8).unwrap();
/// let _r: ruma_common::serde::Raw<u8> = ruma_common::serde::Raw::from_json(json);
/// ```
pub struct C18RawFields;

/// C01 - `CanonicalJsonValue` has no float variant: a non-integer number cannot be put into canonical JSON.
/// ```compile_fail,E0599
/// let _v = ruma_common::CanonicalJsonValue::Float(1.5);
/// ```
/// ```no_run
/// let _v = ruma_common::CanonicalJsonValue::Integer(1i32.into());
/// ```
pub struct C01NoFloat;
