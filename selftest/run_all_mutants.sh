#!/bin/bash
# runs every mutant of selftest/mutants/EXPECT.tsv (optionally only those matching $1) and prints a summary
cd "$(dirname "$0")"
while IFS=$'\t' read -r patch prop expect; do
  [ -z "$patch" ] && continue
  if [ -n "${1:-}" ] && [[ "$patch" != *"$1"* ]]; then continue; fi
  ./run_mutant.sh "mutants/$patch" "$prop" "$expect"
done < mutants/EXPECT.tsv
