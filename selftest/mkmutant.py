#!/usr/bin/env python3
"""mkmutant.py <name> <repo-relative file> <old> <new>  -> selftest/mutants/<name>.diff (unified diff against /repo HEAD)"""
import difflib, subprocess, sys, os
name, rel, old, new = sys.argv[1:5]
src = subprocess.check_output(["git", "-C", "/repo", "show", f"HEAD:{rel}"], text=True)
assert src.count(old) == 1, f"`old` occurs {src.count(old)} times"
dst = src.replace(old, new)
diff = "".join(difflib.unified_diff(src.splitlines(True), dst.splitlines(True), f"a/{rel}", f"b/{rel}"))
out = os.path.join(os.path.dirname(os.path.abspath(__file__)), "mutants", name + ".diff")
open(out, "w").write(diff)
print(out)
