#!/bin/bash
# Applies every seeded change (seeded/<id>/patch.diff) to a scratch worktree of /repo HEAD and checks that the property's quick check
# reports the expected rule key. usage: selftest/run_all_seeded.sh [filter]
cd "$(dirname "$0")/.."
rc=0
while IFS=$'\t' read -r id prop expect; do
  [ -n "${1:-}" ] && [[ "$id" != *"$1"* ]] && continue
  selftest/run_mutant.sh "seeded/$id/patch.diff" "$prop" "$expect" || rc=1
done < seeded/EXPECT.tsv
exit $rc
