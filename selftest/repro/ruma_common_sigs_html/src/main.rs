use std::panic::{catch_unwind, AssertUnwindSafe};
use ruma_common::{
    push::{NewConditionalPushRule, NewPushRule, Ruleset, RuleKind},
    CanonicalJsonObject, DeviceKeyId, MatrixToUri, MatrixUri, MxcUri, OwnedMxcUri, RoomVersionId, ServerName, UserId,
};

fn t<R: std::fmt::Debug>(name: &str, f: impl FnOnce() -> R) {
    match catch_unwind(AssertUnwindSafe(f)) {
        Ok(r) => println!("{name}: returned {r:?}"),
        Err(e) => {
            let msg = e.downcast_ref::<String>().cloned().or_else(|| e.downcast_ref::<&str>().map(|s| s.to_string())).unwrap_or_default();
            println!("{name}: PANIC {msg}");
        }
    }
}

fn main() {
    std::panic::set_hook(Box::new(|_| {}));
    // F01
    let r11 = RoomVersionId::V11.rules().unwrap();
    println!("F01 v11 redaction: {:?}", r11.redaction);
    // F02
    let mut obj: CanonicalJsonObject = serde_json::from_str(r#"{"a":1,"signatures":{"domain":"notobject"},"unsigned":{"x":1}}"#).unwrap();
    let kp_doc = ruma_signatures::Ed25519KeyPair::generate().unwrap();
    let kp = ruma_signatures::Ed25519KeyPair::from_der(&kp_doc, "1".into()).unwrap();
    let before = obj.clone();
    let res = ruma_signatures::sign_json("domain", &kp, &mut obj);
    println!("F02 sign_json err={} unchanged={} after={}", res.is_err(), obj == before, serde_json::to_string(&obj).unwrap());
    let mut obj2: CanonicalJsonObject = serde_json::from_str(r#"{"a":1,"signatures":5,"unsigned":{"x":1}}"#).unwrap();
    let before2 = obj2.clone();
    let res2 = ruma_signatures::sign_json("domain", &kp, &mut obj2);
    println!("F02b sign_json err={} unchanged={} after={}", res2.is_err(), obj2 == before2, serde_json::to_string(&obj2).unwrap());
    // F03
    let s = format!("a{}:x", "é".repeat(128));
    t("F03 DeviceKeyId 257-byte algorithm w/ multibyte", || <&DeviceKeyId>::try_from(s.as_str()).map(|k| k.as_str().len()));
    let s2 = format!("{}:abc:def", "a".repeat(257));
    t("F03b DeviceKeyId colon at 257", || <&DeviceKeyId>::try_from(s2.as_str()).map(|k| (k.algorithm().to_string().len(), k.key_name().to_string())));
    // F04
    let m = format!("mxc://{}/abc", "a".repeat(250));
    t("F04 mxc 250", || { let u: OwnedMxcUri = m.as_str().into(); u.is_valid() });
    let m2 = format!("mxc://{}/abc", "a".repeat(251));
    t("F04b mxc 251 parts", || { let u: OwnedMxcUri = m2.as_str().into(); u.parts().map(|(s, m)| (s.as_str().len(), m.to_owned())) });
    // F05
    let sn = <&ServerName>::try_from("example.org").unwrap();
    t("F05 parse_with_server_name long", || { let u = UserId::parse_with_server_name("a".repeat(300).as_str(), sn).unwrap(); (u.as_str().len(), <&UserId>::try_from(u.as_str()).is_ok()) });
    // F08
    t("F08 matrix.to empty first", || MatrixToUri::parse("https://matrix.to/#///$e").map(|_| ()));
    t("F08b matrix.to empty second", || MatrixToUri::parse("https://matrix.to/#/!a:b.c//").map(|_| ()));
    t("F08c matrix: empty", || MatrixUri::parse("matrix:roomid//e/x").map(|_| ()));
    // F09
    let uid = <&UserId>::try_from("@a%41:example.org").unwrap();
    let uri = uid.matrix_to_uri().to_string();
    t("F09 percent roundtrip", || { let p = MatrixToUri::parse(&uri).unwrap(); (uri.clone(), format!("{:?}", p.id())) });
    // F11
    t("F11 action roundtrip", || { let u = MatrixUri::parse("matrix:u/a:b.c?action=a%26b").unwrap(); let s = u.to_string(); (s.clone(), MatrixUri::parse(&s).map(|v| v == u)) });
    // F13
    t("F13 port +80", || <&ServerName>::try_from("example.org:+80").map(|s| s.port()));
    t("F13b port 000080", || <&ServerName>::try_from("example.org:000080").map(|s| s.port()));
    // F14
    t("F14 insert override into empty", || { let mut r = Ruleset::new(); r.insert(NewPushRule::Override(NewConditionalPushRule::new("a".into(), vec![], vec![])), None, None).map(|_| r.override_.len()) });
    t("F14b error not atomic", || { let mut r = Ruleset::new(); let e = r.insert(NewPushRule::Underride(NewConditionalPushRule::new("a".into(), vec![], vec![])), Some("nope"), None); (e.is_err(), r.underride.len()) });
    t("F14c replace after last", || { let mut r = Ruleset::new();
        r.insert(NewPushRule::Underride(NewConditionalPushRule::new("a".into(), vec![], vec![])), None, None).unwrap();
        r.insert(NewPushRule::Underride(NewConditionalPushRule::new("b".into(), vec![], vec![])), None, None).unwrap();
        // order now [b, a]; re-insert b after a (last)
        r.insert(NewPushRule::Underride(NewConditionalPushRule::new("b".into(), vec![], vec![])), Some("a"), None).map(|_| r.underride.iter().map(|x| x.rule_id.clone()).collect::<Vec<_>>()) });
    let _ = RuleKind::Override;
    // F15
    t("F15 html scheme bypass", || ruma_html::sanitize_html(r#"<a class="x" href="javascript:alert(1)">x</a><img alt="a" src="http://tracker/x.png">"#, ruma_html::HtmlSanitizerMode::Strict, ruma_html::RemoveReplyFallback::No));
    t("F15b html only href", || ruma_html::sanitize_html(r#"<a href="javascript:alert(1)">x</a>"#, ruma_html::HtmlSanitizerMode::Strict, ruma_html::RemoveReplyFallback::No));
    let _ = MxcUri::is_valid;
    // F10
    {
        use std::collections::BTreeMap;
        let mut ev: CanonicalJsonObject = serde_json::from_str(r#"{"room_id":"!x:domain","sender":"@a:domain","origin_server_ts":1,"type":"m.room.message","content":{"body":"hi","join_authorised_via_users_server":"@b:other"},"prev_events":[],"auth_events":[],"depth":3,"event_id":"$abc"}"#).unwrap();
        let rules = RoomVersionId::V10.rules().unwrap();
        ruma_signatures::hash_and_sign_event("domain", &kp, &mut ev, &rules.redaction).unwrap();
        let mut set = BTreeMap::new();
        set.insert("ed25519:1".to_owned(), ruma_common::serde::Base64::new(kp.public_key().to_vec()));
        let mut map = BTreeMap::new();
        map.insert("domain".to_owned(), set);
        t("F10 verify message w/ join_authorised key", || ruma_signatures::verify_event(&map, &ev, &rules).map_err(|e| e.to_string()));
    }
    // F16
    {
        use ruma_common::push::{FlattenedJson, PushCondition, PushConditionRoomCtx};
        use ruma_common::serde::Raw;
        for n in [100usize, 1000, 10000, 100000] {
            let pat = format!("a{}", "?".repeat(n));
            let raw: Raw<serde_json::Value> = Raw::from_json_string(r#"{"sender":"@x:y.z","content":{"body":"hello aaaa world"}}"#.to_owned()).unwrap();
            let ev = FlattenedJson::from_raw(&raw);
            let ctx = PushConditionRoomCtx { room_id: "!r:y.z".try_into().unwrap(), member_count: 2u32.into(), user_id: "@me:y.z".try_into().unwrap(), user_display_name: "me".into(), power_levels: None };
            let c = PushCondition::EventMatch { key: "content.body".into(), pattern: pat };
            let st = std::time::Instant::now();
            t(&format!("F16 regex n={n}"), || c.applies(&ev, &ctx));
            println!("   took {:?}", st.elapsed());
        }
    }
}
