use std::collections::{HashMap, HashSet};
use ruma_common::{room_version_rules::AuthorizationRules, MilliSecondsSinceUnixEpoch, OwnedEventId, OwnedRoomId, OwnedUserId, RoomId, UserId, EventId};
use ruma_events::{StateEventType, TimelineEventType};
use ruma_state_res::{auth_check, resolve, Event, StateMap};
use serde_json::value::{RawValue, to_raw_value};

#[derive(Clone, Debug)]
struct Pdu { id: OwnedEventId, room: OwnedRoomId, sender: OwnedUserId, ts: u64, ty: TimelineEventType, content: Box<RawValue>, sk: Option<String>, prev: Vec<OwnedEventId>, auth: Vec<OwnedEventId> }
impl Event for Pdu {
    type Id = OwnedEventId;
    fn event_id(&self) -> &OwnedEventId { &self.id }
    fn room_id(&self) -> &RoomId { &self.room }
    fn sender(&self) -> &UserId { &self.sender }
    fn origin_server_ts(&self) -> MilliSecondsSinceUnixEpoch { MilliSecondsSinceUnixEpoch((self.ts as u32).into()) }
    fn event_type(&self) -> &TimelineEventType { &self.ty }
    fn content(&self) -> &RawValue { &self.content }
    fn state_key(&self) -> Option<&str> { self.sk.as_deref() }
    fn prev_events(&self) -> Box<dyn DoubleEndedIterator<Item = &OwnedEventId> + '_> { Box::new(self.prev.iter()) }
    fn auth_events(&self) -> Box<dyn DoubleEndedIterator<Item = &OwnedEventId> + '_> { Box::new(self.auth.iter()) }
    fn redacts(&self) -> Option<&OwnedEventId> { None }
}
fn pdu(id: &str, sender: &str, ts: u64, ty: &str, sk: Option<&str>, content: serde_json::Value, prev: &[&str], auth: &[&str]) -> Pdu {
    Pdu { id: format!("${id}:s").try_into().unwrap(), room: "!r:s".try_into().unwrap(), sender: sender.try_into().unwrap(), ts, ty: ty.into(), content: to_raw_value(&content).unwrap(), sk: sk.map(Into::into), prev: prev.iter().map(|p| format!("${p}:s").try_into().unwrap()).collect(), auth: auth.iter().map(|p| format!("${p}:s").try_into().unwrap()).collect() }
}

fn main() {
    use serde_json::json;
    // F07: knock on a public room under v7 rules
    let create = pdu("create", "@alice:s", 1, "m.room.create", Some(""), json!({"creator":"@alice:s"}), &[], &[]);
    let jr = pdu("jr", "@alice:s", 3, "m.room.join_rules", Some(""), json!({"join_rule":"public"}), &["create"], &["create"]);
    let knock = pdu("knock", "@bob:s", 5, "m.room.member", Some("@bob:s"), json!({"membership":"knock"}), &["jr"], &["create","jr"]);
    let mut state: HashMap<(StateEventType, String), Pdu> = HashMap::new();
    state.insert((StateEventType::RoomCreate, "".into()), create.clone());
    state.insert((StateEventType::RoomJoinRules, "".into()), jr.clone());
    for (name, rules) in [("V7", AuthorizationRules::V7), ("V8", AuthorizationRules::V8), ("V10", AuthorizationRules::V10), ("V11", AuthorizationRules::V11)] {
        let r = auth_check(&rules, &knock, |t, k| state.get(&(t.clone(), k.to_owned())).cloned());
        println!("F07 knock on public room under {name}: {r:?}");
    }

    // F06: mainline ordering, event without power-level ancestor vs event whose closest mainline is the oldest PL event.
    // Room: create, alice join, PL1 (alice), then two conflicting topic events:
    //   T_old: sent by alice, auth events WITHOUT any power_levels event (no mainline ancestor), timestamp LATE (adversarial)
    //   T_new: sent by alice, auth events include PL1, timestamp EARLY
    // Spec: T_old (no ancestor) sorts before T_new => T_new applied last => T_new wins.
    // If the tie is broken by timestamp, T_new sorts first and T_old wins.
    let create = pdu("create", "@alice:s", 1, "m.room.create", Some(""), json!({"creator":"@alice:s"}), &[], &[]);
    let join = pdu("join", "@alice:s", 2, "m.room.member", Some("@alice:s"), json!({"membership":"join"}), &["create"], &["create"]);
    let pl1 = pdu("pl1", "@alice:s", 3, "m.room.power_levels", Some(""), json!({"users":{"@alice:s":100}}), &["join"], &["create","join"]);
    let t_old = pdu("told", "@alice:s", 100, "m.room.topic", Some(""), json!({"topic":"old"}), &["join"], &["create","join"]);
    let t_new = pdu("tnew", "@alice:s", 10, "m.room.topic", Some(""), json!({"topic":"new"}), &["pl1"], &["create","join","pl1"]);
    let all = [create.clone(), join.clone(), pl1.clone(), t_old.clone(), t_new.clone()];
    let store: HashMap<OwnedEventId, Pdu> = all.iter().map(|e| (e.id.clone(), e.clone())).collect();
    let base = |topic: &Pdu| -> StateMap<OwnedEventId> {
        let mut m = StateMap::new();
        m.insert((StateEventType::RoomCreate, "".into()), create.id.clone());
        m.insert((StateEventType::RoomMember, "@alice:s".into()), join.id.clone());
        m.insert((StateEventType::RoomPowerLevels, "".into()), pl1.id.clone());
        m.insert((StateEventType::RoomTopic, "".into()), topic.id.clone());
        m
    };
    let s1 = base(&t_old); let s2 = base(&t_new);
    let chain = |e: &Pdu| -> HashSet<OwnedEventId> { let mut s: HashSet<OwnedEventId> = HashSet::new(); let mut st = vec![e.id.clone()]; while let Some(i) = st.pop() { for a in &store[&i].auth { if s.insert(a.clone()) { st.push(a.clone()); } } } s };
    let mut c1 = chain(&t_old); c1.extend(chain(&pl1)); let mut c2 = chain(&t_new); c2.extend(chain(&pl1));
    let res = resolve(&AuthorizationRules::V6, [&s1, &s2], vec![c1, c2], |id: &EventId| store.get(id).cloned()).unwrap();
    println!("F06 resolved topic = {:?} (spec: $tnew:s, because the event without mainline ancestor sorts first)", res.get(&(StateEventType::RoomTopic, "".into())));
}
