#!/bin/bash
# Behaviour-preserving refactorings written by sub-agents (one per property, 5-10 edits each): every quick check must stay silent on each.
# usage: [BENIGN_CHECKS="10 17"] selftest/run_all_benign.sh [filter]   (each patch is applied to a scratch worktree of /repo HEAD under /tmp, removed afterwards)
cd "$(dirname "$0")/.."
rc=0
for patch in selftest/benign/*.diff; do
  id=$(basename "$patch" .diff)
  [ -n "${1:-}" ] && [ -z "${BENIGN_EXACT:-}" ] && [[ "$id" != *"$1"* ]] && continue
  [ -n "${1:-}" ] && [ -n "${BENIGN_EXACT:-}" ] && [ "$id" != "$1" ] && continue
  WT=$(mktemp -d /tmp/ben-XXXXXX)
  git -C /repo worktree add --detach -q "$WT" HEAD || exit 2
  [ -f /repo/Cargo.lock ] && cp /repo/Cargo.lock "$WT/"
  if ! git -C "$WT" apply "$(realpath "$patch")"; then echo "BENIGN $id: patch does not apply"; rc=1; git -C /repo worktree remove --force "$WT"; continue; fi
  EV=$(mktemp -d /tmp/ben-ev-XXXXXX)
  bad=""
  for i in ${BENIGN_CHECKS:-01 02 03 04 05 06 07 08 09 10 11 12 13 14 15 16 17 18 19 20}; do
    VERIF_REPO="$WT" VERIF_EVIDENCE_DIR="$EV" ./check C$i >"$EV/out.txt" 2>&1 || { bad="$bad C$i"; grep -E "VIOLATION rule|UNRECOGNISED|MISSING" "$EV/out.txt" | cut -c1-240 | head -3; }
  done
  if [ -z "$bad" ]; then echo "BENIGN $id: all checks silent (${BENIGN_CHECKS:-all 20})"; else echo "BENIGN $id: FALSE ALARM in$bad"; rc=1; fi
  rm -rf "$EV"; git -C /repo worktree remove --force "$WT" >/dev/null 2>&1; rm -rf "$WT"
done
exit $rc
