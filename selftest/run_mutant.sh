#!/bin/bash
# usage: selftest/run_mutant.sh <patch-file> <property> <expected-substring-in-output | NONE>
# Applies the patch to a scratch worktree of /repo (never to /repo), runs the property's quick check against it,
# and reports whether the expected violation key was printed. Removes the worktree afterwards.
set -u
PATCH=$(realpath "$1"); PROP=$2; EXPECT=$3
TIER=""
case "$EXPECT" in thorough:*) TIER="--tier thorough"; EXPECT=${EXPECT#thorough:};; esac   # expectation of the thorough tier (build configuration B)
HERE=$(cd "$(dirname "$0")/.." && pwd)
WT=$(mktemp -d /tmp/mut-XXXXXX)
git -C /repo worktree add --detach -q "$WT" HEAD || exit 2
[ -f /repo/Cargo.lock ] && cp /repo/Cargo.lock "$WT/"      # ignored by git, so not part of the worktree; the pinned resolution is part of the analysed tree
cleanup() { git -C /repo worktree remove --force "$WT" >/dev/null 2>&1; rm -rf "$WT"; }
trap cleanup EXIT
if ! git -C "$WT" apply "$PATCH"; then echo "MUTANT $(basename $PATCH): patch does not apply"; exit 2; fi
EV=$(mktemp -d /tmp/mut-ev-XXXXXX)
OUT=$(cd "$HERE" && VERIF_REPO="$WT" VERIF_EVIDENCE_DIR="$EV" ./check "$PROP" $TIER 2>&1); RC=$?
rm -rf "$EV"
if [ "$EXPECT" = "NONE" ]; then
  if [ $RC -eq 0 ]; then echo "MUTANT $(basename $PATCH) [$PROP]: silent as expected"; exit 0; fi
  echo "MUTANT $(basename $PATCH) [$PROP]: FALSE ALARM"; echo "$OUT" | grep -E "VIOLATION|UNRECOGNISED|MISSING" | cut -c1-300 | head -5; exit 1
fi
if [ $RC -ne 0 ] && echo "$OUT" | grep -qF -- "$EXPECT"; then echo "MUTANT $(basename $PATCH) [$PROP]: caught ($EXPECT)"; exit 0; fi
echo "MUTANT $(basename $PATCH) [$PROP]: MISSED (rc=$RC, expected '$EXPECT')"; echo "$OUT" | grep -E "VIOLATION|UNRECOGNISED|MISSING" | cut -c1-300 | head -5
exit 1
