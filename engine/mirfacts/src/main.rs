//! mirfacts: a rustc driver that dumps, for one crate, the facts the /verif static rules consume.
//!
//! Invoked through RUSTC_WORKSPACE_WRAPPER (argv[1] is the real rustc, dropped). Output: one JSON
//! file `$MIRFACTS_OUT/<crate>-<hash of args>.json`, written with a single write call.
#![feature(rustc_private)]
#![allow(clippy::all)]

extern crate rustc_abi;
extern crate rustc_data_structures;
extern crate rustc_driver;
extern crate rustc_hir;
extern crate rustc_interface;
extern crate rustc_middle;
extern crate rustc_span;

use std::fmt::Write as _;

use rustc_abi::{FieldIdx, Size, VariantIdx, FIRST_VARIANT};
use rustc_hir::def::DefKind;
use rustc_hir::def_id::DefId;
use rustc_middle::mir::interpret::{GlobalAlloc, Scalar};
use rustc_middle::mir::{self, ConstValue};
use rustc_middle::ty::print::{with_no_trimmed_paths, with_no_visible_paths, with_resolve_crate_name};
use rustc_middle::ty::{self, Ty, TyCtxt, TypeVisitableExt};
use rustc_span::Span;

// ------------------------------------------------------------------------------------------------
// tiny JSON value
// ------------------------------------------------------------------------------------------------
enum V {
    Null,
    Bool(bool),
    Int(i128),
    Str(String),
    Arr(Vec<V>),
    Obj(Vec<(String, V)>),
}
fn s(x: impl Into<String>) -> V {
    V::Str(x.into())
}
fn obj(items: Vec<(&str, V)>) -> V {
    V::Obj(items.into_iter().map(|(k, v)| (k.to_string(), v)).collect())
}
impl V {
    fn write(&self, out: &mut String) {
        match self {
            V::Null => out.push_str("null"),
            V::Bool(b) => out.push_str(if *b { "true" } else { "false" }),
            V::Int(i) => {
                let _ = write!(out, "{}", i);
            }
            V::Str(st) => esc(st, out),
            V::Arr(a) => {
                out.push('[');
                for (i, x) in a.iter().enumerate() {
                    if i > 0 {
                        out.push(',');
                    }
                    x.write(out);
                }
                out.push(']');
            }
            V::Obj(o) => {
                out.push('{');
                for (i, (k, x)) in o.iter().enumerate() {
                    if i > 0 {
                        out.push(',');
                    }
                    esc(k, out);
                    out.push(':');
                    x.write(out);
                }
                out.push('}');
            }
        }
    }
}
fn esc(st: &str, out: &mut String) {
    out.push('"');
    for c in st.chars() {
        match c {
            '"' => out.push_str("\\\""),
            '\\' => out.push_str("\\\\"),
            '\n' => out.push_str("\\n"),
            '\r' => out.push_str("\\r"),
            '\t' => out.push_str("\\t"),
            c if (c as u32) < 0x20 => {
                let _ = write!(out, "\\u{:04x}", c as u32);
            }
            c => out.push(c),
        }
    }
    out.push('"');
}

// ------------------------------------------------------------------------------------------------
struct Cx<'tcx> {
    tcx: TyCtxt<'tcx>,
    full_mir: bool,
}

impl<'tcx> Cx<'tcx> {
    fn path(&self, did: DefId) -> String {
        self.tcx.def_path_str(did)
    }

    fn span(&self, sp: Span) -> V {
        let sm = self.tcx.sess.source_map();
        let lo = sm.lookup_char_pos(sp.lo());
        let hi = sm.lookup_char_pos(sp.hi());
        let name = format!("{}", lo.file.name.prefer_local_unconditionally());
        V::Arr(vec![s(name), V::Int(lo.line as i128), V::Int(hi.line as i128)])
    }

    /// Line in the outermost (user-written) call site.
    fn line(&self, sp: Span) -> i128 {
        let sp = sp.source_callsite();
        let sm = self.tcx.sess.source_map();
        sm.lookup_char_pos(sp.lo()).line as i128
    }

    fn macros(&self, sp: Span) -> V {
        if !sp.from_expansion() {
            return V::Null;
        }
        let mut names = vec![];
        for ed in sp.macro_backtrace() {
            match ed.kind {
                rustc_span::ExpnKind::Macro(_, name) => names.push(s(name.to_string())),
                rustc_span::ExpnKind::Desugaring(d) => names.push(s(format!("desugar:{:?}", d))),
                rustc_span::ExpnKind::AstPass(p) => names.push(s(format!("astpass:{:?}", p))),
                _ => {}
            }
        }
        V::Arr(names)
    }

    fn ty(&self, t: Ty<'tcx>) -> String {
        format!("{}", t)
    }

    fn reveal(&self, tenv: ty::TypingEnv<'tcx>, t: Ty<'tcx>) -> Ty<'tcx> {
        self.tcx
            .try_normalize_erasing_regions(tenv, ty::Unnormalized::new_wip(t))
            .unwrap_or(t)
    }

    // -------------------------------------------------------------------------------------------
    // constant values
    // -------------------------------------------------------------------------------------------
    fn read_uint(&self, alloc_id: mir::interpret::AllocId, off: u64, size: u64) -> Option<u128> {
        let alloc = self.memory(alloc_id)?;
        let a = alloc.inner();
        let lo = off as usize;
        let hi = lo + size as usize;
        if hi > a.len() {
            return None;
        }
        let bytes = a.inspect_with_uninit_and_ptr_outside_interpreter(lo..hi);
        let mut v: u128 = 0;
        for (i, b) in bytes.iter().enumerate() {
            v |= (*b as u128) << (8 * i);
        }
        Some(v)
    }

    fn memory(&self, alloc_id: mir::interpret::AllocId) -> Option<mir::interpret::ConstAllocation<'tcx>> {
        match self.tcx.try_get_global_alloc(alloc_id)? {
            GlobalAlloc::Memory(a) => Some(a),
            GlobalAlloc::Static(did) => self.tcx.eval_static_initializer(did).ok(),
            _ => None,
        }
    }

    fn read_ptr(&self, alloc_id: mir::interpret::AllocId, off: u64) -> Option<(mir::interpret::AllocId, u64)> {
        let alloc = self.memory(alloc_id)?;
        let prov = alloc.inner().provenance().get_ptr(Size::from_bytes(off))?;
        let target_off = self.read_uint(alloc_id, off, 8)? as u64;
        Some((prov.alloc_id(), target_off))
    }

    fn layout_size(&self, t: Ty<'tcx>) -> Option<u64> {
        let tenv = ty::TypingEnv::fully_monomorphized();
        self.tcx.layout_of(tenv.as_query_input(t)).ok().map(|l| l.size.bytes())
    }

    fn int_val(&self, t: Ty<'tcx>, bits: u128, size: u64) -> V {
        match t.kind() {
            ty::Bool => V::Bool(bits != 0),
            ty::Char => s(char::from_u32(bits as u32).map(|c| c.to_string()).unwrap_or_default()),
            ty::Int(_) => {
                let shift = 128 - 8 * size as u32;
                V::Int(((bits << shift) as i128) >> shift)
            }
            ty::Uint(_) => {
                if bits > i128::MAX as u128 {
                    s(format!("{}", bits))
                } else {
                    V::Int(bits as i128)
                }
            }
            _ => s(format!("bits:{:#x}", bits)),
        }
    }

    /// Value stored at (alloc, off) with type t.
    fn value_at(&self, alloc_id: mir::interpret::AllocId, off: u64, t: Ty<'tcx>, depth: u32) -> V {
        match t.kind() {
            ty::Bool | ty::Char | ty::Int(_) | ty::Uint(_) => {
                let Some(sz) = self.layout_size(t) else { return V::Null };
                match self.read_uint(alloc_id, off, sz) {
                    Some(b) => self.int_val(t, b, sz),
                    None => V::Null,
                }
            }
            _ => {
                if let Some(0) = self.layout_size(t) {
                    if !matches!(t.kind(), ty::Adt(..) | ty::Tuple(..) | ty::Array(..)) {
                        return obj(vec![("zst", s(self.ty(t)))]);
                    }
                    return self.value(ConstValue::ZeroSized, t, depth);
                }
                self.value(ConstValue::Indirect { alloc_id, offset: Size::from_bytes(off) }, t, depth)
            }
        }
    }

    fn slice_at(&self, alloc_id: mir::interpret::AllocId, off: u64, len: u64, inner: Ty<'tcx>, depth: u32) -> V {
        match inner.kind() {
            ty::Str => {
                let Some(alloc) = self.memory(alloc_id) else { return V::Null };
                let a = alloc.inner();
                let lo = off as usize;
                let hi = lo + len as usize;
                if hi > a.len() {
                    return V::Null;
                }
                let bytes = a.inspect_with_uninit_and_ptr_outside_interpreter(lo..hi);
                s(String::from_utf8_lossy(bytes).into_owned())
            }
            ty::Slice(elem) => {
                let Some(sz) = self.layout_size(*elem) else { return V::Null };
                if len > 100_000 {
                    return s("<too long>");
                }
                V::Arr((0..len).map(|i| self.value_at(alloc_id, off + i * sz, *elem, depth + 1)).collect())
            }
            _ => V::Null,
        }
    }

    fn value(&self, val: ConstValue, t: Ty<'tcx>, depth: u32) -> V {
        if depth > 24 {
            return s("<depth>");
        }
        let tcx = self.tcx;
        match t.kind() {
            ty::Bool | ty::Char | ty::Int(_) | ty::Uint(_) => match val {
                ConstValue::Scalar(Scalar::Int(i)) => {
                    let size = i.size().bytes();
                    self.int_val(t, i.to_bits(i.size()), size)
                }
                ConstValue::Indirect { alloc_id, offset } => self.value_at(alloc_id, offset.bytes(), t, depth),
                _ => V::Null,
            },
            ty::Float(_) => s(format!("{}", mir::Const::Val(val, t))),
            ty::Ref(_, inner, _) | ty::RawPtr(inner, _) => {
                let inner = *inner;
                let unsized_tail = matches!(inner.kind(), ty::Str | ty::Slice(_));
                match val {
                    ConstValue::Slice { alloc_id, meta } => self.slice_at(alloc_id, 0, meta, inner, depth),
                    ConstValue::Scalar(Scalar::Ptr(ptr, _)) => {
                        let (prov, off) = ptr.into_raw_parts();
                        self.value_at(prov.alloc_id(), off.bytes(), inner, depth + 1)
                    }
                    ConstValue::Scalar(Scalar::Int(_)) => s("<int-ptr>"),
                    ConstValue::Indirect { alloc_id, offset } => {
                        let Some((target, toff)) = self.read_ptr(alloc_id, offset.bytes()) else {
                            return s("<no-prov>");
                        };
                        if unsized_tail {
                            let Some(len) = self.read_uint(alloc_id, offset.bytes() + 8, 8) else { return V::Null };
                            self.slice_at(target, toff, len as u64, inner, depth)
                        } else if matches!(inner.kind(), ty::Dynamic(..)) {
                            s("<dyn>")
                        } else {
                            self.value_at(target, toff, inner, depth + 1)
                        }
                    }
                    ConstValue::ZeroSized => V::Null,
                }
            }
            ty::FnDef(did, _) => obj(vec![("fn", s(self.path(*did)))]),
            ty::FnPtr(..) => match val {
                ConstValue::Scalar(Scalar::Ptr(ptr, _)) => {
                    let (prov, _) = ptr.into_raw_parts();
                    match tcx.try_get_global_alloc(prov.alloc_id()) {
                        Some(GlobalAlloc::Function { instance }) => obj(vec![("fn", s(self.path(instance.def_id())))]),
                        _ => s("<fnptr>"),
                    }
                }
                ConstValue::Indirect { alloc_id, offset } => match self.read_ptr(alloc_id, offset.bytes()) {
                    Some((target, _)) => match tcx.try_get_global_alloc(target) {
                        Some(GlobalAlloc::Function { instance }) => obj(vec![("fn", s(self.path(instance.def_id())))]),
                        _ => s("<fnptr>"),
                    },
                    None => s("<fnptr>"),
                },
                _ => s("<fnptr>"),
            },
            ty::Adt(def, args) => {
                if def.is_union() {
                    return s("<union>");
                }
                let Some(d) = tcx.try_destructure_mir_constant_for_user_output(val, t) else {
                    return s(format!("<undestructurable {}>", self.ty(t)));
                };
                let vidx = d.variant.unwrap_or(FIRST_VARIANT);
                let variant = def.variant(vidx);
                let mut fields = vec![];
                for (i, (fv, fty)) in d.fields.iter().enumerate() {
                    let name = variant.fields[FieldIdx::from_usize(i)].name.to_string();
                    fields.push((name, self.value(*fv, *fty, depth + 1)));
                }
                let _ = args;
                let mut o = vec![("adt".to_string(), s(self.path(def.did())))];
                if def.is_enum() {
                    o.push(("variant".to_string(), s(variant.name.to_string())));
                }
                o.push(("fields".to_string(), V::Obj(fields)));
                V::Obj(o)
            }
            ty::Tuple(_) | ty::Array(..) => {
                if let ty::Array(elem, _) = t.kind() {
                    if matches!(elem.kind(), ty::Uint(ty::UintTy::U8)) {
                        // byte arrays: emit as list of ints through the generic path below
                    }
                }
                let Some(d) = tcx.try_destructure_mir_constant_for_user_output(val, t) else {
                    return s(format!("<undestructurable {}>", self.ty(t)));
                };
                V::Arr(d.fields.iter().map(|(fv, fty)| self.value(*fv, *fty, depth + 1)).collect())
            }
            _ => s(format!("{}", mir::Const::Val(val, t))),
        }
    }

    fn const_operand(&self, c: &mir::ConstOperand<'tcx>, tenv: ty::TypingEnv<'tcx>) -> V {
        let tcx = self.tcx;
        let t = c.const_.ty();
        let mut o: Vec<(&str, V)> = vec![("k", s("const")), ("ty", s(self.ty(t)))];
        if let ty::FnDef(did, args) = t.kind() {
            o.push(("fn", s(self.path(*did))));
            o.push(("args", s(format!("{:?}", args))));
            o.push(("fnargs", V::Arr(args.iter().map(|a| s(format!("{}", a))).collect())));
            if let Ok(Some(inst)) = ty::Instance::try_resolve(tcx, tenv, *did, args) {
                let rd = inst.def_id();
                if rd != *did {
                    o.push(("res", s(self.path(rd))));
                }
            }
            return obj(o);
        }
        if let mir::Const::Unevaluated(uv, _) = c.const_ {
            if let Some(p) = uv.promoted {
                o.push(("promoted", V::Int(p.as_usize() as i128)));
                return obj(o);
            }
            o.push(("def", s(self.path(uv.def))));
        }
        match c.const_.eval(tcx, tenv, c.span) {
            Ok(val) => {
                if let ConstValue::Scalar(Scalar::Ptr(ptr, _)) = val {
                    let (prov, _) = ptr.into_raw_parts();
                    if let Some(GlobalAlloc::Static(sdid)) = tcx.try_get_global_alloc(prov.alloc_id()) {
                        o.push(("static", s(self.path(sdid))));
                    }
                }
                let simple = match t.kind() {
                    ty::Bool | ty::Char | ty::Int(_) | ty::Uint(_) | ty::Float(_) => true,
                    ty::Ref(_, inner, _) => matches!(inner.kind(), ty::Str)
                        || matches!(inner.kind(), ty::Slice(e) if matches!(e.kind(), ty::Uint(ty::UintTy::U8)))
                        || matches!(inner.kind(), ty::Array(e, _) if matches!(e.kind(), ty::Uint(ty::UintTy::U8))),
                    ty::Adt(..) | ty::Tuple(..) | ty::Array(..) => !t.has_non_region_param(),
                    _ => false,
                };
                if simple {
                    o.push(("v", self.value(val, t, 0)));
                } else {
                    o.push(("p", s(format!("{}", c.const_))));
                }
            }
            Err(_) => {
                o.push(("p", s(format!("{}", c.const_))));
            }
        }
        obj(o)
    }

    // -------------------------------------------------------------------------------------------
    // MIR
    // -------------------------------------------------------------------------------------------
    fn place(&self, body: &mir::Body<'tcx>, p: &mir::Place<'tcx>) -> V {
        if p.projection.is_empty() {
            return V::Int(p.local.as_usize() as i128);
        }
        let tcx = self.tcx;
        let mut pty = mir::PlaceTy::from_ty(body.local_decls[p.local].ty);
        let mut projs = vec![];
        for elem in p.projection.iter() {
            let v = match elem {
                mir::ProjectionElem::Deref => s("*"),
                mir::ProjectionElem::Field(f, _) => {
                    let name = match pty.ty.kind() {
                        ty::Adt(def, _) if !def.is_union() || true => {
                            let v = pty.variant_index.unwrap_or(FIRST_VARIANT);
                            if v.as_usize() < def.variants().len() && f.as_usize() < def.variant(v).fields.len() {
                                def.variant(v).fields[f].name.to_string()
                            } else {
                                f.as_usize().to_string()
                            }
                        }
                        ty::Closure(did, _) => {
                            let names = tcx.closure_saved_names_of_captured_variables(*did);
                            names.get(f).map(|n| n.to_string()).unwrap_or_else(|| f.as_usize().to_string())
                        }
                        _ => f.as_usize().to_string(),
                    };
                    V::Arr(vec![s("f"), V::Int(f.as_usize() as i128), s(name)])
                }
                mir::ProjectionElem::Index(l) => V::Arr(vec![s("i"), V::Int(l.as_usize() as i128)]),
                mir::ProjectionElem::ConstantIndex { offset, min_length, from_end } => {
                    V::Arr(vec![s("ci"), V::Int(offset as i128), V::Int(min_length as i128), V::Bool(from_end)])
                }
                mir::ProjectionElem::Subslice { from, to, from_end } => {
                    V::Arr(vec![s("sub"), V::Int(from as i128), V::Int(to as i128), V::Bool(from_end)])
                }
                mir::ProjectionElem::Downcast(name, vidx) => {
                    let n = name.map(|n| n.to_string()).unwrap_or_else(|| match pty.ty.kind() {
                        ty::Adt(def, _) => def.variant(vidx).name.to_string(),
                        _ => vidx.as_usize().to_string(),
                    });
                    V::Arr(vec![s("v"), s(n), V::Int(vidx.as_usize() as i128)])
                }
                mir::ProjectionElem::OpaqueCast(_) => s("oc"),
                mir::ProjectionElem::UnwrapUnsafeBinder(_) => s("ub"),
            };
            projs.push(v);
            pty = pty.projection_ty(tcx, elem);
        }
        obj(vec![("l", V::Int(p.local.as_usize() as i128)), ("p", V::Arr(projs))])
    }

    fn operand(&self, body: &mir::Body<'tcx>, op: &mir::Operand<'tcx>, tenv: ty::TypingEnv<'tcx>) -> V {
        match op {
            mir::Operand::Copy(p) => obj(vec![("k", s("copy")), ("pl", self.place(body, p))]),
            mir::Operand::Move(p) => obj(vec![("k", s("move")), ("pl", self.place(body, p))]),
            mir::Operand::Constant(c) => self.const_operand(c, tenv),
            other => obj(vec![("k", s("rt")), ("p", s(format!("{:?}", other)))]),
        }
    }

    fn variant_name(&self, def: ty::AdtDef<'tcx>, v: VariantIdx) -> String {
        def.variant(v).name.to_string()
    }

    fn rvalue(&self, body: &mir::Body<'tcx>, rv: &mir::Rvalue<'tcx>, tenv: ty::TypingEnv<'tcx>) -> V {
        use mir::Rvalue::*;
        match rv {
            Use(op, _) => V::Arr(vec![s("use"), self.operand(body, op, tenv)]),
            Repeat(op, n) => V::Arr(vec![s("repeat"), self.operand(body, op, tenv), s(format!("{}", n))]),
            Ref(_, bk, p) => {
                let m = match bk {
                    mir::BorrowKind::Shared => "shared",
                    mir::BorrowKind::Fake(_) => "fake",
                    mir::BorrowKind::Mut { .. } => "mut",
                };
                V::Arr(vec![s("ref"), s(m), self.place(body, p)])
            }
            ThreadLocalRef(d) => V::Arr(vec![s("tls"), s(self.path(*d))]),
            RawPtr(k, p) => V::Arr(vec![s("rawptr"), s(format!("{:?}", k)), self.place(body, p)]),
            Cast(kind, op, to) => {
                let from = op.ty(&body.local_decls, self.tcx);
                let k = match kind {
                    mir::CastKind::PointerCoercion(pc, _) => format!("PointerCoercion:{:?}", pc),
                    other => format!("{:?}", other),
                };
                V::Arr(vec![s("cast"), s(k), self.operand(body, op, tenv), s(self.ty(from)), s(self.ty(*to))])
            }
            BinaryOp(op, ab) => V::Arr(vec![
                s("bin"),
                s(format!("{:?}", op)),
                self.operand(body, &ab.0, tenv),
                self.operand(body, &ab.1, tenv),
            ]),
            UnaryOp(op, a) => V::Arr(vec![s("un"), s(format!("{:?}", op)), self.operand(body, a, tenv)]),
            Discriminant(p) => {
                let pty = p.ty(&body.local_decls, self.tcx).ty;
                V::Arr(vec![s("discr"), self.place(body, p), s(self.ty(pty))])
            }
            Aggregate(kind, ops) => {
                let ops_v = V::Arr(ops.iter().map(|o| self.operand(body, o, tenv)).collect());
                let k = match &**kind {
                    mir::AggregateKind::Array(_) => obj(vec![("k", s("array"))]),
                    mir::AggregateKind::Tuple => obj(vec![("k", s("tuple"))]),
                    mir::AggregateKind::Adt(did, vidx, _, _, active) => {
                        let def = self.tcx.adt_def(*did);
                        let fields: Vec<V> =
                            def.variant(*vidx).fields.iter().map(|f| s(f.name.to_string())).collect();
                        let mut o = vec![
                            ("k", s("adt")),
                            ("adt", s(self.path(*did))),
                            ("variant", s(self.variant_name(def, *vidx))),
                            ("vidx", V::Int(vidx.as_usize() as i128)),
                            ("fields", V::Arr(fields)),
                        ];
                        if let Some(a) = active {
                            o.push(("active", V::Int(a.as_usize() as i128)));
                        }
                        obj(o)
                    }
                    mir::AggregateKind::Closure(did, _) => obj(vec![("k", s("closure")), ("def", s(self.path(*did)))]),
                    mir::AggregateKind::Coroutine(did, _) => obj(vec![("k", s("coroutine")), ("def", s(self.path(*did)))]),
                    mir::AggregateKind::CoroutineClosure(did, _) => {
                        obj(vec![("k", s("coroutine_closure")), ("def", s(self.path(*did)))])
                    }
                    mir::AggregateKind::RawPtr(..) => obj(vec![("k", s("rawptr"))]),
                };
                V::Arr(vec![s("agg"), k, ops_v])
            }
            CopyForDeref(p) => V::Arr(vec![s("use"), obj(vec![("k", s("copy")), ("pl", self.place(body, p))])]),
            other => V::Arr(vec![s("other"), s(format!("{:?}", other))]),
        }
    }

    fn callee(&self, func: &mir::Operand<'tcx>, body: &mir::Body<'tcx>, tenv: ty::TypingEnv<'tcx>) -> Vec<(&'static str, V)> {
        let tcx = self.tcx;
        let fty = func.ty(&body.local_decls, tcx);
        let mut o = vec![];
        match fty.kind() {
            ty::FnDef(did, args) => {
                o.push(("fn", s(self.path(*did))));
                o.push(("fnargs", V::Arr(args.iter().map(|a| s(format!("{}", a))).collect())));
                if let Some(tr) = tcx.trait_of_assoc(*did) {
                    o.push(("trait", s(self.path(tr))));
                }
                if let Ok(Some(inst)) = ty::Instance::try_resolve(tcx, tenv, *did, args) {
                    let rd = inst.def_id();
                    if rd != *did {
                        o.push(("res", s(self.path(rd))));
                    }
                    o.push(("reskind", s(match inst.def {
                        ty::InstanceKind::Item(_) => "item",
                        ty::InstanceKind::Virtual(..) => "virtual",
                        ty::InstanceKind::Intrinsic(_) => "intrinsic",
                        ty::InstanceKind::ClosureOnceShim { .. } => "closure_once",
                        ty::InstanceKind::FnPtrShim(..) => "fnptr_shim",
                        ty::InstanceKind::CloneShim(..) => "clone_shim",
                        ty::InstanceKind::DropGlue(..) => "drop_glue",
                        _ => "shim",
                    })));
                    if rd.is_local() || true {
                        o.push(("rescrate", s(tcx.crate_name(rd.krate).to_string())));
                    }
                } else {
                    o.push(("reskind", s("unresolved")));
                }
            }
            _ => {
                o.push(("indirect", self.operand(body, func, tenv)));
                o.push(("fty", s(self.ty(fty))));
            }
        }
        o
    }

    fn body(&self, did: DefId, body: &mir::Body<'tcx>) -> V {
        let tcx = self.tcx;
        let tenv = ty::TypingEnv::post_analysis(tcx, did);
        let mut locals = vec![];
        for d in body.local_decls.iter() {
            let t = self.reveal(tenv, d.ty);
            locals.push(s(self.ty(t)));
        }
        let mut names: Vec<(String, V)> = vec![];
        for vdi in &body.var_debug_info {
            if let mir::VarDebugInfoContents::Place(p) = &vdi.value {
                if p.projection.is_empty() {
                    names.push((p.local.as_usize().to_string(), s(vdi.name.to_string())));
                } else {
                    names.push((format!("{}", vdi.name), self.place(body, p)));
                }
            }
        }
        let mut blocks = vec![];
        for (_bb, data) in body.basic_blocks.iter_enumerated() {
            let mut stmts = vec![];
            for st in &data.statements {
                match &st.kind {
                    mir::StatementKind::Assign(b) => {
                        let (p, rv) = &**b;
                        stmts.push(V::Arr(vec![
                            s("="),
                            self.place(body, p),
                            self.rvalue(body, rv, tenv),
                            V::Int(self.line(st.source_info.span)),
                        ]));
                    }
                    mir::StatementKind::SetDiscriminant { place, variant_index } => {
                        stmts.push(V::Arr(vec![
                            s("setdiscr"),
                            self.place(body, place),
                            V::Int(variant_index.as_usize() as i128),
                        ]));
                    }
                    mir::StatementKind::Intrinsic(i) => {
                        stmts.push(V::Arr(vec![s("intrinsic"), s(format!("{:?}", i))]));
                    }
                    _ => {}
                }
            }
            let term = data.terminator();
            let sp = term.source_info.span;
            let line = V::Int(self.line(sp));
            let t = match &term.kind {
                mir::TerminatorKind::Goto { target } => V::Arr(vec![s("goto"), V::Int(target.as_usize() as i128)]),
                mir::TerminatorKind::SwitchInt { discr, targets } => {
                    let dty = discr.ty(&body.local_decls, tcx);
                    let mut arms = vec![];
                    for (val, bb) in targets.iter() {
                        arms.push(V::Arr(vec![
                            if val > i128::MAX as u128 { s(val.to_string()) } else { V::Int(val as i128) },
                            V::Int(bb.as_usize() as i128),
                        ]));
                    }
                    V::Arr(vec![
                        s("switch"),
                        self.operand(body, discr, tenv),
                        V::Arr(arms),
                        V::Int(targets.otherwise().as_usize() as i128),
                        s(self.ty(dty)),
                        line,
                    ])
                }
                mir::TerminatorKind::Return => V::Arr(vec![s("ret")]),
                mir::TerminatorKind::Unreachable => V::Arr(vec![s("unreachable")]),
                mir::TerminatorKind::UnwindResume => V::Arr(vec![s("resume")]),
                mir::TerminatorKind::UnwindTerminate(_) => V::Arr(vec![s("terminate")]),
                mir::TerminatorKind::Drop { place, target, unwind, .. } => {
                    let uw = match unwind {
                        mir::UnwindAction::Cleanup(bb) => V::Int(bb.as_usize() as i128),
                        _ => V::Null,
                    };
                    V::Arr(vec![s("drop"), self.place(body, place), V::Int(target.as_usize() as i128), uw])
                }
                mir::TerminatorKind::Call { func, args, destination, target, unwind, .. } => {
                    let mut o = self.callee(func, body, tenv);
                    o.push(("args", V::Arr(args.iter().map(|a| self.operand(body, &a.node, tenv)).collect())));
                    o.push(("dest", self.place(body, destination)));
                    o.push(("target", target.map(|t| V::Int(t.as_usize() as i128)).unwrap_or(V::Null)));
                    if let mir::UnwindAction::Cleanup(bb) = unwind {
                        o.push(("unwind", V::Int(bb.as_usize() as i128)));
                    }
                    o.push(("line", line));
                    let m = self.macros(sp);
                    if !matches!(m, V::Null) {
                        o.push(("mac", m));
                    }
                    V::Arr(vec![s("call"), obj(o)])
                }
                mir::TerminatorKind::TailCall { func, args, .. } => {
                    let mut o = self.callee(func, body, tenv);
                    o.push(("args", V::Arr(args.iter().map(|a| self.operand(body, &a.node, tenv)).collect())));
                    o.push(("line", line));
                    V::Arr(vec![s("tailcall"), obj(o)])
                }
                mir::TerminatorKind::Assert { cond, expected, msg, target, .. } => {
                    let kind = match &**msg {
                        mir::AssertKind::BoundsCheck { .. } => "bounds".to_string(),
                        mir::AssertKind::Overflow(op, ..) => format!("overflow:{:?}", op),
                        mir::AssertKind::OverflowNeg(_) => "overflow:Neg".to_string(),
                        mir::AssertKind::DivisionByZero(_) => "div_zero".to_string(),
                        mir::AssertKind::RemainderByZero(_) => "rem_zero".to_string(),
                        other => format!("{:?}", other).chars().take(40).collect(),
                    };
                    let m = self.macros(sp);
                    V::Arr(vec![
                        s("assert"),
                        self.operand(body, cond, tenv),
                        V::Bool(*expected),
                        s(kind),
                        V::Int(target.as_usize() as i128),
                        line,
                        m,
                    ])
                }
                mir::TerminatorKind::FalseEdge { real_target, .. } => {
                    V::Arr(vec![s("goto"), V::Int(real_target.as_usize() as i128)])
                }
                mir::TerminatorKind::FalseUnwind { real_target, .. } => {
                    V::Arr(vec![s("goto"), V::Int(real_target.as_usize() as i128)])
                }
                other => V::Arr(vec![s("other"), s(format!("{:?}", other).chars().take(80).collect::<String>())]),
            };
            let mut b = vec![("s", V::Arr(stmts)), ("t", t)];
            if data.is_cleanup {
                b.push(("cleanup", V::Bool(true)));
            }
            blocks.push(obj(b));
        }
        obj(vec![
            ("argc", V::Int(body.arg_count as i128)),
            ("locals", V::Arr(locals)),
            ("names", V::Obj(names)),
            ("blocks", V::Arr(blocks)),
        ])
    }

    fn impl_info(&self, did: DefId) -> Option<V> {
        let tcx = self.tcx;
        let mut cur = did;
        // closures: climb to the enclosing fn first
        loop {
            match tcx.def_kind(cur) {
                DefKind::Closure | DefKind::InlineConst | DefKind::AnonConst | DefKind::SyntheticCoroutineBody => {
                    cur = tcx.parent(cur);
                }
                _ => break,
            }
        }
        let parent = tcx.opt_parent(cur)?;
        if !matches!(tcx.def_kind(parent), DefKind::Impl { .. }) {
            return None;
        }
        let self_ty = tcx.type_of(parent).instantiate_identity().skip_norm_wip();
        let mut o = vec![("self", s(self.ty(self_ty))), ("impl", s(self.path(parent)))];
        if let Some(tr) = tcx.impl_opt_trait_ref(parent) {
            let tr = tr.instantiate_identity().skip_norm_wip();
            o.push(("trait", s(self.path(tr.def_id))));
            o.push(("traitref", s(format!("{}", tr))));
        }
        if tcx.is_automatically_derived(parent) {
            o.push(("derived", V::Bool(true)));
        }
        Some(obj(o))
    }
}

struct Cb;

impl rustc_driver::Callbacks for Cb {
    fn after_analysis<'tcx>(
        &mut self,
        _c: &rustc_interface::interface::Compiler,
        tcx: TyCtxt<'tcx>,
    ) -> rustc_driver::Compilation {
        let out_dir = match std::env::var("MIRFACTS_OUT") {
            Ok(d) => d,
            Err(_) => return rustc_driver::Compilation::Continue,
        };
        let crate_name = tcx.crate_name(rustc_hir::def_id::LOCAL_CRATE).to_string();
        if crate_name == "build_script_build" {
            return rustc_driver::Compilation::Continue;
        }
        let lite: Vec<String> = std::env::var("MIRFACTS_LITE")
            .unwrap_or_default()
            .split(',')
            .filter(|x| !x.is_empty())
            .map(|x| x.to_string())
            .collect();
        let cx = Cx { tcx, full_mir: !lite.contains(&crate_name) };
        let text = with_resolve_crate_name!(with_no_visible_paths!(with_no_trimmed_paths!(dump(&cx, &crate_name))));
        let is_test = std::env::args().any(|a| a == "--test");
        let suffix = if is_test { "-test" } else { "" };
        let kind = tcx.crate_types().iter().map(|t| format!("{:?}", t)).collect::<Vec<_>>().join("_");
        let file = format!("{}/{}{}-{}.json", out_dir, crate_name, suffix, kind);
        std::fs::write(&file, text).expect("write facts");
        rustc_driver::Compilation::Continue
    }
}

fn dump<'tcx>(cx: &Cx<'tcx>, crate_name: &str) -> String {
    let tcx = cx.tcx;
    let mut fns = vec![];
    for ldid in tcx.mir_keys(()).iter() {
        let did = ldid.to_def_id();
        let kind = tcx.def_kind(did);
        let (kname, ctfe) = match kind {
            DefKind::Fn => ("fn", false),
            DefKind::AssocFn => ("assoc_fn", false),
            DefKind::Closure => ("closure", false),
            DefKind::Const { .. } => ("const", true),
            DefKind::AssocConst { .. } => ("assoc_const", true),
            DefKind::Static { .. } => ("static", true),
            DefKind::AnonConst => ("anon_const", true),
            DefKind::InlineConst => ("inline_const", true),
            _ => continue,
        };
        if kind == DefKind::Closure && tcx.is_coroutine(did) {
            // async blocks etc: skip (none in the analysed crates' rule targets)
            continue;
        }
        let mut o: Vec<(&str, V)> = vec![("path", s(cx.path(did))), ("kind", s(kname))];
        let sp = tcx.def_span(did);
        o.push(("span", cx.span(sp)));
        let m = cx.macros(sp);
        if !matches!(m, V::Null) {
            o.push(("mac", m));
        }
        if let Some(i) = cx.impl_info(did) {
            o.push(("impl", i));
        }
        if matches!(kind, DefKind::Fn | DefKind::AssocFn) {
            o.push(("vis", s(format!("{:?}", tcx.visibility(did)))));
            if tcx.is_const_fn(did) {
                o.push(("const_fn", V::Bool(true)));
            }
            let sig = tcx.fn_sig(did).instantiate_identity().skip_norm_wip();
            o.push(("sig", s(format!("{}", sig))));
            let g = tcx.generics_of(did);
            o.push(("generics", V::Int(g.count() as i128)));
        }
        if kind == DefKind::Closure {
            let names = tcx.closure_saved_names_of_captured_variables(did);
            o.push(("upvars", V::Arr(names.iter().map(|n| s(n.to_string())).collect())));
        }
        if cx.full_mir {
            let body: &mir::Body<'tcx> = if ctfe { tcx.mir_for_ctfe(*ldid) } else { tcx.optimized_mir(did) };
            o.push(("body", cx.body(did, body)));
            let proms = tcx.promoted_mir(did);
            if !proms.is_empty() {
                o.push(("promoted", V::Arr(proms.iter().map(|b| cx.body(did, b)).collect())));
            }
        }
        fns.push(obj(o));
    }

    // values of const / static items without generics
    let mut values: Vec<(String, V)> = vec![];
    let want: Vec<String> = std::env::var("MIRFACTS_VALUES")
        .unwrap_or_default()
        .split(',')
        .filter(|x| !x.is_empty())
        .map(|x| x.to_string())
        .collect();
    let mut adts = vec![];
    let mut aliases = vec![];
    let mut statics = vec![];
    let mut impls = vec![];
    for ldid in tcx.hir_crate_items(()).definitions() {
        let did = ldid.to_def_id();
        let kind = tcx.def_kind(did);
        match kind {
            DefKind::Const { .. } | DefKind::AssocConst { .. } | DefKind::Static { .. } => {
                let p = cx.path(did);
                let is_static = matches!(kind, DefKind::Static { .. });
                let t = tcx.type_of(did).instantiate_identity().skip_norm_wip();
                if is_static {
                    let tenv = ty::TypingEnv::fully_monomorphized();
                    let freeze = t.is_freeze(tcx, tenv);
                    statics.push(obj(vec![
                        ("path", s(p.clone())),
                        ("ty", s(cx.ty(t))),
                        ("freeze", V::Bool(freeze)),
                        ("mutable", V::Bool(tcx.is_mutable_static(did))),
                        ("span", cx.span(tcx.def_span(did))),
                        ("mac", cx.macros(tcx.def_span(did))),
                    ]));
                }
                if !(want.is_empty() || want.iter().any(|w| p.contains(w.as_str()))) {
                    continue;
                }
                if tcx.generics_of(did).count() != 0 || t.has_non_region_param() {
                    continue;
                }
                // an assoc const in a trait definition without default has no body
                if matches!(kind, DefKind::AssocConst { .. }) && !tcx.mir_keys(()).contains(&ldid) {
                    continue;
                }
                let val = if is_static {
                    match tcx.eval_static_initializer(did) {
                        Ok(alloc) => {
                            let id = tcx.reserve_and_set_memory_alloc(alloc);
                            Some(ConstValue::Indirect { alloc_id: id, offset: Size::ZERO })
                        }
                        Err(_) => None,
                    }
                } else {
                    tcx.const_eval_poly(did).ok()
                };
                if let Some(val) = val {
                    // scalars of static: read from memory
                    let v = match (val, t.kind()) {
                        (ConstValue::Indirect { alloc_id, offset }, ty::Bool | ty::Char | ty::Int(_) | ty::Uint(_)) => {
                            cx.value_at(alloc_id, offset.bytes(), t, 0)
                        }
                        _ => cx.value(val, t, 0),
                    };
                    values.push((p, obj(vec![("ty", s(cx.ty(t))), ("v", v), ("span", cx.span(tcx.def_span(did)))])));
                }
            }
            DefKind::Struct | DefKind::Enum | DefKind::Union => {
                let def = tcx.adt_def(did);
                let mut variants = vec![];
                for (vidx, v) in def.variants().iter_enumerated() {
                    let fields: Vec<V> = v
                        .fields
                        .iter()
                        .map(|f| {
                            let fty = tcx.type_of(f.did).instantiate_identity().skip_norm_wip();
                            obj(vec![
                                ("name", s(f.name.to_string())),
                                ("ty", s(cx.ty(fty))),
                                ("vis", s(format!("{:?}", f.vis))),
                            ])
                        })
                        .collect();
                    let discr = if def.is_enum() {
                        let d = def.discriminant_for_variant(tcx, vidx);
                        V::Int(d.val as i128)
                    } else {
                        V::Null
                    };
                    variants.push(obj(vec![
                        ("name", s(v.name.to_string())),
                        ("discr", discr),
                        ("fields", V::Arr(fields)),
                        ("ctor", s(format!("{:?}", v.ctor_kind()))),
                    ]));
                }
                adts.push(obj(vec![
                    ("path", s(cx.path(did))),
                    ("kind", s(format!("{:?}", kind))),
                    ("non_exhaustive", V::Bool(def.is_variant_list_non_exhaustive())),
                    ("variants", V::Arr(variants)),
                    ("span", cx.span(tcx.def_span(did))),
                    ("mac", cx.macros(tcx.def_span(did))),
                ]));
            }
            DefKind::TyAlias => {
                let t = tcx.type_of(did).instantiate_identity().skip_norm_wip();
                aliases.push(obj(vec![("path", s(cx.path(did))), ("ty", s(cx.ty(t)))]));
            }
            DefKind::Impl { .. } => {
                let self_ty = tcx.type_of(did).instantiate_identity().skip_norm_wip();
                let mut o = vec![("self", s(cx.ty(self_ty))), ("path", s(cx.path(did)))];
                if let Some(tr) = tcx.impl_opt_trait_ref(did) {
                    let tr = tr.instantiate_identity().skip_norm_wip();
                    o.push(("trait", s(cx.path(tr.def_id))));
                    o.push(("traitref", s(format!("{}", tr))));
                }
                if tcx.is_automatically_derived(did) {
                    o.push(("derived", V::Bool(true)));
                }
                let items: Vec<V> = tcx
                    .associated_items(did)
                    .in_definition_order()
                    .map(|it| V::Arr(vec![s(it.name().to_string()), s(cx.path(it.def_id))]))
                    .collect();
                o.push(("items", V::Arr(items)));
                o.push(("span", cx.span(tcx.def_span(did))));
                o.push(("mac", cx.macros(tcx.def_span(did))));
                impls.push(obj(o));
            }
            _ => {}
        }
    }

    let root = obj(vec![
        ("crate", s(crate_name)),
        ("full_mir", V::Bool(cx.full_mir)),
        ("fns", V::Arr(fns)),
        ("values", V::Obj(values)),
        ("adts", V::Arr(adts)),
        ("aliases", V::Arr(aliases)),
        ("statics", V::Arr(statics)),
        ("impls", V::Arr(impls)),
    ]);
    let mut out = String::new();
    root.write(&mut out);
    out
}

fn main() {
    let mut args: Vec<String> = std::env::args().collect();
    // RUSTC_WORKSPACE_WRAPPER: argv[1] is the path of the real rustc
    if args.len() > 1 && (args[1].ends_with("rustc") || args[1].contains("/rustc")) {
        args.remove(1);
    }
    rustc_driver::run_compiler(&args, &mut Cb);
}
