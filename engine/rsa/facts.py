"""Fact extraction (runs the mirfacts driver over /repo) and loading."""
import fcntl, hashlib, json, os, shutil, subprocess, sys, time

VERIF = os.path.dirname(os.path.dirname(os.path.dirname(os.path.abspath(__file__))))
REPO = os.environ.get("VERIF_REPO", "/repo")
CACHE = os.path.join(VERIF, ".cache")
DRIVER_DIR = os.path.join(VERIF, "engine", "mirfacts")
DRIVER = os.path.join(DRIVER_DIR, "target", "release", "mirfacts")

# crates every configuration must produce (fail closed if the wrapper was skipped)
EXPECTED = {
    "A": ["ruma_common", "ruma_events", "ruma_state_res", "ruma_signatures", "ruma_html",
          "ruma_identifiers_validation", "ruma_federation_api", "ruma_appservice_api",
          "ruma_identity_service_api", "ruma_push_gateway_api"],
    "B": ["ruma_common", "ruma_events", "ruma_state_res", "ruma_signatures", "ruma_html",
          "ruma_identifiers_validation", "ruma_federation_api", "ruma_appservice_api",
          "ruma_identity_service_api", "ruma_push_gateway_api", "ruma_client_api"],
}
# function-count floors counted on the pinned tree (a silently skipped driver must fail)
FLOORS = {"ruma_common": 2500, "ruma_events": 5000, "ruma_state_res": 300, "ruma_signatures": 80,
          "ruma_html": 100, "ruma_identifiers_validation": 30, "ruma_federation_api": 600}

CARGO_ARGS = {
    "A": ["--workspace", "--exclude", "xtask"],
    "B": ["--workspace", "--exclude", "xtask", "--features",
          "ruma-client-api/client,ruma-client-api/server,ruma-federation-api/client,ruma-federation-api/server,"
          "ruma-appservice-api/client,ruma-appservice-api/server,ruma-identity-service-api/client,"
          "ruma-identity-service-api/server,ruma-push-gateway-api/client,ruma-push-gateway-api/server,"
          "ruma-html/matrix,ruma-signatures/ring-compat,ruma-common/rand"],
}


def log(*a):
    print(*a, file=sys.stderr, flush=True)


def tree_hash():
    h = hashlib.sha256()
    n = 0
    for root, dirs, files in os.walk(REPO):
        dirs[:] = sorted(d for d in dirs if d not in ("target", ".git", "node_modules"))
        for f in sorted(files):
            if f.endswith(".rs") or f in ("Cargo.toml", "Cargo.lock", "rust-toolchain.toml", "config.toml"):
                p = os.path.join(root, f)
                try:
                    with open(p, "rb") as fh:
                        data = fh.read()
                except OSError:
                    continue
                h.update(os.path.relpath(p, REPO).encode())
                h.update(b"\0")
                h.update(hashlib.sha256(data).digest())
                n += 1
    # the build configurations (cargo arguments / feature sets) are part of the key
    h.update(json.dumps(CARGO_ARGS, sort_keys=True).encode())
    # the driver itself is part of the key
    for f in ("src/main.rs",):
        with open(os.path.join(DRIVER_DIR, f), "rb") as fh:
            h.update(hashlib.sha256(fh.read()).digest())
    return h.hexdigest()[:20], n


def sysroot():
    return subprocess.check_output(["rustc", "+nightly", "--print", "sysroot"], text=True).strip()


def build_driver():
    env = dict(os.environ, CARGO_NET_OFFLINE="true")
    env.pop("RUSTFLAGS", None)
    r = subprocess.run(["cargo", "build", "--release", "--offline"], cwd=DRIVER_DIR, env=env,
                       stdout=subprocess.PIPE, stderr=subprocess.STDOUT, text=True)
    if r.returncode != 0 or not os.path.exists(DRIVER):
        log(r.stdout)
        raise SystemExit("mirfacts driver failed to build")


def ensure_facts(config="A"):
    """Return the directory holding facts for /repo's current tree in the given configuration."""
    os.makedirs(CACHE, exist_ok=True)
    key, nfiles = tree_hash()
    out = os.path.join(CACHE, f"facts-{config}-{key}")
    if os.path.exists(os.path.join(out, "OK")):
        try:
            os.utime(out, None)
        except OSError:
            pass
        return out
    lock = open(os.path.join(CACHE, f"lock-{config}"), "w")
    fcntl.flock(lock, fcntl.LOCK_EX)
    try:
        if os.path.exists(os.path.join(out, "OK")):
            return out
        if not os.path.exists(DRIVER) or os.path.getmtime(DRIVER) < os.path.getmtime(
                os.path.join(DRIVER_DIR, "src", "main.rs")):
            build_driver()
        t0 = time.time()
        tmp = out + ".tmp"
        shutil.rmtree(tmp, ignore_errors=True)
        os.makedirs(tmp)
        target = os.path.join(CACHE, f"target-{config}" + ("" if REPO == "/repo" else "-alt"))
        fp = os.path.join(target, "debug", ".fingerprint")
        if os.path.isdir(fp):
            for d in os.listdir(fp):
                if d.startswith("ruma"):
                    shutil.rmtree(os.path.join(fp, d), ignore_errors=True)
        env = dict(os.environ)
        env.update({
            "LD_LIBRARY_PATH": sysroot() + "/lib",
            "MIRFACTS_OUT": tmp,
            "MIRFACTS_LITE": "ruma_macros",
            "RUSTFLAGS": "-Zmir-opt-level=0 -Awarnings",
            "RUSTC_WORKSPACE_WRAPPER": DRIVER,
            "CARGO_TARGET_DIR": target,
            "CARGO_NET_OFFLINE": "true",
        })
        env.pop("RUSTUP_TOOLCHAIN", None)
        cmd = ["cargo", "+nightly", "check", "--offline"] + CARGO_ARGS[config]
        r = subprocess.run(cmd, cwd=REPO, env=env, stdout=subprocess.PIPE, stderr=subprocess.STDOUT, text=True)
        if r.returncode != 0:
            log(r.stdout[-6000:])
            raise SystemExit(f"fact extraction failed: cargo check exited {r.returncode} (does /repo compile?)")
        have = {f.split("-")[0] for f in os.listdir(tmp)}
        missing = [c for c in EXPECTED[config] if c not in have]
        if missing:
            log(r.stdout[-3000:])
            raise SystemExit(f"fact extraction incomplete: no facts for {missing}")
        with open(os.path.join(tmp, "OK"), "w") as f:
            json.dump({"key": key, "files_hashed": nfiles, "wall_s": round(time.time() - t0, 1), "config": config}, f)
        shutil.rmtree(out, ignore_errors=True)
        os.rename(tmp, out)
        # keep the cache small: drop older fact dirs of this config
        olds = sorted((d for d in os.listdir(CACHE) if d.startswith(f"facts-{config}-") and not d.endswith(".tmp")),
                      key=lambda d: os.path.getmtime(os.path.join(CACHE, d)))
        for d in olds[:-8]:
            shutil.rmtree(os.path.join(CACHE, d), ignore_errors=True)
        log(f"[facts] config {config}: extracted in {time.time() - t0:.1f}s -> {out}")
        return out
    finally:
        fcntl.flock(lock, fcntl.LOCK_UN)
        lock.close()


class Crate:
    def __init__(self, name, data):
        self.name = name
        self.data = data
        self.fns = {}
        for f in data["fns"]:
            f["crate"] = name
            p = name + "::" + f["path"] if not f["path"].startswith("<") else f["path"]
            f["qpath"] = p
            # several closures / impls can print the same path; keep a list
            self.fns.setdefault(f["path"], []).append(f)
        self.values = data["values"]
        self.adts = {a["path"]: a for a in data["adts"]}
        self.aliases = {a["path"]: a["ty"] for a in data["aliases"]}
        self.impls = data["impls"]
        self.statics = data["statics"]

    def fn(self, path):
        """The unique function with this def-path (fail closed if absent or ambiguous)."""
        l = self.fns.get(path)
        if not l:
            raise MissingAnchor(f"{self.name}: function `{path}` not found")
        if len(l) > 1:
            raise MissingAnchor(f"{self.name}: function `{path}` is ambiguous ({len(l)} bodies)")
        return l[0]

    def find_fns(self, pred):
        return [f for l in self.fns.values() for f in l if pred(f)]

    def all_fns(self):
        for l in self.fns.values():
            yield from l

    def value(self, path):
        v = self.values.get(path)
        if v is None:
            raise MissingAnchor(f"{self.name}: constant `{path}` not found / not evaluated")
        return v["v"]


class MissingAnchor(Exception):
    pass


class Facts:
    def __init__(self, config="A"):
        self.config = config
        self.dir = ensure_facts(config)
        self._crates = {}
        self.files = {}
        for f in os.listdir(self.dir):
            if f.endswith(".json"):
                self.files[f.split("-")[0]] = os.path.join(self.dir, f)

    def crate(self, name):
        if name not in self._crates:
            if name not in self.files:
                raise MissingAnchor(f"no facts for crate {name}")
            with open(self.files[name]) as fh:
                data = json.load(fh)
            c = Crate(name, data)
            floor = FLOORS.get(name)
            n = sum(len(l) for l in c.fns.values())
            if floor and n < floor:
                raise MissingAnchor(f"crate {name}: only {n} bodies extracted, floor is {floor}")
            self._crates[name] = c
        return self._crates[name]

    def crates(self, names):
        return [self.crate(n) for n in names]


def ensure_fixture():
    """Facts of /verif/fixtures/poscontrol, extracted with the same driver (cached by the hash of the fixture and driver sources)."""
    import hashlib
    os.makedirs(CACHE, exist_ok=True)
    fdir = os.path.join(VERIF, "fixtures", "poscontrol")
    h = hashlib.sha256()
    for rel in ("src/lib.rs", "Cargo.toml"):
        with open(os.path.join(fdir, rel), "rb") as fh:
            h.update(fh.read())
    with open(os.path.join(DRIVER_DIR, "src", "main.rs"), "rb") as fh:
        h.update(fh.read())
    out = os.path.join(CACHE, "poscontrol-" + h.hexdigest()[:16])
    if os.path.exists(os.path.join(out, "OK")):
        return out
    lock = open(os.path.join(CACHE, "lock-poscontrol"), "w")
    fcntl.flock(lock, fcntl.LOCK_EX)
    try:
        if os.path.exists(os.path.join(out, "OK")):
            return out
        if not os.path.exists(DRIVER):
            build_driver()
        tmp = out + ".tmp"
        shutil.rmtree(tmp, ignore_errors=True)
        os.makedirs(tmp)
        target = os.path.join(CACHE, "target-poscontrol")
        shutil.rmtree(target, ignore_errors=True)
        env = dict(os.environ)
        env.update({"LD_LIBRARY_PATH": sysroot() + "/lib", "MIRFACTS_OUT": tmp, "RUSTFLAGS": "-Zmir-opt-level=0 -Awarnings",
                    "RUSTC_WORKSPACE_WRAPPER": DRIVER, "CARGO_TARGET_DIR": target, "CARGO_NET_OFFLINE": "true"})
        env.pop("RUSTUP_TOOLCHAIN", None)
        r = subprocess.run(["cargo", "+nightly", "check", "--offline"], cwd=fdir, env=env, stdout=subprocess.PIPE, stderr=subprocess.STDOUT, text=True)
        if r.returncode != 0 or not any(f.startswith("poscontrol") for f in os.listdir(tmp)):
            log(r.stdout[-3000:])
            raise SystemExit("positive-control fixture failed to build")
        with open(os.path.join(tmp, "OK"), "w") as f:
            f.write("ok")
        shutil.rmtree(out, ignore_errors=True)
        os.rename(tmp, out)
        shutil.rmtree(target, ignore_errors=True)
        return out
    finally:
        fcntl.flock(lock, fcntl.LOCK_UN)
        lock.close()


class FixtureFacts(Facts):
    def __init__(self):
        self.config = "poscontrol"
        self.dir = ensure_fixture()
        self._crates = {}
        self.files = {f.split("-")[0]: os.path.join(self.dir, f) for f in os.listdir(self.dir) if f.endswith(".json")}
