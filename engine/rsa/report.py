"""Instances, verdicts, evidence files, known findings."""
import json, os, sys, time

VERIF = os.path.dirname(os.path.dirname(os.path.dirname(os.path.abspath(__file__))))


class Inst:
    __slots__ = ("status", "rule", "key", "where", "msg", "nontrivial")

    def __init__(self, status, rule, key, where="", msg="", nontrivial=True):
        assert status in ("ok", "violation", "unrecognised", "missing")
        self.status, self.rule, self.key, self.where, self.msg, self.nontrivial = status, rule, key, where, msg, nontrivial

    def to_json(self):
        return {"status": self.status, "rule": self.rule, "key": self.key, "where": self.where, "msg": self.msg}


class Ctx:
    """One run of one property's rule set."""

    def __init__(self, prop, tier, facts_for):
        self.prop = prop
        self.tier = tier
        self._facts_for = facts_for
        self.insts = []
        self.rules = {}          # rule id -> one-line description of what it decides
        self.analysed = {}       # free-form counters
        self.floors = {}         # name -> (measured, floor)
        self.assumptions = []
        self.samples = []

    def facts(self, config="A"):
        return self._facts_for(config)

    def rule(self, rid, text):
        self.rules[rid] = text

    def ok(self, rule, key, where="", msg="", nontrivial=True):
        self.insts.append(Inst("ok", rule, key, where, msg, nontrivial))

    def violation(self, rule, key, where="", msg=""):
        self.insts.append(Inst("violation", rule, key, where, msg))

    def unrecognised(self, rule, key, where="", msg=""):
        self.insts.append(Inst("unrecognised", rule, key, where, msg))

    def missing(self, rule, key, msg=""):
        self.insts.append(Inst("missing", rule, key, "", msg))

    def check(self, cond, rule, key, where="", ok_msg="", bad_msg=""):
        if cond:
            self.ok(rule, key, where, ok_msg)
        else:
            self.violation(rule, key, where, bad_msg)
        return cond

    def count(self, name, n=1):
        self.analysed[name] = self.analysed.get(name, 0) + n

    def floor(self, name, measured, floor):
        """Fail closed when fewer instances matched than were counted by hand on the pinned tree."""
        self.floors[name] = (measured, floor)
        if measured < floor:
            self.missing("floor", f"floor:{name}", f"only {measured} instances of `{name}` matched, floor is {floor}")


def load_known(prop):
    p = os.path.join(VERIF, "known_findings.json")
    if not os.path.exists(p):
        return {}, []
    with open(p) as f:
        data = json.load(f)
    known = {}
    for e in data.get("findings", []):
        if e["property"] == prop:
            known[e["key"]] = e
    fixed = [e for e in data.get("fixed", []) if e["property"] == prop]
    return known, fixed


def finish(ctx, t0, level="other", explanation="", extra_cov=None):
    known, fixed = load_known(ctx.prop)
    bad = [i for i in ctx.insts if i.status != "ok"]
    unlisted, listed = [], []
    for i in bad:
        if i.status == "violation" and i.key in known:
            listed.append(i)
        else:
            unlisted.append(i)
    seen_known = set()
    for i in listed:
        if i.key in seen_known:
            continue
        seen_known.add(i.key)
        print(f"KNOWN-FINDING: property={ctx.prop} {known[i.key]['what']} [{i.key}]")
    stale = [k for k in known if k not in seen_known and known[k].get("tier", "quick") in ("quick", ctx.tier)]
    for k in stale:
        # a listed finding that is no longer reported: tell the reader, do not fail
        print(f"note: known finding `{k}` of {ctx.prop} was not reported by this run (repaired, or rule not in this tier)")
    ev_dir = os.environ.get("VERIF_EVIDENCE_DIR") or os.path.join(VERIF, "evidence")
    os.makedirs(ev_dir, exist_ok=True)
    oks = [i for i in ctx.insts if i.status == "ok"]
    distinct = len({(i.rule, i.key) for i in ctx.insts if i.nontrivial})
    samples = ctx.samples[:12] or [i.to_json() for i in oks[:8]]
    if not samples:
        samples = [i.to_json() for i in ctx.insts[:8]] or [{"note": "no instance evaluated"}]
    cov = {
        "explanation": explanation + " Rules: " + " | ".join(f"{k}: {v}" for k, v in ctx.rules.items()),
        "evaluations": max(1, len(ctx.insts)),
        "distinct_nontrivial": max(2, distinct) if distinct >= 2 else distinct,
        "rule": "one evaluation = one rule instance (rule id, keyed construct) decided on /repo's current MIR/const facts; "
                "non-trivial = the rule's premise applied to that construct; distinct by (rule, key)",
        "obligations": len(ctx.insts),
        "discharged": len(oks) + len(listed),
        "samples": samples,
        "analysed": ctx.analysed,
        "floors": {k: {"measured": v[0], "floor": v[1]} for k, v in ctx.floors.items()},
        "known_findings_reported": sorted(seen_known),
        "violations": [i.to_json() for i in unlisted][:50],
    }
    if extra_cov:
        cov.update(extra_cov)
    ev = {
        "property_id": ctx.prop,
        "tier": ctx.tier,
        "seed": int(os.environ.get("VERIF_SEED", "0") or 0),
        "level": level,
        "coverage": cov,
        "assumptions": ctx.assumptions,
        "wall_s": round(time.time() - t0, 2),
        "violations": len(unlisted),
    }
    with open(os.path.join(ev_dir, f"{ctx.prop}.json"), "w") as f:
        json.dump(ev, f, indent=1)
    by_rule = {}
    for i in ctx.insts:
        d = by_rule.setdefault(i.rule, {"ok": 0, "bad": 0})
        d["ok" if i.status == "ok" else "bad"] += 1
    print(f"{ctx.prop} [{ctx.tier}] instances={len(ctx.insts)} ok={len(oks)} known={len(listed)} "
          f"unlisted={len(unlisted)} wall={ev['wall_s']}s")
    for r, d in sorted(by_rule.items()):
        print(f"  rule {r}: ok={d['ok']} not-ok={d['bad']}  -- {ctx.rules.get(r, '')[:110]}")
    if unlisted:
        vp = os.path.join(ev_dir, f"{ctx.prop}.violations.json")
        with open(vp, "w") as f:
            json.dump([i.to_json() for i in unlisted], f, indent=1)
        shown = set()
        for i in unlisted:
            if i.key in shown or len(shown) >= 40:
                continue
            shown.add(i.key)
            print(f"  {i.status.upper()} rule={i.rule} key={i.key} at {i.where}: {i.msg}"[:700])
        print(f"VIOLATION property={ctx.prop} replay={vp}")
        return 1
    # a clean run leaves no replay file of an earlier failing run behind
    try:
        os.remove(os.path.join(ev_dir, f"{ctx.prop}.violations.json"))
    except OSError:
        pass
    return 0
