"""Scenario valuations for decision tables extracted by DEX: a scenario maps *observations* (text of opaque subjects) to values."""
import re
from . import dex as D

WRAPPER_POS = {"Ok", "Some"}
WRAPPER_NEG = {"Err", "None"}


class Scenario:
    """enums: [(regex, variant)], ints: [(regex, int)], bools: [(regex, bool)], eqs: [(regex on 'A==B', bool)],
    wrappers: [(regex, 'Ok'|'Err'|'Some'|'None')] (default: Ok / Some)."""

    def __init__(self, enums=(), ints=(), bools=(), eqs=(), wrappers=(), strict=True):
        self.enums = [(re.compile(r), v) for r, v in enums]
        self.ints = [(re.compile(r), v) for r, v in ints]
        self.bools = [(re.compile(r), v) for r, v in bools]
        self.eqs = [(re.compile(r), v) for r, v in eqs]
        self.wrappers = [(re.compile(r), v) for r, v in wrappers]
        self.unmatched = set()

    def _lookup(self, table, text):
        for rx, v in table:
            if rx.search(text):
                return v
        return None

    def num(self, v):
        if D.is_const(v) and isinstance(v[1], int) and not isinstance(v[1], bool):
            return v[1]
        if v is not None and v[0] == "adt" and v[1].endswith("option::Option"):
            # Option<int> order: None < Some(n)
            return -1 if v[2] == "None" else self.num(v[3][0][1])
        if v is not None and v[0] == "adt" and v[3] and len(v[3]) == 1:
            return self.num(v[3][0][1])  # newtype around an integer (js_int::Int)
        txt = D.show(v)
        got = self._lookup(self.ints, txt)
        if got is None:
            got = self._minmax(txt)
        return got

    def _minmax(self, txt):
        """Ord::min(X, Y) / Ord::max(X, Y) over terms the table knows (top-level comma split)."""
        m = re.match(r"^Ord::(min|max)\((.*)\)$", txt)
        if not m:
            return None
        inner, depth, cut = m.group(2), 0, None
        for i, ch in enumerate(inner):
            depth += ch in "([{"
            depth -= ch in ")]}"
            if ch == "," and depth == 0:
                cut = i
                break
        if cut is None:
            return None
        vals = []
        for part in (inner[:cut].strip(), inner[cut + 1:].strip()):
            x = self._lookup(self.ints, part)
            if x is None:
                x = self._minmax(part)
            if x is None and re.fullmatch(r"-?\d+", part):
                x = int(part)
            if x is None:
                return None
            vals.append(x)
        return min(vals) if m.group(1) == "min" else max(vals)

    def __call__(self, atom):
        k = atom[0]
        if k == "variant":
            subj = D.show(atom[1])
            var = atom[2]
            if var in WRAPPER_POS or var in WRAPPER_NEG:
                w = self._lookup(self.wrappers, subj)
                if w is not None:
                    return w == var
                return var in WRAPPER_POS
            e = self._lookup(self.enums, subj)
            if e is None:
                self.unmatched.add("variant:" + subj)
                return None
            return e == var
        if k == "bool":
            t = D.show(atom[1])
            b = self._lookup(self.bools, t)
            if b is None:
                self.unmatched.add("bool:" + t)
            return b
        if k == "cmp":
            a, b = self.num(atom[2]), self.num(atom[3])
            if a is None or b is None:
                self.unmatched.add("cmp:" + D.show_atom(atom))
                return None
            return a < b
        if k == "eq":
            a, b = self.num(atom[1]), self.num(atom[2])
            if a is not None and b is not None:
                return a == b
            t = D.show(atom[1]) + "==" + D.show(atom[2])
            r = self._lookup(self.eqs, t)
            if r is None:
                # equality of an opaque enum value with a constant string etc.
                e = self._lookup(self.enums, D.show(atom[1]))
                if e is not None and D.is_const(atom[2]):
                    return e == atom[2][1]
                self.unmatched.add("eq:" + t)
            return r
        if k == "int":
            a = self.num(atom[1])
            if a is None:
                self.unmatched.add("int:" + D.show(atom[1]))
                return None
            return a == atom[2]
        return None


def outcome(p):
    """allow / reject / delegate:<callee> / other"""
    if p.kind == "panic":
        return "panic"
    if p.kind != "ret":
        return p.kind
    r = p.ret
    if r is not None and r[0] == "adt" and r[1].endswith("Result"):
        return "allow" if r[2] == "Ok" else "reject"
    if D.is_sym(r):
        m = re.match(r"([\w:]+)\(", r[1])
        if m:
            return "delegate:" + m.group(1).rsplit("::", 1)[-1]
    return "other:" + D.show(r)[:40]


def decide(paths, scenario):
    """Set of outcomes of the paths consistent with the scenario (a singleton when the scenario determines every atom)."""
    sel = D.evaluate(paths, scenario)
    return {outcome(p) for p in sel}, sel
