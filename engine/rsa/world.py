"""Whole-workspace indices over several crates' facts: functions by def-path, ADT tables."""
from .facts import MissingAnchor


class World:
    def __init__(self, facts, crate_names):
        self.facts = facts
        self.crates = {n: facts.crate(n) for n in crate_names}
        self.fn_index = {}
        self.adts = {}
        self.adt_discr = {}
        self.ctors = {}
        self.values = {}
        for c in self.crates.values():
            for path, l in c.fns.items():
                self.fn_index.setdefault(path, []).extend(l)
            for path, a in c.adts.items():
                self.adts[path] = a
                if a["kind"] == "Enum":
                    self.adt_discr[path] = {v["discr"]: v["name"] for v in a["variants"]}
                    for v in a["variants"]:
                        self.ctors[f"{path}::{v['name']}"] = (path, v["name"])
                elif a["kind"] == "Struct":
                    self.ctors[path] = (path, None)
            for path, v in c.values.items():
                self.values[path] = v

    def lookup(self, path):
        l = self.fn_index.get(path)
        if l and len(l) == 1:
            return l[0]
        return None

    def fn(self, path):
        l = self.fn_index.get(path)
        if not l:
            raise MissingAnchor(f"function `{path}` not found in {sorted(self.crates)}")
        if len(l) > 1:
            raise MissingAnchor(f"function `{path}` is ambiguous ({len(l)} bodies)")
        return l[0]

    def value(self, path):
        v = self.values.get(path)
        if v is None:
            raise MissingAnchor(f"constant `{path}` not found / not evaluated")
        return v["v"]

    def all_fns(self):
        for l in self.fn_index.values():
            yield from l

    def where(self, fn, line=None):
        sp = fn["span"]
        return f"{sp[0]}:{line if line else sp[1]}"

    def where_value(self, path):
        v = self.values.get(path)
        if v is None:
            return path
        return f"{v['span'][0]}:{v['span'][1]}"
