"""A3: inventory of panic / truncation / bounds sites in MIR bodies."""
import re
from . import mir as M

PANIC_CALLEES = [
    (re.compile(r"^core::option::Option::<T>::(unwrap|expect)$"), "unwrap"),
    (re.compile(r"^core::result::Result::<T, E>::(unwrap|expect|unwrap_err|expect_err)$"), "unwrap"),
    (re.compile(r"^core::panicking::(panic|panic_fmt|panic_display|panic_explicit|unreachable_display|panic_nounwind|panic_str_2015|assert_failed|assert_failed_inner|panic_const::.*)$"), "panic"),
    (re.compile(r"^core::option::(unwrap_failed|expect_failed)$"), "panic"),
    (re.compile(r"^core::result::unwrap_failed$"), "panic"),
    (re.compile(r"^std::rt::(begin_panic|panic_fmt)"), "panic"),
    (re.compile(r"^core::slice::index::<impl core::ops::index::Index(Mut)?<I> for \[T\]>::index(_mut)?$"), "index"),
    (re.compile(r"^core::str::traits::<impl core::ops::index::Index(Mut)?<I> for str>::index(_mut)?$"), "str_index"),
    (re.compile(r"^<alloc::vec::Vec<T, A> as core::ops::index::Index(Mut)?<I>>::index(_mut)?$"), "index"),
    (re.compile(r"^<alloc::string::String as core::ops::index::Index(Mut)?<.*>>::index(_mut)?$"), "str_index"),
    (re.compile(r"^alloc::collections::btree::map::.*Index.*::index$"), "map_index"),
    (re.compile(r"^<std::collections::hash::map::HashMap<K, V, S> as core::ops::index::Index<&Q>>::index$"), "map_index"),
    (re.compile(r"^<indexmap::.* as core::ops::index::Index.*>::index(_mut)?$"), "map_index"),
    (re.compile(r"^alloc::vec::Vec::<T, A>::(remove|insert|swap_remove|split_off|drain|truncate_front)$"), "vec_op"),
    (re.compile(r"^alloc::string::String::(remove|insert|insert_str|split_off|drain|replace_range)$"), "string_op"),
    (re.compile(r"^core::str::<impl str>::(split_at|split_at_mut)$"), "str_split_at"),
    (re.compile(r"^core::slice::<impl \[T\]>::(split_at|split_at_mut|copy_from_slice|clone_from_slice|swap|chunks|chunks_exact|windows|rotate_left|rotate_right)$"), "slice_op"),
    (re.compile(r"^indexmap::(set::IndexSet|map::IndexMap)::<.*>::(move_index|swap_indices|shift_insert|insert_before|split_off)$"), "index_op"),
    (re.compile(r"^core::cell::RefCell::<T>::(borrow|borrow_mut)$"), "refcell"),
    (re.compile(r"^core::num::<impl .*>::(pow|div_euclid|rem_euclid|abs|ilog.*)$"), "arith_fn"),
    (re.compile(r"^core::time::Duration::(from_secs_f64|from_secs_f32|new)$"), "duration"),
    (re.compile(r"^<core::time::Duration as core::ops::arith::(Add|Sub|Mul).*>::(add|sub|mul)$"), "duration"),
    (re.compile(r"^std::time::.*(Add|Sub).*::(add|sub)$"), "time_arith"),
    # the `time` crate: date-time arithmetic panics when the result leaves the representable range (year 9999 without `large-dates`)
    (re.compile(r"^<time::.* as core::ops::arith::(Add|Sub|AddAssign|SubAssign|Mul|Div)<.*>>::(add|sub|add_assign|sub_assign|mul|div)$"), "time_arith"),
    (re.compile(r"^alloc::sync::Arc::<.*>::(get_mut_unchecked)$"), "unsafe"),
    (re.compile(r"^core::char::(from_digit|from_u32_unchecked)$"), "char"),
    (re.compile(r"^core::iter::traits::iterator::Iterator::step_by$"), "step_by"),
]
WIDTH = {"u8": 8, "i8": 8, "u16": 16, "i16": 16, "u32": 32, "i32": 32, "u64": 64, "i64": 64, "usize": 64, "isize": 64, "u128": 128, "i128": 128, "char": 32, "bool": 1}


def classify_call(name):
    for rx, kind in PANIC_CALLEES:
        if rx.match(name):
            return kind
    return None


def sites(fn):
    """Yield dict(kind, detail, block, line, mac, body_idx) for each potential panic / truncation site of fn."""
    for bidx, body in enumerate(M.all_bodies(fn)):
        for bi, b in enumerate(body["blocks"]):
            if b.get("cleanup"):
                continue
            t = b["t"]
            if t[0] in ("call", "tailcall"):
                c = t[1]
                name = M.callee_name(c)
                k = classify_call(name) or (classify_call(c.get("fn", "")) if c.get("fn") else None)
                if k:
                    yield dict(kind=k, detail=name.rsplit("::", 1)[-1], callee=name, block=bi, line=c["line"], mac=c.get("mac"), body=bidx, call=c)
            elif t[0] == "assert":
                kind = t[3]
                yield dict(kind="assert:" + kind.split(":")[0], detail=kind, block=bi, line=t[5], mac=t[6] if len(t) > 6 else None, body=bidx, cond=t[1], expected=t[2])
            for st in b["s"]:
                if st[0] == "=" and st[2][0] == "cast" and st[2][1] == "IntToInt":
                    frm, to = st[2][3], st[2][4]
                    if frm in WIDTH and to in WIDTH and (WIDTH[to] < WIDTH[frm] or (WIDTH[to] == WIDTH[frm] and frm[0] != to[0] and False)):
                        yield dict(kind="narrow_cast", detail=f"{frm}->{to}", block=bi, line=st[3], mac=None, body=bidx, stmt=st)
                elif st[0] == "=" and st[2][0] == "cast" and st[2][1] == "FloatToInt":
                    yield dict(kind="float_cast", detail=f"{st[2][3]}->{st[2][4]}", block=bi, line=st[3], mac=None, body=bidx, stmt=st)
