"""Helpers over the JSON MIR emitted by mirfacts: accessors, pretty printer, CFG, dominators, loops."""


def pl_local(p):
    return p if isinstance(p, int) else p["l"]


def pl_proj(p):
    return [] if isinstance(p, int) else p["p"]


def fmt_place(p):
    if isinstance(p, int):
        return f"_{p}"
    s = f"_{p['l']}"
    for e in p["p"]:
        if e == "*":
            s = f"(*{s})"
        elif isinstance(e, list) and e[0] == "f":
            s += f".{e[2]}"
        elif isinstance(e, list) and e[0] == "v":
            s = f"({s} as {e[1]})"
        elif isinstance(e, list) and e[0] == "i":
            s += f"[_{e[1]}]"
        else:
            s += f".{e}"
    return s


def fmt_op(o):
    k = o.get("k")
    if k in ("copy", "move"):
        return ("move " if k == "move" else "") + fmt_place(o["pl"])
    if k == "const":
        if "fn" in o:
            return f"fn {o['fn']}"
        if "promoted" in o:
            return f"promoted[{o['promoted']}]"
        if "static" in o:
            return f"static {o['static']}"
        if "v" in o:
            import json
            d = f" ({o['def']})" if "def" in o else ""
            return "const " + json.dumps(o["v"])[:80] + d
        return "const " + o.get("p", "?")
    return str(o)


def fmt_rv(rv):
    k = rv[0]
    if k == "use":
        return fmt_op(rv[1])
    if k == "ref":
        return f"&{'mut ' if rv[1] == 'mut' else ''}{fmt_place(rv[2])}"
    if k == "bin":
        return f"{rv[1]}({fmt_op(rv[2])}, {fmt_op(rv[3])})"
    if k == "un":
        return f"{rv[1]}({fmt_op(rv[2])})"
    if k == "cast":
        return f"{fmt_op(rv[2])} as {rv[4]} ({rv[1]} from {rv[3]})"
    if k == "discr":
        return f"discriminant({fmt_place(rv[1])})"
    if k == "agg":
        a = rv[1]
        name = a.get("adt", a["k"]) + ("::" + a["variant"] if "variant" in a else "") if a["k"] == "adt" else a.get("def", a["k"])
        return f"{name}({', '.join(fmt_op(o) for o in rv[2])})"
    if k == "rawptr":
        return f"&raw {fmt_place(rv[2])}"
    return str(rv)


def fmt_term(t):
    k = t[0]
    if k == "goto":
        return f"goto bb{t[1]}"
    if k == "switch":
        arms = ", ".join(f"{v}: bb{b}" for v, b in t[2])
        return f"switchInt({fmt_op(t[1])}) -> [{arms}, otherwise: bb{t[3]}]  // line {t[5]}"
    if k == "call":
        c = t[1]
        name = c.get("res") or c.get("fn") or ("indirect " + fmt_op(c["indirect"]))
        ga = "<" + ", ".join(c.get("fnargs", [])) + ">" if c.get("fnargs") else ""
        return (f"{fmt_place(c['dest'])} = {name}{ga}({', '.join(fmt_op(a) for a in c['args'])}) -> "
                f"bb{c['target']}  // line {c['line']}" + (f" mac={c['mac']}" if c.get('mac') else ""))
    if k == "drop":
        return f"drop({fmt_place(t[1])}) -> bb{t[2]}"
    if k == "assert":
        return f"assert({fmt_op(t[1])} == {t[2]}, {t[3]}) -> bb{t[4]}  // line {t[5]}"
    return str(t)


def pretty(fn, body=None):
    body = body or fn["body"]
    out = [f"fn {fn['path']}  [{fn['span'][0]}:{fn['span'][1]}]  argc={body['argc']}"]
    for i, t in enumerate(body["locals"]):
        nm = body["names"].get(str(i))
        out.append(f"  let _{i}: {t}" + (f"  // {nm}" if nm else ""))
    for i, b in enumerate(body["blocks"]):
        out.append(f"  bb{i}{' (cleanup)' if b.get('cleanup') else ''}:")
        for st in b["s"]:
            if st[0] == "=":
                out.append(f"    {fmt_place(st[1])} = {fmt_rv(st[2])}  // line {st[3]}")
            else:
                out.append(f"    {st}")
        out.append(f"    {fmt_term(b['t'])}")
    return "\n".join(out)


# ------------------------------------------------------------------------------------------------
# CFG
# ------------------------------------------------------------------------------------------------
def const_locals(body):
    """locals assigned exactly once, from a bool/int constant"""
    cnt, val = {}, {}
    for b in body["blocks"]:
        for st in b["s"]:
            if st[0] == "=" and isinstance(st[1], int):
                cnt[st[1]] = cnt.get(st[1], 0) + 1
                rv = st[2]
                if rv[0] == "use" and rv[1].get("k") == "const" and isinstance(rv[1].get("v"), (bool, int)):
                    val[st[1]] = int(rv[1]["v"])
        t = b["t"]
        if t[0] == "call" and isinstance(t[1]["dest"], int):
            cnt[t[1]["dest"]] = cnt.get(t[1]["dest"], 0) + 1
    return {l: v for l, v in val.items() if cnt.get(l) == 1}


def successors(block, unwind=False, consts=None):
    t = block["t"]
    k = t[0]
    if k == "switch" and consts and t[1].get("k") in ("copy", "move") and isinstance(t[1]["pl"], int) and t[1]["pl"] in consts:
        x = consts[t[1]["pl"]]
        for v, b in t[2]:
            if v == x:
                return [b]
        return [t[3]]
    if k == "goto":
        return [t[1]]
    if k == "switch":
        d = t[1]
        if d.get("k") == "const" and isinstance(d.get("v"), (bool, int)):
            # `if false { .. }` (e.g. tracing's type-hint block): only the matching edge is feasible
            x = int(d["v"])
            for v, b in t[2]:
                if v == x:
                    return [b]
            return [t[3]]
        return [b for _, b in t[2]] + [t[3]]
    if k == "call":
        c = t[1]
        s = [c["target"]] if c.get("target") is not None else []
        if unwind and c.get("unwind") is not None:
            s.append(c["unwind"])
        return s
    if k == "drop":
        s = [t[2]]
        if unwind and t[3] is not None:
            s.append(t[3])
        return s
    if k == "assert":
        return [t[4]]
    return []


class Cfg:
    def __init__(self, body, unwind=False):
        self.body = body
        self.blocks = body["blocks"]
        n = len(self.blocks)
        consts = const_locals(body)
        self.succ = [successors(b, unwind, consts) for b in self.blocks]
        self.pred = [[] for _ in range(n)]
        for i, ss in enumerate(self.succ):
            for s in ss:
                self.pred[s].append(i)
        self._dom = None
        self._reach = None

    def reachable(self, start=0):
        seen = {start}
        st = [start]
        while st:
            b = st.pop()
            for s in self.succ[b]:
                if s not in seen:
                    seen.add(s)
                    st.append(s)
        return seen

    def rpo(self):
        seen, order = set(), []

        def dfs(b):
            stack = [(b, iter(self.succ[b]))]
            seen.add(b)
            while stack:
                node, it = stack[-1]
                for s in it:
                    if s not in seen:
                        seen.add(s)
                        stack.append((s, iter(self.succ[s])))
                        break
                else:
                    order.append(node)
                    stack.pop()
        dfs(0)
        return order[::-1]

    def dominators(self):
        """dom[b] = set of blocks dominating b (iterative; bodies are small)."""
        if self._dom is not None:
            return self._dom
        order = self.rpo()
        allb = set(order)
        dom = {b: set(allb) for b in order}
        dom[0] = {0}
        changed = True
        while changed:
            changed = False
            for b in order[1:]:
                ps = [dom[p] for p in self.pred[b] if p in dom]
                new = set.intersection(*ps) if ps else set()
                new = new | {b}
                if new != dom[b]:
                    dom[b] = new
                    changed = True
        self._dom = dom
        return dom

    def dominates(self, a, b):
        d = self.dominators()
        return b in d and a in d[b]

    def back_edges(self):
        d = self.dominators()
        return [(b, s) for b in d for s in self.succ[b] if s in d[b]]

    def natural_loops(self):
        """header -> set of blocks in the loop."""
        loops = {}
        for tail, head in self.back_edges():
            body = {head, tail}
            st = [tail]
            while st:
                x = st.pop()
                if x == head:
                    continue
                for p in self.pred[x]:
                    if p not in body:
                        body.add(p)
                        st.append(p)
            loops.setdefault(head, set()).update(body)
        return loops

    def reaches(self, a, targets, avoid=()):
        """Is some block of `targets` reachable from a without passing through `avoid`?"""
        targets = set(targets)
        avoid = set(avoid)
        seen = set()
        st = [a]
        while st:
            b = st.pop()
            if b in seen or b in avoid:
                continue
            seen.add(b)
            if b in targets:
                return True
            st.extend(self.succ[b])
        return False


def calls(body):
    """Yield (block index, call dict) for every call terminator."""
    for i, b in enumerate(body["blocks"]):
        if b["t"][0] in ("call", "tailcall"):
            yield i, b["t"][1]


def callee_name(c):
    return c.get("res") or c.get("fn") or "<indirect>"


def all_bodies(fn):
    """The function's body and its promoted bodies."""
    if "body" in fn:
        yield fn["body"]
        for p in fn.get("promoted", []):
            yield p
