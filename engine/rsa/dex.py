"""DEX: decision-table extraction from MIR by path-sensitive abstract interpretation.

Abstract values (hashable tuples):
  ('c', v)                       constant: bool / int / str
  ('adt', path, variant, fields) struct or enum value, fields = ((name, value), ...)
  ('tup', (values...))           tuple / array
  ('sym', name)                  opaque value named by provenance (argument, field of it, call result)
  ('clo', def_path, upvars)      closure value, upvars = ((name, value), ...)
  ('fn', path)                   function item
  None                           uninitialised / unknown

No library code is executed and no solver is used: runtime values are touched only through the atoms
recorded on branches (equality with literals, variant tests, order comparisons, opaque booleans).
A path whose atoms contradict what the path already knows is dropped syntactically.
"""
from . import mir as M

# discriminant value -> variant name for foreign enums that occur in the analysed bodies
STD_ENUMS = {
    "core::option::Option": {0: "None", 1: "Some"},
    "core::result::Result": {0: "Ok", 1: "Err"},
    "core::ops::control_flow::ControlFlow": {0: "Continue", 1: "Break"},
    "core::cmp::Ordering": {-1: "Less", 255: "Less", 0: "Equal", 1: "Greater"},
    "alloc::borrow::Cow": {0: "Borrowed", 1: "Owned"},
}


def C(v):
    return ("c", v)


TRUE, FALSE = C(True), C(False)
UNIT = ("tup", ())


def sym(name):
    return ("sym", name)


def is_const(v):
    return isinstance(v, tuple) and v[0] == "c"


def is_sym(v):
    return isinstance(v, tuple) and v[0] == "sym"


def adt(path, variant, fields=()):
    return ("adt", path, variant, tuple(fields))


def some(v):
    return adt("core::option::Option", "Some", (("0", v),))


NONE = adt("core::option::Option", "None")


def ok(v):
    return adt("core::result::Result", "Ok", (("0", v),))


def err(v):
    return adt("core::result::Result", "Err", (("0", v),))


def show(v, depth=0):
    if v is None:
        return "?"
    k = v[0]
    if k == "c":
        return repr(v[1])
    if k == "sym":
        return v[1]
    if k == "adt":
        short = v[1].split("::")[-1]
        name = f"{short}::{v[2]}" if v[2] else short
        if not v[3]:
            return name
        if depth > 3:
            return name + "(..)"
        return name + "(" + ", ".join(f"{n}={show(x, depth + 1)}" if not n.isdigit() else show(x, depth + 1) for n, x in v[3]) + ")"
    if k == "tup":
        return "(" + ", ".join(show(x, depth + 1) for x in v[1]) + ")"
    if k == "clo":
        # captured values are part of the closure's identity: two instances of one closure body with different captures are different values
        ups = ", ".join(f"{n}={show(x, depth + 1)}" for n, x in v[2]) if v[2] and depth <= 3 else (".." if v[2] else "")
        return f"closure[{v[1]}]" + (f"{{{ups}}}" if ups else "")
    if k == "atom":
        return show_atom(v[1])
    if k == "natom":
        return "!(" + show_atom(v[1]) + ")"
    if k == "bop":
        return f"({show(v[2], depth + 1)} {'&' if v[1] == 'BitAnd' else '|'} {show(v[3], depth + 1)})"
    if k == "discr":
        return f"discriminant({show(v[1], depth + 1)})"
    if k == "fn":
        return f"fn[{v[1]}]"
    return str(v)


def norm_enum_path(p):
    return p


def from_json(v):
    """Constant JSON emitted by mirfacts -> abstract value."""
    if isinstance(v, bool) or isinstance(v, int) or isinstance(v, str):
        return C(v)
    if v is None:
        return None
    if isinstance(v, list):
        return ("tup", tuple(from_json(x) for x in v))
    if isinstance(v, dict):
        if "adt" in v:
            return ("adt", norm_enum_path(v["adt"]), v.get("variant"),
                    tuple((n, from_json(x)) for n, x in v["fields"].items()))
        if "fn" in v:
            return ("fn", v["fn"])
        if "zst" in v:
            return ("zst", v["zst"])
    return sym(f"const:{v}")


class Unrecognised(Exception):
    pass


class Path:
    __slots__ = ("conds", "ret", "effects", "opaque", "trace", "kind")

    def __init__(self, conds, ret, effects, opaque, trace, kind="ret"):
        self.conds, self.ret, self.effects, self.opaque, self.trace, self.kind = conds, ret, effects, opaque, trace, kind

    def __repr__(self):
        cs = " & ".join(("" if b else "!") + show_atom(a) for a, b in self.conds)
        return f"[{cs or 'true'}] => {self.kind}:{show(self.ret)}" + (f" effects={len(self.effects)}" if self.effects else "")


def show_atom(a):
    if a[0] == "eq":
        return f"{show(a[1])}=={show(a[2])}"
    if a[0] == "variant":
        return f"{show(a[1])} is {a[2]}"
    if a[0] == "cmp":
        return f"{show(a[2])} {a[1]} {show(a[3])}"
    if a[0] == "bool":
        return show(a[1])
    if a[0] == "int":
        return f"{show(a[1])}=={a[2]}"
    return str(a)


class State:
    __slots__ = ("locals", "conds", "eqc", "neq", "varof", "notvar", "boolf", "effects", "opaque", "trace", "visits", "cmpf")

    def copy(self):
        s = State()
        s.locals = dict(self.locals)
        s.conds = list(self.conds)
        s.eqc = dict(self.eqc)
        s.neq = set(self.neq)
        s.varof = dict(self.varof)
        s.notvar = {k: set(v) for k, v in self.notvar.items()}
        s.boolf = dict(self.boolf)
        s.cmpf = dict(self.cmpf)
        s.effects = list(self.effects)
        s.opaque = list(self.opaque)
        s.trace = list(self.trace)
        s.visits = dict(self.visits)
        return s

    @staticmethod
    def new():
        s = State()
        s.locals, s.conds, s.eqc, s.neq, s.varof, s.notvar, s.boolf, s.cmpf = {}, [], {}, set(), {}, {}, {}, {}
        s.effects, s.opaque, s.trace, s.visits = [], [], [], {}
        return s


class Dex:
    def __init__(self, lookup_fn, inline=lambda name: False, effects=lambda name: False, models=None,
                 adt_discr=None, max_paths=50000, unroll=1, max_depth=6, pure=lambda name: True, ctors=None):
        """lookup_fn(name) -> fn fact (with body) or None; inline(name) decides whether a workspace callee is
        inlined; effects(name) marks calls recorded as ordered effects."""
        self.lookup_fn = lookup_fn
        self.inline = inline
        self.effects = effects
        self.models = dict(DEFAULT_MODELS)
        if models:
            self.models.update(models)
        self.adt_discr = adt_discr or {}
        self.ctors = ctors or {}
        self.max_paths = max_paths
        self.unroll = unroll
        self.max_depth = max_depth
        self.npaths = 0
        self.unmodelled = {}

    # ----------------------------------------------------------------------------------------
    def run(self, fn, args, body=None, state=None, depth=0):
        """Enumerate paths of `fn` called with abstract `args`; returns list of (State, kind, value)."""
        body = body or fn["body"]
        st = state.copy() if state else State.new()
        outer_locals = st.locals
        outer_visits = st.visits
        st.locals = {}
        st.visits = {}
        for i, a in enumerate(args):
            st.locals[i + 1] = a
        results = []
        work = [(0, st)]
        while work:
            bb, st = work.pop()
            n = st.visits.get(bb, 0)
            if n > self.unroll:
                results.append((st, "loop", None))
                continue
            st.visits[bb] = n + 1
            block = body["blocks"][bb]
            for stmt in block["s"]:
                if stmt[0] == "=":
                    self.assign(fn, body, st, stmt[1], self.rvalue(fn, body, st, stmt[2]))
                elif stmt[0] == "setdiscr":
                    pass
            t = block["t"]
            k = t[0]
            if k == "goto":
                work.append((t[1], st))
            elif k == "ret":
                results.append((st, "ret", st.locals.get(0)))
                self.npaths += 1
                if self.npaths > self.max_paths:
                    raise Unrecognised(f"path explosion in {fn['path']}")
            elif k == "switch":
                for tgt, s2 in self.switch(fn, body, st, t):
                    work.append((tgt, s2))
            elif k == "drop":
                work.append((t[2], st))
            elif k == "assert":
                work.append((t[4], st))
            elif k == "unreachable":
                results.append((st, "unreachable", None))
            elif k in ("call", "tailcall"):
                c = t[1]
                for s2, val, diverge in self.call(fn, body, st, c, depth):
                    if diverge == "loop":
                        results.append((s2, "loop", None))      # an iterator adaptor was unrolled to the bound
                        continue
                    if diverge or c.get("target") is None:
                        results.append((s2, "panic", sym("panic:" + M.callee_name(c))))
                        continue
                    if k == "tailcall":
                        results.append((s2, "ret", val))
                        continue
                    self.assign(fn, body, s2, c["dest"], val)
                    work.append((c["target"], s2))
            elif k in ("resume", "terminate"):
                pass
            else:
                raise Unrecognised(f"terminator {k} in {fn['path']}")
        if state is not None:
            # back in the caller's frame
            for st, _, _ in results:
                st.locals = dict(outer_locals)
                st.visits = dict(outer_visits)
        return results

    def paths(self, fn, args, body=None):
        self.npaths = 0
        out = []
        for st, kind, val in self.run(fn, args, body):
            out.append(Path(tuple(st.conds), val, tuple(st.effects), tuple(st.opaque), tuple(st.trace), kind))
        return out

    # ----------------------------------------------------------------------------------------
    def read_place(self, st, p):
        if isinstance(p, int):
            return st.locals.get(p)
        v = st.locals.get(p["l"])
        for e in p["p"]:
            v = self.project(st, v, e)
        return v

    def project(self, st, v, e):
        if e == "*" or e == "oc":
            return v
        if v is None:
            return None
        if isinstance(e, list):
            if e[0] == "f":
                idx, name = e[1], e[2]
                if v[0] == "adt":
                    fs = v[3]
                    for n, x in fs:
                        if n == name:
                            return x
                    if idx < len(fs):
                        return fs[idx][1]
                    return None
                if v[0] == "tup":
                    return v[1][idx] if idx < len(v[1]) else None
                if v[0] == "clo":
                    return v[2][idx][1] if idx < len(v[2]) else None
                if v[0] == "sym":
                    return sym(f"{v[1]}.{name}")
                return None
            if e[0] == "v":
                if v[0] == "adt":
                    return v
                if v[0] == "sym":
                    return sym(f"{v[1]}.{e[1]}")
                return v
            if e[0] == "i" or e[0] == "ci":
                if v[0] == "sym":
                    return sym(f"{v[1]}[]")
                if v[0] == "tup" and e[0] == "ci" and not e[3] and e[1] < len(v[1]):
                    return v[1][e[1]]
                return None
        return None

    def assign(self, fn, body, st, p, val):
        if isinstance(p, int):
            st.locals[p] = val
            return
        base = p["l"]
        projs = p["p"]
        cur = st.locals.get(base)
        new = self.store(cur, projs, val, st)
        if new is not None:
            st.locals[base] = new

    def store(self, cur, projs, val, st):
        if not projs:
            return val
        e = projs[0]
        if e == "*" or e == "oc":
            return self.store(cur, projs[1:], val, st)
        if isinstance(e, list) and e[0] == "f":
            idx, name = e[1], e[2]
            if cur is not None and cur[0] == "adt":
                fs = list(cur[3])
                for i, (n, x) in enumerate(fs):
                    if n == name:
                        fs[i] = (n, self.store(x, projs[1:], val, st))
                        return ("adt", cur[1], cur[2], tuple(fs))
                return cur
            if cur is not None and cur[0] == "tup":
                items = list(cur[1])
                if idx < len(items):
                    items[idx] = self.store(items[idx], projs[1:], val, st)
                return ("tup", tuple(items))
            if cur is None and name.isdigit():
                # building a tuple field by field
                items = [None] * (idx + 1)
                items[idx] = self.store(None, projs[1:], val, st)
                return ("tup", tuple(items))
            if cur is not None and cur[0] == "sym":
                st.effects.append(("store", cur, name, val))
                return cur
            return cur
        if isinstance(e, list) and e[0] == "v":
            return self.store(cur, projs[1:], val, st)
        return cur

    def operand(self, fn, body, st, o):
        k = o.get("k")
        if k in ("copy", "move"):
            return self.read_place(st, o["pl"])
        if k == "const":
            if "fn" in o:
                return ("fn", o["fn"])
            if "promoted" in o:
                proms = fn.get("promoted", [])
                idx = o["promoted"]
                if idx < len(proms):
                    rs = self.run(fn, [], body=proms[idx], state=None, depth=1)
                    if len(rs) == 1:
                        return rs[0][2]
                return sym(f"promoted:{idx}")
            if "static" in o:
                return sym("static:" + o["static"])
            if "v" in o:
                return from_json(o["v"])
            if "def" in o:
                return sym("const:" + o["def"])
            return sym("const:" + o.get("p", "?"))
        return sym("rt")

    def rvalue(self, fn, body, st, rv):
        k = rv[0]
        if k == "use":
            return self.operand(fn, body, st, rv[1])
        if k == "ref" or k == "rawptr":
            return self.read_place(st, rv[2])
        if k == "discr":
            v = self.read_place(st, rv[1])
            return ("discr", v)
        if k == "agg":
            a = rv[1]
            ops = [self.operand(fn, body, st, o) for o in rv[2]]
            if a["k"] == "adt":
                names = a["fields"]
                if "active" in a:
                    return ("adt", norm_enum_path(a["adt"]), a["variant"], ((names[a["active"]], ops[0]),))
                return ("adt", norm_enum_path(a["adt"]), a["variant"], tuple(zip(names, ops)))
            if a["k"] in ("tuple", "array"):
                return ("tup", tuple(ops))
            if a["k"] == "closure":
                cf = self.lookup_fn(a["def"])
                names = cf.get("upvars", []) if cf else []
                ups = tuple((names[i] if i < len(names) else str(i), o) for i, o in enumerate(ops))
                return ("clo", a["def"], ups)
            return sym("agg")
        if k == "bin":
            return self.binop(st, rv[1], self.operand(fn, body, st, rv[2]), self.operand(fn, body, st, rv[3]))
        if k == "un":
            a = self.operand(fn, body, st, rv[2])
            if rv[1] == "Not":
                return self.mk_not(st, a)
            if rv[1] == "PtrMetadata":
                return sym(f"len({show(a)})")
            return sym(f"{rv[1]}({show(a)})")
        if k == "cast":
            a = self.operand(fn, body, st, rv[2])
            ck = rv[1]
            if ck.startswith("PointerCoercion") or ck in ("PtrToPtr", "Transmute", "Subtype"):
                return a
            if ck == "IntToInt" and is_const(a):
                return a
            if a is not None and a[0] == "discr":
                return a
            return sym(f"cast({show(a)})")
        if k == "repeat":
            return sym("repeat")
        return sym("rv:" + k)

    # ----------------------------------------------------------------------------------------
    # atoms
    # ----------------------------------------------------------------------------------------
    def mk_eq(self, st, a, b):
        if a is None or b is None:
            return sym("eq(?)")
        if is_const(a) and is_const(b):
            return C(a[1] == b[1])
        if is_const(a):
            a, b = b, a
        if a[0] == "adt" and b[0] == "adt":
            if a[2] != b[2]:
                return FALSE
            if not a[3] and not b[3]:
                return TRUE
            res = TRUE
            for (n1, x), (n2, y) in zip(a[3], b[3]):
                r = self.mk_eq(st, x, y)
                if r == FALSE:
                    return FALSE
                if r != TRUE:
                    res = r if res == TRUE else sym(f"and({show(res)},{show(r)})")
            return res
        if a == b:
            return TRUE
        if is_sym(a) and is_const(b):
            if a in st.eqc:
                return C(st.eqc[a] == b[1])
            if (a, b[1]) in st.neq:
                return FALSE
            return ("atom", ("eq", a, b))
        if b[0] == "adt" and not b[3] and a[0] != "adt":
            # comparison of an opaque enum value with a unit variant
            if a in st.varof:
                return C(st.varof[a] == b[2])
            if b[2] in st.notvar.get(a, ()):
                return FALSE
            return ("atom", ("variant", a, b[2]))
        if a[0] == "adt" and not a[3] and b[0] != "adt":
            return self.mk_eq(st, b, a)
        x, y = sorted((a, b), key=lambda v: show(v))
        key = ("eq", x, y)
        if key in st.boolf:
            return C(st.boolf[key])
        return ("atom", key)

    def mk_not(self, st, a):
        if is_const(a):
            return C(not a[1]) if isinstance(a[1], bool) else sym(f"not({show(a)})")
        if a is not None and a[0] == "atom":
            return ("natom", a[1])
        if a is not None and a[0] == "natom":
            return ("atom", a[1])
        if is_sym(a):
            return ("natom", ("bool", a))
        return sym(f"not({show(a)})")

    def mk_cmp(self, st, op, a, b):
        """op in lt, le, gt, ge"""
        if is_const(a) and is_const(b):
            x, y = a[1], b[1]
            return C({"lt": x < y, "le": x <= y, "gt": x > y, "ge": x >= y}[op])
        # canonical form: lt / le with fixed operand order; gt(a,b) = lt(b,a); ge(a,b) = le(b,a)
        if op == "gt":
            op, a, b = "lt", b, a
        elif op == "ge":
            op, a, b = "le", b, a
        # le(a,b) = !lt(b,a)
        if op == "le":
            r = self.mk_cmp_lt(st, b, a)
            return self.mk_not(st, r)
        return self.mk_cmp_lt(st, a, b)

    def mk_cmp_lt(self, st, a, b):
        key = ("cmp", "<", a, b)
        if key in st.cmpf:
            return C(st.cmpf[key])
        if a == b:
            return FALSE
        return ("atom", key)

    def binop(self, st, op, a, b):
        if op == "Eq":
            return self.mk_eq(st, a, b)
        if op == "Ne":
            return self.mk_not(st, self.mk_eq(st, a, b))
        if op in ("Lt", "Le", "Gt", "Ge"):
            return self.mk_cmp(st, op.lower(), a, b)
        if is_const(a) and is_const(b) and isinstance(a[1], int) and isinstance(b[1], int) and not isinstance(a[1], bool):
            x, y = a[1], b[1]
            base = op.replace("WithOverflow", "").replace("Unchecked", "")
            r = {"Add": x + y, "Sub": x - y, "Mul": x * y}.get(base)
            if r is not None:
                return ("tup", (C(r), FALSE)) if "WithOverflow" in op else C(r)
        if op in ("BitAnd", "BitOr") and is_const(a) and is_const(b) and isinstance(a[1], bool):
            return C((a[1] and b[1]) if op == "BitAnd" else (a[1] or b[1]))
        if op in ("BitAnd", "BitOr"):
            # boolean connective over atoms: keep a structured value so that a later switch can fork on it
            return ("bop", op, a, b)
        s = sym(f"{op}({show(a)},{show(b)})")
        if "WithOverflow" in op:
            return ("tup", (s, FALSE))
        return s

    # ----------------------------------------------------------------------------------------
    def enum_variant_for(self, adt_path, val):
        tbl = STD_ENUMS.get(adt_path) or self.adt_discr.get(adt_path)
        if tbl is None:
            return None
        return tbl.get(val)

    def discr_of(self, adt_path, variant):
        tbl = STD_ENUMS.get(adt_path) or self.adt_discr.get(adt_path)
        if not tbl:
            return None
        for k, v in tbl.items():
            if v == variant:
                return k
        return None

    def fork_bool(self, st, v):
        """Yield (truth, state) for a boolean abstract value."""
        if v is None:
            v = sym("?bool")
        if is_const(v):
            yield (bool(v[1]), st)
            return
        if v[0] in ("atom", "natom"):
            atom = v[1]
            neg = v[0] == "natom"
            known = self.known(st, atom)
            if known is not None:
                yield (known != neg, st)
                return
            for truth in (True, False):
                s2 = st.copy()
                self.learn(s2, atom, truth)
                yield (truth != neg, s2)
            return
        if v[0] == "bop":
            op, a, b = v[1], v[2], v[3]
            for ta, sa in self.fork_bool(st, a):
                if op == "BitAnd" and not ta:
                    yield (False, sa)
                    continue
                if op == "BitOr" and ta:
                    yield (True, sa)
                    continue
                for tb, sb in self.fork_bool(sa, b):
                    yield (tb, sb)
            return
        if is_sym(v):
            atom = ("bool", v)
            known = self.known(st, atom)
            if known is not None:
                yield (known, st)
                return
            for truth in (True, False):
                s2 = st.copy()
                self.learn(s2, atom, truth)
                yield (truth, s2)
            return
        raise Unrecognised(f"branch on {show(v)}")

    def known(self, st, atom):
        k = atom[0]
        if k == "eq" and is_sym(atom[1]) and is_const(atom[2]):
            if atom[1] in st.eqc:
                return st.eqc[atom[1]] == atom[2][1]
            if (atom[1], atom[2][1]) in st.neq:
                return False
            return None
        if k == "variant":
            if atom[1] in st.varof:
                return st.varof[atom[1]] == atom[2]
            if atom[2] in st.notvar.get(atom[1], ()):
                return False
            return None
        if k == "cmp":
            return st.cmpf.get(atom)
        return st.boolf.get(atom)

    def learn(self, st, atom, truth):
        st.conds.append((atom, truth))
        k = atom[0]
        if k == "eq" and is_sym(atom[1]) and is_const(atom[2]):
            if truth:
                st.eqc[atom[1]] = atom[2][1]
            else:
                st.neq.add((atom[1], atom[2][1]))
        elif k == "variant":
            if truth:
                st.varof[atom[1]] = atom[2]
            else:
                st.notvar.setdefault(atom[1], set()).add(atom[2])
        elif k == "cmp":
            st.cmpf[atom] = truth
        else:
            st.boolf[atom] = truth

    def switch(self, fn, body, st, t):
        v = self.operand(fn, body, st, t[1])
        arms, otherwise, dty, line = t[2], t[3], t[4], t[5]
        if v is None:
            v = sym(f"?{fn['path']}:{line}")
        if dty == "bool" or v[0] in ("atom", "natom", "bop"):
            # switchInt(bool): arms are [0 -> bbF], otherwise bbT  (or [1 -> ..])
            for truth, s2 in self.fork_bool(st, v):
                tgt = otherwise
                for val, bb in arms:
                    if val == (1 if truth else 0):
                        tgt = bb
                s2.trace.append((fn["path"], line, truth))
                yield tgt, s2
            return
        if is_const(v):
            x = v[1]
            if isinstance(x, bool):
                x = int(x)
            if isinstance(x, str) and len(x) == 1:
                x = ord(x)
            tgt = otherwise
            for val, bb in arms:
                if val == x:
                    tgt = bb
            yield tgt, st
            return
        if v[0] == "discr":
            inner = v[1]
            if inner is not None and inner[0] == "adt":
                d = self.discr_of(inner[1], inner[2])
                if d is None:
                    raise Unrecognised(f"unknown discriminant of {inner[1]}::{inner[2]} in {fn['path']}")
                tgt = otherwise
                for val, bb in arms:
                    if val == d or (d < 0 and val == d + 256):
                        tgt = bb
                yield tgt, st
                return
            if inner is None:
                inner = sym(f"?{fn['path']}:{line}")
            # opaque enum: fork over the arms; variant names come from the type of the place
            ety = self.enum_type_of_switch(fn, body, t)
            names = []
            for val, bb in arms:
                name = self.enum_variant_for(ety, val) if ety else None
                if name is None:
                    name = f"#{val}"
                names.append(name)
            if inner in st.varof:
                tgt = otherwise
                for (val, bb), name in zip(arms, names):
                    if name == st.varof[inner]:
                        tgt = bb
                yield tgt, st
                return
            excluded = st.notvar.get(inner, set())
            for (val, bb), name in zip(arms, names):
                if name in excluded:
                    continue
                s2 = st.copy()
                self.learn(s2, ("variant", inner, name), True)
                s2.trace.append((fn["path"], line, name))
                yield bb, s2
            # otherwise arm: none of the listed variants — only if the enum has further variants
            all_names = set((STD_ENUMS.get(ety) or self.adt_discr.get(ety) or {}).values()) if ety else set()
            rest = all_names - set(names) - excluded
            if not all_names or rest:
                s2 = st.copy()
                if len(rest) == 1:
                    self.learn(s2, ("variant", inner, next(iter(rest))), True)
                else:
                    for name in names:
                        if name not in excluded:
                            self.learn(s2, ("variant", inner, name), False)
                s2.trace.append((fn["path"], line, "otherwise"))
                yield otherwise, s2
            return
        # opaque integer / char
        for val, bb in arms:
            atom = ("int", v, val)
            kn = st.boolf.get(atom)
            if kn is False:
                continue
            s2 = st.copy()
            if kn is None:
                self.learn(s2, atom, True)
            yield bb, s2
            if kn is True:
                return
        s2 = st.copy()
        for val, bb in arms:
            if st.boolf.get(("int", v, val)) is None:
                self.learn(s2, ("int", v, val), False)
        yield otherwise, s2

    def enum_type_of_switch(self, fn, body, t):
        """ADT path of the enum whose discriminant is switched on (from the discriminant statement)."""
        o = t[1]
        if o.get("k") not in ("copy", "move"):
            return None
        loc = M.pl_local(o["pl"])
        for b in body["blocks"]:
            for stmt in b["s"]:
                if stmt[0] == "=" and stmt[1] == loc and stmt[2][0] == "discr":
                    return adt_head(strip_ref(stmt[2][2]))
        return None

    def place_type(self, body, p):
        """Best-effort ADT path of a place: type string of the local, through derefs, then field types unknown."""
        ty = body["locals"][M.pl_local(p)]
        projs = M.pl_proj(p)
        for e in projs:
            if e == "*":
                ty = strip_ref(ty)
            elif isinstance(e, list) and e[0] in ("f", "v", "i"):
                if e[0] == "v":
                    continue
                fty = self.field_type(ty, e)
                if fty is None:
                    return None
                ty = fty
        ty = strip_ref(ty)
        return norm_enum_path(adt_head(ty))

    def field_type(self, ty, e):
        head = adt_head(strip_ref(ty))
        info = self.adt_fields.get(head) if hasattr(self, "adt_fields") else None
        if info and e[2] in info:
            return info[e[2]]
        return None

    # ----------------------------------------------------------------------------------------
    def call(self, fn, body, st, c, depth):
        """Yield (state, value, diverges)."""
        name = M.callee_name(c)
        args = [self.operand(fn, body, st, a) for a in c["args"]]
        if "indirect" in c:
            f = self.operand(fn, body, st, c["indirect"])
            if f is not None and f[0] == "fn":
                name = f[1]
            else:
                yield st, self.opaque_call(st, "indirect", args, c), False
                return
        model = self.find_model(name, c)
        if model is not None:
            yield from model(self, fn, body, st, c, args, depth)
            return
        if self.effects(name):
            st.effects.append((name, tuple(args), c["line"]))
        target = None
        if depth < self.max_depth and self.inline(name):
            target = self.lookup_fn(name)
        if target is not None and "body" in target:
            # a direct call of a closure body (`f(x)` on a local closure) uses the rust-call ABI: (closure, (args..)) -> untuple
            if "{closure" in name.rsplit("::", 1)[-1] and len(args) == 2 and args[1] is not None and args[1][0] == "tup" \
                    and target["body"]["argc"] == 1 + len(args[1][1]):
                args = [args[0]] + list(args[1][1])
            yield from self.inline_call(target, args, st, depth)
            return
        yield st, self.opaque_call(st, name, args, c), False

    def inline_call(self, target, args, st, depth):
        for s2, kind, val in self.run(target, args, state=st, depth=depth + 1):
            if kind == "ret":
                yield s2, val, False
            elif kind == "loop":
                yield s2, sym("loop:" + target["path"]), False
            else:
                yield s2, val, True

    def opaque_call(self, st, name, args, c):
        short = short_name(name)
        self.unmodelled[name] = self.unmodelled.get(name, 0) + 1
        text = f"{short}({', '.join(show(a) for a in args)})"
        if name.rsplit("::", 1)[-1] in STATEFUL:
            # a stateful receiver: every call on the path yields a fresh value
            k = sum(1 for o in st.opaque if o[0] == name and o[1] == tuple(args))
            if k:
                text += f"#{k + 1}"
        v = sym(text)
        st.opaque.append((name, tuple(args), c.get("line")))
        return v

    def find_model(self, name, c):
        m = self.models.get(name)
        if m:
            return m
        for suffix, m in SUFFIX_MODELS:
            if name.endswith(suffix):
                return m
        tr = c.get("trait")
        if tr:
            meth = name.rsplit("::", 1)[-1]
            m = TRAIT_MODELS.get((tr, meth))
            if m:
                return m
        return None

    def call_closure(self, st, f, args, depth):
        """Call an abstract callable with already-untupled args; yields (state, value, diverges)."""
        if f is not None and f[0] == "clo":
            target = self.lookup_fn(f[1])
            if target is not None and "body" in target:
                yield from self.inline_call(target, [f] + list(args), st, depth)
                return
        if f is not None and f[0] == "fn":
            ctor = STD_CTORS.get(f[1]) or self.ctors.get(f[1])
            if ctor is not None:
                yield st, ("adt", ctor[0], ctor[1], tuple((str(i), a) for i, a in enumerate(args))), False
                return
            target = self.lookup_fn(f[1])
            if target is not None and "body" in target and self.inline(f[1]):
                yield from self.inline_call(target, list(args), st, depth)
                return
            # a known fn item used as a callable, e.g. Option::map(Some) or ok_or_else(Error::new)
            m = self.models.get(f[1])
            if m is None:
                for suffix, mm in SUFFIX_MODELS:
                    if f[1].endswith(suffix):
                        m = mm
            if m is not None:
                yield from m(self, None, None, st, {"line": 0, "args": []}, list(args), depth)
                return
        v = sym(f"apply({show(f)}; {', '.join(show(a) for a in args)})")
        st.opaque.append(("apply", (f,) + tuple(args), None))
        yield st, v, False


STD_CTORS = {"core::option::Option::Some": ("core::option::Option", "Some"), "core::result::Result::Ok": ("core::result::Result", "Ok"),
             "core::result::Result::Err": ("core::result::Result", "Err")}
STATEFUL = {"next", "next_back", "pop", "pop_front", "pop_back", "next_key", "next_value", "next_element", "next_entry"}


def strip_ref(ty):
    ty = ty.strip()
    while ty.startswith("&"):
        ty = ty[1:].lstrip()
        if ty.startswith("'"):
            ty = ty.split(" ", 1)[1] if " " in ty else ty
        if ty.startswith("mut "):
            ty = ty[4:]
    return ty


def adt_head(ty):
    depth = 0
    for i, ch in enumerate(ty):
        if ch == "<":
            return ty[:i]
    return ty


def strip_generics(s):
    out, depth = [], 0
    for ch in s:
        if ch == "<":
            depth += 1
        elif ch == ">":
            depth -= 1
        elif depth == 0:
            out.append(ch)
    return "".join(out)


def short_name(name):
    """`<X as a::b::Trait<U>>::m` -> `Trait::m`; `a::b::Type::<T>::m` -> `Type::m` (generic arguments dropped)."""
    s = name
    if s.startswith("<"):
        # qualified path: find the matching '>' of the leading '<'
        depth = 0
        for i, ch in enumerate(s):
            if ch == "<":
                depth += 1
            elif ch == ">":
                depth -= 1
                if depth == 0:
                    inner, rest = s[1:i], s[i + 1:]
                    break
        else:
            inner, rest = s[1:], ""
        # split `X as Trait` at top level
        depth, cut = 0, None
        for j in range(len(inner)):
            if inner[j] == "<":
                depth += 1
            elif inner[j] == ">":
                depth -= 1
            elif depth == 0 and inner.startswith(" as ", j):
                cut = j
                break
        head = inner[cut + 4:] if cut is not None else inner
        s = strip_generics(head) + rest
    s = strip_generics(s)
    parts = [x for x in s.split("::") if x]
    return "::".join(parts[-2:]) if len(parts) >= 2 else s


# ------------------------------------------------------------------------------------------------
# call models
# ------------------------------------------------------------------------------------------------
def m_identity(dex, fn, body, st, c, args, depth):
    yield st, args[0] if args else None, False


def m_eq(dex, fn, body, st, c, args, depth):
    yield st, dex.mk_eq(st, args[0], args[1]), False


def m_ne(dex, fn, body, st, c, args, depth):
    yield st, dex.mk_not(st, dex.mk_eq(st, args[0], args[1])), False


def m_cmp(op):
    def m(dex, fn, body, st, c, args, depth):
        yield st, dex.mk_cmp(st, op, args[0], args[1]), False
    return m


def variant_fork(dex, st, v, enum, names):
    """Fork an abstract enum value over `names`; yields (name, state, payload)."""
    if v is not None and v[0] == "adt":
        payload = v[3][0][1] if v[3] else None
        yield v[2], st, payload
        return
    if v is None:
        v = sym("?")
    if v in st.varof:
        n = st.varof[v]
        yield n, st, sym(f"{show(v)}.{n}.0")
        return
    for n in names:
        if n in st.notvar.get(v, ()):
            continue
        s2 = st.copy()
        dex.learn(s2, ("variant", v, n), True)
        yield n, s2, sym(f"{show(v)}.{n}.0")


def m_try_branch(dex, fn, body, st, c, args, depth):
    v = args[0]
    ty = (c.get("fnargs") or [""])[0]
    is_opt = "Option<" in ty.split("<")[0] + "<" if ty else False
    if v is not None and v[0] == "adt":
        is_opt = v[1].endswith("Option")
    if is_opt:
        for n, s2, payload in variant_fork(dex, st, v, "core::option::Option", ["Some", "None"]):
            if n == "Some":
                yield s2, adt("core::ops::control_flow::ControlFlow", "Continue", (("0", payload),)), False
            else:
                yield s2, adt("core::ops::control_flow::ControlFlow", "Break", (("0", NONE),)), False
    else:
        for n, s2, payload in variant_fork(dex, st, v, "core::result::Result", ["Ok", "Err"]):
            if n == "Ok":
                yield s2, adt("core::ops::control_flow::ControlFlow", "Continue", (("0", payload),)), False
            else:
                yield s2, adt("core::ops::control_flow::ControlFlow", "Break", (("0", err(payload)),)), False


def m_from_residual(dex, fn, body, st, c, args, depth):
    # the residual is Err(e) / None; the error conversion is treated as identity
    yield st, args[0], False


def m_is_variant(name, enum, names, neg=False):
    def m(dex, fn, body, st, c, args, depth):
        for n, s2, _ in variant_fork(dex, st, args[0], enum, names):
            yield s2, C((n == name) != neg), False
    return m


OPT = ("core::option::Option", ["Some", "None"])
RES = ("core::result::Result", ["Ok", "Err"])


def m_opt_map(dex, fn, body, st, c, args, depth):
    for n, s2, payload in variant_fork(dex, st, args[0], *OPT):
        if n == "Some":
            for s3, val, div in dex.call_closure(s2, args[1], [payload], depth):
                yield s3, some(val), div
        else:
            yield s2, NONE, False


def m_opt_and_then(dex, fn, body, st, c, args, depth):
    for n, s2, payload in variant_fork(dex, st, args[0], *OPT):
        if n == "Some":
            yield from dex.call_closure(s2, args[1], [payload], depth)
        else:
            yield s2, NONE, False


def m_opt_is_some_and(dex, fn, body, st, c, args, depth):
    for n, s2, payload in variant_fork(dex, st, args[0], *OPT):
        if n == "Some":
            yield from dex.call_closure(s2, args[1], [payload], depth)
        else:
            yield s2, FALSE, False


def m_opt_is_none_or(dex, fn, body, st, c, args, depth):
    for n, s2, payload in variant_fork(dex, st, args[0], *OPT):
        if n == "Some":
            yield from dex.call_closure(s2, args[1], [payload], depth)
        else:
            yield s2, TRUE, False


def m_opt_map_or(dex, fn, body, st, c, args, depth):
    for n, s2, payload in variant_fork(dex, st, args[0], *OPT):
        if n == "Some":
            yield from dex.call_closure(s2, args[2], [payload], depth)
        else:
            yield s2, args[1], False


def m_opt_map_or_else(dex, fn, body, st, c, args, depth):
    for n, s2, payload in variant_fork(dex, st, args[0], *OPT):
        if n == "Some":
            yield from dex.call_closure(s2, args[2], [payload], depth)
        else:
            yield from dex.call_closure(s2, args[1], [], depth)


def m_res_map_or(dex, fn, body, st, c, args, depth):
    for n, s2, payload in variant_fork(dex, st, args[0], *RES):
        if n == "Ok":
            yield from dex.call_closure(s2, args[2], [payload], depth)
        else:
            yield s2, args[1], False


def m_opt_zip(dex, fn, body, st, c, args, depth):
    for n, s2, a in variant_fork(dex, st, args[0], *OPT):
        if n == "None":
            yield s2, NONE, False
            continue
        for n2, s3, b in variant_fork(dex, s2, args[1], *OPT):
            yield s3, (some(("tup", (a, b))) if n2 == "Some" else NONE), False


def m_opt_transpose(dex, fn, body, st, c, args, depth):
    """Option<Result<T, E>> -> Result<Option<T>, E>"""
    for n, s2, payload in variant_fork(dex, st, args[0], *OPT):
        if n == "None":
            yield s2, ok(NONE), False
            continue
        for rn, s3, inner in variant_fork(dex, s2, payload, *RES):
            yield s3, (ok(some(inner)) if rn == "Ok" else err(inner)), False


def m_opt_unwrap_or(dex, fn, body, st, c, args, depth):
    for n, s2, payload in variant_fork(dex, st, args[0], *OPT):
        yield s2, (payload if n == "Some" else args[1]), False


def m_opt_unwrap_or_else(dex, fn, body, st, c, args, depth):
    for n, s2, payload in variant_fork(dex, st, args[0], *OPT):
        if n == "Some":
            yield s2, payload, False
        else:
            yield from dex.call_closure(s2, args[1], [], depth)


def m_opt_unwrap_or_default(dex, fn, body, st, c, args, depth):
    for n, s2, payload in variant_fork(dex, st, args[0], *OPT):
        yield s2, (payload if n == "Some" else sym("default")), False


def m_opt_ok_or(dex, fn, body, st, c, args, depth):
    for n, s2, payload in variant_fork(dex, st, args[0], *OPT):
        yield s2, (ok(payload) if n == "Some" else err(args[1])), False


def m_opt_ok_or_else(dex, fn, body, st, c, args, depth):
    for n, s2, payload in variant_fork(dex, st, args[0], *OPT):
        if n == "Some":
            yield s2, ok(payload), False
        else:
            for s3, val, div in dex.call_closure(s2, args[1], [], depth):
                yield s3, err(val), div


def m_opt_or_else(dex, fn, body, st, c, args, depth):
    for n, s2, payload in variant_fork(dex, st, args[0], *OPT):
        if n == "Some":
            yield s2, some(payload), False
        else:
            yield from dex.call_closure(s2, args[1], [], depth)


def m_opt_or(dex, fn, body, st, c, args, depth):
    for n, s2, payload in variant_fork(dex, st, args[0], *OPT):
        yield s2, (some(payload) if n == "Some" else args[1]), False


def m_opt_and(dex, fn, body, st, c, args, depth):
    for n, s2, payload in variant_fork(dex, st, args[0], *OPT):
        yield s2, (args[1] if n == "Some" else args[0]), False


def m_opt_unwrap(dex, fn, body, st, c, args, depth):
    for n, s2, payload in variant_fork(dex, st, args[0], *OPT):
        if n == "Some":
            yield s2, payload, False
        else:
            yield s2, None, True


def m_opt_filter(dex, fn, body, st, c, args, depth):
    for n, s2, payload in variant_fork(dex, st, args[0], *OPT):
        if n == "Some":
            for s3, val, div in dex.call_closure(s2, args[1], [payload], depth):
                if div:
                    yield s3, val, True
                    continue
                for truth, s4 in dex.fork_bool(s3, val):
                    yield s4, (some(payload) if truth else NONE), False
        else:
            yield s2, NONE, False


def m_res_map_err(dex, fn, body, st, c, args, depth):
    for n, s2, payload in variant_fork(dex, st, args[0], *RES):
        if n == "Ok":
            yield s2, ok(payload), False
        else:
            for s3, val, div in dex.call_closure(s2, args[1], [payload], depth):
                yield s3, err(val), div


def m_res_map(dex, fn, body, st, c, args, depth):
    for n, s2, payload in variant_fork(dex, st, args[0], *RES):
        if n == "Ok":
            for s3, val, div in dex.call_closure(s2, args[1], [payload], depth):
                yield s3, ok(val), div
        else:
            yield s2, err(payload), False


def m_res_ok(dex, fn, body, st, c, args, depth):
    for n, s2, payload in variant_fork(dex, st, args[0], *RES):
        yield s2, (some(payload) if n == "Ok" else NONE), False


def m_res_unwrap(dex, fn, body, st, c, args, depth):
    for n, s2, payload in variant_fork(dex, st, args[0], *RES):
        if n == "Ok":
            yield s2, payload, False
        else:
            yield s2, None, True


def m_res_and_then(dex, fn, body, st, c, args, depth):
    for n, s2, payload in variant_fork(dex, st, args[0], *RES):
        if n == "Ok":
            yield from dex.call_closure(s2, args[1], [payload], depth)
        else:
            yield s2, err(payload), False


def m_res_is_ok_and(dex, fn, body, st, c, args, depth):
    for n, s2, payload in variant_fork(dex, st, args[0], *RES):
        if n == "Ok":
            yield from dex.call_closure(s2, args[1], [payload], depth)
        else:
            yield s2, FALSE, False


def m_res_is_err_and(dex, fn, body, st, c, args, depth):
    for n, s2, payload in variant_fork(dex, st, args[0], *RES):
        if n == "Err":
            yield from dex.call_closure(s2, args[1], [payload], depth)
        else:
            yield s2, FALSE, False


def m_res_unwrap_or(dex, fn, body, st, c, args, depth):
    for n, s2, payload in variant_fork(dex, st, args[0], *RES):
        yield s2, (payload if n == "Ok" else args[1]), False


def m_fn_call(dex, fn, body, st, c, args, depth):
    f = args[0]
    tup = args[1] if len(args) > 1 else UNIT
    cargs = list(tup[1]) if tup is not None and tup[0] == "tup" else [tup]
    yield from dex.call_closure(st, f, cargs, depth)


def m_bool_then(dex, fn, body, st, c, args, depth):
    for truth, s2 in dex.fork_bool(st, args[0]):
        if truth:
            for s3, val, div in dex.call_closure(s2, args[1], [], depth):
                yield s3, some(val), div
        else:
            yield s2, NONE, False


def m_bool_then_some(dex, fn, body, st, c, args, depth):
    for truth, s2 in dex.fork_bool(st, args[0]):
        yield s2, (some(args[1]) if truth else NONE), False


NEXT_NAME = "<adaptor as core::iter::traits::iterator::Iterator>::next"


def _adaptor_iter(it):
    """The iterator value as a `for` loop over the same expression would name it."""
    t = show(it)
    return it if t.startswith("IntoIterator::into_iter(") else sym(f"IntoIterator::into_iter({t})")


def _adaptor_next(dex, st, it, c):
    """One `next()` on the adaptor's receiver, named and recorded exactly like the `next()` of a `for` loop; yields (state, element | None)."""
    if dex.effects(NEXT_NAME):
        st.effects.append((NEXT_NAME, (it,), c.get("line")))
    v = dex.opaque_call(st, NEXT_NAME, [it], c)
    for n, s2, payload in variant_fork(dex, st, v, *OPT):
        yield s2, (payload if n == "Some" else None), n


def m_try_for_each(dex, fn, body, st, c, args, depth):
    """iter.try_for_each(f) == for x in iter { f(x)? } Ok(())   (bounded unrolling, like a loop in the body)"""
    it, f = _adaptor_iter(args[0]), args[1]
    rty = (c.get("fnargs") or ["", "", ""])[-1]
    is_opt = rty.startswith("core::option::Option")
    done = some(UNIT) if is_opt else ok(UNIT)
    work = [(st, 0)]
    while work:
        st0, k = work.pop()
        if k > dex.unroll:
            yield st0, None, "loop"
            continue
        for s1, x, n in _adaptor_next(dex, st0, it, c):
            if n == "None":
                yield s1, done, False
                continue
            for s2, r, div in dex.call_closure(s1, f, [x], depth):
                if div:
                    yield s2, r, div
                    continue
                for vn, s3, payload in variant_fork(dex, s2, r, *(OPT if is_opt else RES)):
                    if vn in ("Ok", "Some"):
                        work.append((s3, k + 1))
                    else:
                        yield s3, r, False


def m_for_each(dex, fn, body, st, c, args, depth):
    it, f = _adaptor_iter(args[0]), args[1]
    work = [(st, 0)]
    while work:
        st0, k = work.pop()
        if k > dex.unroll:
            yield st0, None, "loop"
            continue
        for s1, x, n in _adaptor_next(dex, st0, it, c):
            if n == "None":
                yield s1, UNIT, False
                continue
            for s2, r, div in dex.call_closure(s1, f, [x], depth):
                if div:
                    yield s2, r, div
                else:
                    work.append((s2, k + 1))


def m_find(dex, fn, body, st, c, args, depth):
    """iter.find(p) == for x in iter { if p(&x) { return Some(x) } } None"""
    it, f = _adaptor_iter(args[0]), args[1]
    work = [(st, 0)]
    while work:
        st0, k = work.pop()
        if k > dex.unroll:
            yield st0, None, "loop"
            continue
        for s1, x, n in _adaptor_next(dex, st0, it, c):
            if n == "None":
                yield s1, NONE, False
                continue
            for s2, r, div in dex.call_closure(s1, f, [x], depth):
                if div:
                    yield s2, r, div
                    continue
                for truth, s3 in dex.fork_bool(s2, r):
                    if truth:
                        yield s3, some(x), False
                    else:
                        work.append((s3, k + 1))


def m_unit(dex, fn, body, st, c, args, depth):
    yield st, UNIT, False


def m_partial_cmp_to_ord(dex, fn, body, st, c, args, depth):
    yield st, sym(f"cmp({show(args[0])},{show(args[1])})"), False


def m_false(dex, fn, body, st, c, args, depth):
    yield st, FALSE, False


def m_vec_from_box(dex, fn, body, st, c, args, depth):
    """`vec![a, b, c]` lowering: Box::new_uninit(), a store of the array through the box pointer, box_assume_init_into_vec_unsafe(box)."""
    key = show(args[0])
    for e in reversed(st.effects):
        if e[0] == "store" and show(e[1]).startswith(key):
            yield st, ("adt", "alloc::vec::Vec", None, (("0", e[3]),)), False
            return
    yield st, dex.opaque_call(st, "alloc::boxed::box_assume_init_into_vec_unsafe", args, c), False


# tracing's `level_enabled!` test: with it false the whole event!/span! expansion is skipped (logging has no effect on results)
DEFAULT_MODELS = {
    "<tracing_core::metadata::Level as core::cmp::PartialOrd<tracing_core::metadata::LevelFilter>>::le": m_false,
    "alloc::boxed::box_assume_init_into_vec_unsafe": m_vec_from_box,
}

TRAIT_MODELS = {
    # adaptors that an iterator type may override (Rev, Chain, ..) keep the trait's semantics
    ("core::iter::traits::iterator::Iterator", "find"): m_find,
    ("core::iter::traits::iterator::Iterator", "try_for_each"): m_try_for_each,
    ("core::iter::traits::iterator::Iterator", "for_each"): m_for_each,
    ("core::cmp::PartialEq", "eq"): m_eq,
    ("core::cmp::PartialEq", "ne"): m_ne,
    ("core::cmp::PartialOrd", "lt"): m_cmp("lt"),
    ("core::cmp::PartialOrd", "le"): m_cmp("le"),
    ("core::cmp::PartialOrd", "gt"): m_cmp("gt"),
    ("core::cmp::PartialOrd", "ge"): m_cmp("ge"),
    ("core::ops::deref::Deref", "deref"): m_identity,
    ("core::ops::deref::DerefMut", "deref_mut"): m_identity,
    ("core::convert::AsRef", "as_ref"): m_identity,
    ("core::borrow::Borrow", "borrow"): m_identity,
    ("core::convert::Into", "into"): m_identity,
    ("core::convert::From", "from"): m_identity,
    ("core::clone::Clone", "clone"): m_identity,
    ("alloc::borrow::ToOwned", "to_owned"): m_identity,
    ("alloc::string::ToString", "to_string"): m_identity,
    ("core::ops::try_trait::Try", "branch"): m_try_branch,
    ("core::ops::try_trait::FromResidual", "from_residual"): m_from_residual,
    ("core::ops::function::Fn", "call"): m_fn_call,
    ("core::ops::function::FnMut", "call_mut"): m_fn_call,
    ("core::ops::function::FnOnce", "call_once"): m_fn_call,
}

SUFFIX_MODELS = [
    ("option::Option::<T>::is_some", m_is_variant("Some", *OPT)),
    ("option::Option::<T>::is_none", m_is_variant("None", *OPT)),
    ("result::Result::<T, E>::is_ok", m_is_variant("Ok", *RES)),
    ("result::Result::<T, E>::is_err", m_is_variant("Err", *RES)),
    ("option::Option::<T>::map", m_opt_map),
    ("option::Option::<T>::and_then", m_opt_and_then),
    ("option::Option::<T>::is_some_and", m_opt_is_some_and),
    ("option::Option::<T>::is_none_or", m_opt_is_none_or),
    ("option::Option::<T>::unwrap_or", m_opt_unwrap_or),
    ("option::Option::<T>::unwrap_or_else", m_opt_unwrap_or_else),
    ("option::Option::<T>::unwrap_or_default", m_opt_unwrap_or_default),
    ("option::Option::<T>::ok_or", m_opt_ok_or),
    ("option::Option::<T>::ok_or_else", m_opt_ok_or_else),
    ("iter::traits::iterator::Iterator::try_for_each", m_try_for_each),
    ("iter::traits::iterator::Iterator::for_each", m_for_each),
    ("iter::traits::iterator::Iterator::find", m_find),
    ("option::Option::<core::result::Result<T, E>>::transpose", m_opt_transpose),
    ("option::Option::<T>::zip", m_opt_zip),
    ("option::Option::<T>::map_or", m_opt_map_or),
    ("option::Option::<T>::map_or_else", m_opt_map_or_else),
    ("result::Result::<T, E>::map_or", m_res_map_or),
    ("option::Option::<T>::or_else", m_opt_or_else),
    ("option::Option::<T>::or", m_opt_or),
    ("option::Option::<T>::and", m_opt_and),
    ("option::Option::<T>::unwrap", m_opt_unwrap),
    ("option::Option::<T>::expect", m_opt_unwrap),
    ("option::Option::<T>::filter", m_opt_filter),
    ("option::Option::<T>::as_ref", m_identity),
    ("option::Option::<T>::as_mut", m_identity),
    ("option::Option::<T>::as_deref", m_identity),
    ("option::Option::<&T>::cloned", m_identity),
    ("option::Option::<&T>::copied", m_identity),
    ("option::Option::<T>::take", m_identity),
    ("result::Result::<T, E>::map_err", m_res_map_err),
    ("result::Result::<T, E>::map", m_res_map),
    ("result::Result::<T, E>::ok", m_res_ok),
    ("result::Result::<T, E>::unwrap", m_res_unwrap),
    ("result::Result::<T, E>::expect", m_res_unwrap),
    ("result::Result::<T, E>::and_then", m_res_and_then),
    ("result::Result::<T, E>::unwrap_or", m_res_unwrap_or),
    ("result::Result::<T, E>::as_ref", m_identity),
    ("<impl bool>::then", m_bool_then),
    ("<impl bool>::then_some", m_bool_then_some),
    ("result::Result::<T, E>::is_ok_and", m_res_is_ok_and),
    ("result::Result::<T, E>::is_err_and", m_res_is_err_and),
    ("boxed::Box::<T>::new", m_identity),
    ("string::String::as_str", m_identity),
    ("str::<impl str>::as_bytes", m_identity),
    ("<impl core::cmp::PartialEq for str>::eq", m_eq),
    ("<impl core::cmp::PartialEq<str> for alloc::string::String>::eq", m_eq),
    ("<impl core::cmp::PartialEq<&str> for alloc::string::String>::eq", m_eq),
    ("<impl core::cmp::PartialEq for alloc::string::String>::eq", m_eq),
    ("<impl core::cmp::PartialEq<alloc::string::String> for str>::eq", m_eq),
    ("<impl core::cmp::PartialEq<alloc::string::String> for &str>::eq", m_eq),
    ("<impl core::cmp::PartialEq<&B> for &A>::eq", m_eq),
    ("<impl core::cmp::PartialEq<&B> for &A>::ne", m_ne),
]


def evaluate(paths, valuation):
    """Paths whose every condition holds under `valuation(atom) -> bool | None` (None = unconstrained)."""
    out = []
    for p in paths:
        good = True
        for atom, truth in p.conds:
            v = valuation(atom)
            if v is None:
                continue
            if v != truth:
                good = False
                break
        if good:
            out.append(p)
    return out


def eval_bool(v, valuation):
    """Truth of a boolean abstract value under `valuation(atom) -> bool | None`; None if undetermined."""
    if v is None:
        return None
    if is_const(v):
        return v[1] if isinstance(v[1], bool) else None
    if v[0] == "atom":
        return valuation(v[1])
    if v[0] == "natom":
        r = valuation(v[1])
        return None if r is None else not r
    if v[0] == "bop":
        a, b = eval_bool(v[2], valuation), eval_bool(v[3], valuation)
        if v[1] == "BitAnd":
            if a is False or b is False:
                return False
            return True if a and b else None
        if a is True or b is True:
            return True
        return False if a is False and b is False else None
    if is_sym(v):
        return valuation(("bool", v))
    return None


def value_atoms(v, out=None):
    """Atoms occurring inside an abstract value."""
    out = [] if out is None else out
    if isinstance(v, tuple):
        if v and v[0] in ("atom", "natom"):
            out.append(v[1])
        elif v and v[0] == "bop":
            value_atoms(v[2], out)
            value_atoms(v[3], out)
        elif v and v[0] == "adt":
            for _, x in v[3]:
                value_atoms(x, out)
        elif v and v[0] == "tup":
            for x in v[1]:
                value_atoms(x, out)
    return out


def all_atoms(paths):
    for p in paths:
        for a, _ in p.conds:
            yield a
        for a in value_atoms(p.ret):
            yield a
