"""Extraction of the string <-> variant tables of string-valued enums (FromString / AsRefStr derives, event type enums)."""
from . import dex as D, mir as M


def decode_template_literal(t):
    """literal text of a fmt template with '\\0' for placeholders (see rules/C11.literal_text)."""
    b = [x[1] for x in t[1]]
    txt, i = "", 0
    while i < len(b) and b[i] != 0:
        x = b[i]
        if x < 0x80:
            txt += bytes(b[i + 1:i + 1 + x]).decode("utf8", "replace")
            i += 1 + x
        else:
            txt += "\0"
            i += 1
    return txt


def discover(world):
    """{enum path: dict(from=fn, asref=fn, kind)} for enums that have both directions."""
    out = {}
    for p, l in world.fn_index.items():
        if not p.startswith("<") or " as core::convert::From<" not in p or not p.endswith(">::from"):
            continue
        fn = l[0]
        mac = fn.get("mac") or []
        self_ty = p[1:p.index(" as core::convert::From<")]
        src = p[p.index(" as core::convert::From<") + len(" as core::convert::From<"):-len(">>::from")]
        if src == "T" and ("StringEnum" in mac or "FromString" in mac):
            out.setdefault(self_ty, {})["from"] = fn
            out[self_ty]["kind"] = "derive"
        elif src == "&str" and ("event_enum" in mac or "EventType" in " ".join(mac)):
            out.setdefault(self_ty, {})["from"] = fn
            out[self_ty]["kind"] = "event_type"
    # hand-written string enums: an enum with a `_Custom(PrivOwnedStr)` variant and conversions in both directions
    for e, a in world.adts.items():
        if e in out or a["kind"] != "Enum":
            continue
        cv = [v for v in a["variants"] if v["name"] == "_Custom"]
        if not cv or not cv[0]["fields"] or not cv[0]["fields"][0]["ty"].endswith("PrivOwnedStr"):
            continue
        for src in ("T", "&str", "&'a str"):
            l = world.fn_index.get(f"<{e} as core::convert::From<{src}>>::from")
            if l:
                out[e] = {"from": l[0], "kind": "hand"}
                break
    for e, d in list(out.items()):
        for cand in (f"<{e} as core::convert::AsRef<str>>::as_ref", f"{e}::to_cow_str", f"{e}::as_str"):
            l = world.fn_index.get(cand)
            if l:
                d["asref"] = l[0]
                break
        if "asref" not in d or "from" not in d:
            del out[e]
    return out


def tables(world, e, d):
    """(F_exact: lit -> variant, F_prefix: [(prefix, variant)], fallback_ok, G: variant -> ('lit', s) | ('prefix', p) | ('custom',), problems)"""
    dex = D.Dex(world.lookup, adt_discr=world.adt_discr, effects=lambda n: False)
    s = D.sym("s")
    problems = []
    F_exact, F_prefix, fallback_ok = {}, [], False
    for p in dex.paths(d["from"], [s]):
        if p.kind == "panic":
            # strip_prefix(..).unwrap() under the starts_with guard of the same prefix
            pre = [a for a, t in p.conds if t and a[0] == "bool" and "starts_with(s, " in D.show(a[1])]
            none = [a for a, t in p.conds if t and a[0] == "variant" and a[2] == "None" and "strip_prefix(s, " in D.show(a[1])]
            if not (pre and none and D.show(pre[-1][1]).split("starts_with(s, ")[1] == D.show(none[-1][1]).split("strip_prefix(s, ")[1]):
                problems.append(f"panic path in From: {p!r}"[:200])
            continue
        if p.kind != "ret" or p.ret is None or p.ret[0] != "adt":
            problems.append(f"unexpected From path {p!r}"[:200])
            continue
        var = p.ret[2]
        eqs = [a[2][1] for a, t in p.conds if t and a[0] == "eq" and a[1] == s and D.is_const(a[2])]
        pres = [D.show(a[1]) for a, t in p.conds if t and a[0] == "bool" and "str::starts_with(s, " in D.show(a[1])]
        if eqs:
            if len(eqs) != 1:
                problems.append(f"two literals on one path: {eqs}")
            F_exact[eqs[0]] = var
            if p.ret[3]:
                problems.append(f"literal arm {eqs[0]!r} builds a non-unit variant")
        elif pres:
            prefix = pres[-1].split("str::starts_with(s, ")[1][:-1].strip("'")
            payload = D.show(p.ret[3][0][1]) if p.ret[3] else ""
            if f"str::strip_prefix(s, '{prefix}').Some.0" not in payload:
                problems.append(f"prefix arm {prefix!r}: payload is {payload[:80]}, not the remainder of the input")
            F_prefix.append((prefix, var))
        else:
            # fallback
            if var == "_Custom" and D.show(p.ret).endswith("::_Custom(PrivOwnedStr::PrivOwnedStr(s))"):
                fallback_ok = True
            else:
                problems.append(f"fallback is {D.show(p.ret)[:120]}, not _Custom(PrivOwnedStr(input))")
    G = {}
    for p in dex.paths(d["asref"], [s]):
        var = [a[2] for a, t in p.conds if t and a[0] == "variant" and a[1] == s]
        if p.kind != "ret" or len(var) != 1:
            problems.append(f"unexpected AsRef path {p!r}"[:200])
            continue
        r = p.ret
        if r is not None and r[0] == "adt" and r[1].endswith("Cow"):
            r = r[3][0][1]
        if D.is_const(r) and isinstance(r[1], str):
            G[var[0]] = ("lit", r[1])
        elif D.is_sym(r) and r[1].startswith(f"s.{var[0]}.0") and var[0] == "_Custom":
            G[var[0]] = ("custom",)
        elif D.is_sym(r) and "fmt::format(Arguments::new(" in r[1]:
            # format!("prefix{}", payload)
            G[var[0]] = ("prefix_fmt", r[1])
        else:
            G[var[0]] = ("?", D.show(r)[:120])
    return F_exact, F_prefix, fallback_ok, G, problems


def prefix_of_format(world, d, variant):
    """For a variant whose string is format!("<prefix>{}", payload): the literal prefix and whether the single argument is the variant's field."""
    dex = D.Dex(world.lookup, adt_discr=world.adt_discr, effects=lambda n: n.endswith("Arguments::<'a>::new") or n.endswith("new_display"))
    s = D.sym("s")
    for p in dex.paths(d["asref"], [s]):
        var = [a[2] for a, t in p.conds if t and a[0] == "variant" and a[1] == s]
        if var != [variant]:
            continue
        tm = [e for e in p.effects if e[0].endswith("Arguments::<'a>::new")]
        disp = [e for e in p.effects if e[0].endswith("new_display")]
        if len(tm) == 1 and len(disp) == 1:
            txt = decode_template_literal(tm[0][1][0])
            return txt, D.show(disp[0][1][0]) == f"s.{variant}.0"
    return None, False
