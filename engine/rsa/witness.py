"""A10: compile-fail witnesses. Renders /verif/witnesses against the analysed tree, compiles its doc-tests with nightly
(`cargo +nightly test --doc`; compile_fail snippets are only compiled, twins are no_run) and returns {item: {kind: ok|FAILED}}."""
import json, os, re, shutil, subprocess
from . import facts as F

ROOT = os.path.dirname(os.path.dirname(os.path.dirname(os.path.abspath(__file__))))


def run():
    repo = F.REPO
    key = F.tree_hash()[0]
    src = os.path.join(ROOT, "witnesses")
    import hashlib
    wkey = hashlib.sha256((key + open(os.path.join(src, "src/lib.rs")).read()).encode()).hexdigest()[:16]
    cache = os.path.join(F.CACHE, f"witness-{wkey}.json")
    if os.path.exists(cache):
        return json.load(open(cache))
    alt = "" if repo == "/repo" else "-alt"
    work = os.path.join(F.CACHE, "witnesses" + alt)
    shutil.rmtree(work, ignore_errors=True)
    os.makedirs(os.path.join(work, "src"))
    open(os.path.join(work, "Cargo.toml"), "w").write(open(os.path.join(src, "Cargo.toml.in")).read().replace("@REPO@", repo))
    shutil.copy(os.path.join(src, "src/lib.rs"), os.path.join(work, "src/lib.rs"))
    # the repository ignores Cargo.lock: a scratch worktree of it (self-test harness) has none until cargo has resolved one there
    if os.path.exists(os.path.join(repo, "Cargo.lock")):
        shutil.copy(os.path.join(repo, "Cargo.lock"), os.path.join(work, "Cargo.lock"))
    env = dict(os.environ, CARGO_NET_OFFLINE="true", CARGO_TARGET_DIR=os.path.join(F.CACHE, "target-W" + alt), RUSTFLAGS="-Awarnings", RUSTDOCFLAGS="-Awarnings")
    env.pop("RUSTUP_TOOLCHAIN", None)
    r = subprocess.run(["cargo", "+nightly", "test", "--doc", "--offline", "--", "--test-threads", "8"], cwd=work, env=env,
                       stdout=subprocess.PIPE, stderr=subprocess.STDOUT, text=True)
    out = {}
    for m in re.finditer(r"^test src/lib\.rs - (\w+) \(line \d+\)( - compile fail| - compile)? \.\.\. (\w+)", r.stdout, re.M):
        kind = "witness" if m.group(2) == " - compile fail" else "twin"
        out.setdefault(m.group(1), {})[kind] = m.group(3)
    if not out:
        raise F.MissingAnchor("witness crate did not build: " + r.stdout[-1500:])
    res = {"results": out, "log_tail": r.stdout[-3000:] if r.returncode else ""}
    json.dump(res, open(cache, "w"))
    return res


def check(ctx, rule, items):
    """items: {witness item name: message when the witness compiles}"""
    ctx.rule(rule, "compile-fail witnesses: an external crate's program that would break the property does not type-check (with the stated error code), "
                   "while its twin, which differs only in the offending line, does")
    res = run()["results"]
    for name, msg in items.items():
        r = res.get(name, {})
        ctx.check(r.get("witness") == "ok" and r.get("twin") == "ok", rule, f"{rule}:{name}", "witnesses/src/lib.rs",
                  ok_msg="witness rejected by rustc, twin compiles",
                  bad_msg=(msg if r.get("witness") != "ok" and r.get("twin") == "ok" else f"twin does not compile (witness path is stale): {r}"))
