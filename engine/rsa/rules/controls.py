"""Positive controls: every zero-expected-count detector must fire on fixtures/poscontrol (and stay silent on its guarded twins)."""
from .. import facts as F, world as W, mir as M
from . import panic_common as PC

_W = None


def fixture_world():
    global _W
    if _W is None:
        _W = W.World(F.FixtureFacts(), ["poscontrol"])
    return _W


def sites(ctx, rule):
    w = fixture_world()
    const_only = PC.const_only_functions(w)
    fired, discharged = set(), set()
    for fn, s, key in PC.inventory(w, ["poscontrol"]):
        (discharged if PC.auto_discharge(w, fn, s, const_only) else fired).add(key)
    expect_fire = ["poscontrol::narrow_unguarded|narrow_cast|usize->u8", "poscontrol::first_byte_unguarded|assert:bounds|bounds", "poscontrol::unwrap_site|unwrap|unwrap"]
    expect_quiet = ["poscontrol::narrow_guarded|narrow_cast|usize->u8", "poscontrol::first_byte_guarded|assert:bounds|bounds"]
    for k in expect_fire:
        ctx.check(k in fired, rule, f"{rule}:control:{k}", "fixtures/poscontrol/src/lib.rs", ok_msg="positive control reported", bad_msg="POSITIVE CONTROL NOT REPORTED: the site detector is dead")
    for k in expect_quiet:
        ctx.check(k in discharged, rule, f"{rule}:control-guarded:{k}", "fixtures/poscontrol/src/lib.rs", ok_msg="guarded twin discharged automatically",
                  bad_msg="guarded twin is not discharged: the dominating-guard rule would raise false alarms")


def recursion(ctx, rule):
    w = fixture_world()
    sccs = PC.recursive_sccs(PC.call_graph(w))
    ctx.check(any("poscontrol::recursive_words" in c for c in sccs), rule, f"{rule}:control:recursive_words", "fixtures/poscontrol/src/lib.rs",
              bad_msg="POSITIVE CONTROL NOT REPORTED: recursion detector is dead")


def loops(ctx, rule):
    w = fixture_world()
    fn = w.fn("poscontrol::spin")
    cfg = M.Cfg(fn["body"])
    found = False
    for head, blocks in cfg.natural_loops().items():
        if not [b for b in blocks if any(s not in blocks for s in cfg.succ[b])]:
            found = True
    ctx.check(found, rule, f"{rule}:control:spin", "fixtures/poscontrol/src/lib.rs", bad_msg="POSITIVE CONTROL NOT REPORTED: loop-exit detector is dead")


def statics(ctx, rule):
    w = fixture_world()
    bad = [s for s in w.crates["poscontrol"].statics if not s["freeze"]]
    ctx.check(any(s["path"].endswith("COUNTER") for s in bad), rule, f"{rule}:control:COUNTER", "fixtures/poscontrol/src/lib.rs", bad_msg="POSITIVE CONTROL NOT REPORTED: static detector is dead")


def order(ctx, rule):
    from .C06 import order_sites, DENY
    w = fixture_world()
    res = {key: status for fn, c, key, status, why in order_sites(w, "poscontrol", {})}
    ctx.check(res.get("poscontrol::hash_order_leak|seq|set") == "violation" and res.get("poscontrol::first_seen|seq|map") == "violation", rule,
              f"{rule}:control:order-sensitive", "fixtures/poscontrol/src/lib.rs", bad_msg=f"POSITIVE CONTROL NOT REPORTED: {res}")
    ctx.check(res.get("poscontrol::hash_to_set|collect|set") == "insensitive", rule, f"{rule}:control-guarded:hash_to_set", "fixtures/poscontrol/src/lib.rs",
              bad_msg="collect into a HashSet is not recognised as order-insensitive")
    fn = w.fn("poscontrol::clock")
    ctx.check(any(DENY.search(M.callee_name(c)) for _, c in M.calls(fn["body"])), rule.replace("sites", "pure"), "C06.pure:control:clock", "fixtures/poscontrol/src/lib.rs",
              bad_msg="POSITIVE CONTROL NOT REPORTED: clock call not matched by the deny list")


def early_accept(ctx, rule):
    from .C14 import early_accept_loops
    w = fixture_world()
    bad = list(early_accept_loops(w.fn("poscontrol::all_allowed_early_accept"), lambda c: True))
    good = list(early_accept_loops(w.fn("poscontrol::all_allowed"), lambda c: True))
    ctx.check(any(b for _, _, b in bad), rule, f"{rule}:control:early-accept", "fixtures/poscontrol/src/lib.rs", bad_msg="POSITIVE CONTROL NOT REPORTED: early-accept loop rule is dead")
    ctx.check(bool(good) and not any(b for _, _, b in good), rule, f"{rule}:control-guarded:continue", "fixtures/poscontrol/src/lib.rs", bad_msg="the `continue` twin is reported: the loop rule would raise false alarms")
