"""A1: the per-room-version rule constants, and the id -> rules / id <-> string maps, against spec/room_versions.json."""
import json, os
from .. import dex as D
from ..report import VERIF

SPEC = os.path.join(VERIF, "spec")
RVR = "ruma_common::room_version_rules::RoomVersionRules"
RVID = "ruma_common::identifiers::room_version_id::RoomVersionId"


def load_spec(name):
    with open(os.path.join(SPEC, name)) as f:
        return json.load(f)


def json_get(v, dotted):
    """Navigate the JSON tree of an evaluated constant by dotted field path; enums print as their variant name."""
    cur = v
    for part in dotted.split("."):
        cur = cur["fields"][part]
    if isinstance(cur, dict) and "variant" in cur and not cur["fields"]:
        return cur["variant"]
    return cur


def absval_get(v, dotted):
    cur = v
    for part in dotted.split("."):
        nxt = None
        for n, x in cur[3]:
            if n == part:
                nxt = x
        cur = nxt
    if cur is not None and cur[0] == "adt" and not cur[3]:
        return cur[2]
    if cur is not None and cur[0] == "c":
        return cur[1]
    return cur


def leaf_paths(v, prefix=""):
    """All leaf field paths of an evaluated struct constant."""
    out = []
    for n, x in v["fields"].items():
        if isinstance(x, dict) and "fields" in x and x["fields"] and "variant" not in x:
            out.extend(leaf_paths(x, prefix + n + "."))
        else:
            out.append(prefix + n)
    return out


def version_rules(ctx, world, groups, rule="A1.versions"):
    """Compare every cell of the selected groups for V1..V11, as obtained *through RoomVersionId::rules()*.

    Returns {version: abstract RoomVersionRules value} for later rules to evaluate flags with."""
    spec = load_spec("room_versions.json")
    ctx.rule(rule, "every selected cell of RoomVersionRules::V1..V11 (const-evaluated) equals the specification's "
                   "room-version matrix; RoomVersionId::rules() maps Vn to the Vn constant and custom ids to None; "
                   "as_str/try_from map Vn <-> \"n\"")
    cells = {k: v for k, v in spec["cells"].items() if any(k == g or k.startswith(g + ".") for g in groups)}
    n = 0
    consts = {}
    for ver in spec["versions"]:
        val = world.value(f"{RVR}::{ver}")
        consts[ver] = val
        have = set(leaf_paths(val))
        for cell, per in cells.items():
            if cell not in have:
                ctx.missing(rule, f"{rule}:{ver}.{cell}", f"field {cell} no longer exists in RoomVersionRules")
                continue
            got = json_get(val, cell)
            want = per[ver]
            n += 1
            ctx.check(got == want, rule, f"{rule}:const:{ver}.{cell}", world.where_value(f"{RVR}::{ver}"),
                      ok_msg=f"{cell}={got}", bad_msg=f"RoomVersionRules::{ver}.{cell} is {got}, the specification says {want}")
        # fields of the selected groups that the spec table does not know: fail closed (new switch = new behaviour)
        for leaf in have:
            if any(leaf == g or leaf.startswith(g + ".") for g in groups) and leaf not in spec["cells"]:
                ctx.unrecognised(rule, f"{rule}:unknown-field:{leaf}", world.where_value(f"{RVR}::{ver}"),
                                 f"rule switch `{leaf}` is not in spec/room_versions.json")
    # rules(): variant -> constant
    d = D.Dex(world.lookup, adt_discr=world.adt_discr)
    f = world.fn(f"{RVID}::rules")
    paths = d.paths(f, [D.sym("self")])
    via_rules = {}
    for p in paths:
        if p.kind != "ret":
            continue
        var = [a[2] for a, t in p.conds if a[0] == "variant" and t]
        if len(var) != 1:
            ctx.unrecognised(rule, f"{rule}:rules():shape", world.where(f), f"unexpected path {p!r}"[:200])
            continue
        via_rules[var[0]] = p.ret
    out = {}
    for ver in spec["versions"]:
        r = via_rules.get(ver)
        if r is None or r[0] != "adt" or r[2] != "Some":
            ctx.violation(rule, f"{rule}:rules():{ver}", world.where(f), f"RoomVersionId::{ver}.rules() does not return Some(constant)")
            continue
        got = r[3][0][1]
        want = D.from_json(consts[ver])
        ctx.check(got == want, rule, f"{rule}:rules():{ver}", world.where(f), ok_msg=f"{ver} -> RoomVersionRules::{ver}",
                  bad_msg=f"RoomVersionId::{ver}.rules() returns a value different from RoomVersionRules::{ver}")
        out[ver] = got
        n += 1
    r = via_rules.get("_Custom")
    ctx.check(r is not None and r[0] == "adt" and r[2] == "None", rule, f"{rule}:rules():_Custom", world.where(f),
              bad_msg="custom room versions must have no rules")
    # as_str / try_from
    f = world.fn(f"{RVID}::as_str")
    strs = {}
    for p in d.paths(f, [D.sym("self")]):
        var = [a[2] for a, t in p.conds if a[0] == "variant" and t]
        if p.kind == "ret" and len(var) == 1 and D.is_const(p.ret):
            strs[var[0]] = p.ret[1]
    f2 = world.fn("ruma_common::identifiers::room_version_id::try_from")
    back = {}
    for p in d.paths(f2, [D.sym("s")]):
        lits = [a[2][1] for a, t in p.conds if a[0] == "eq" and t]
        if p.kind == "ret" and len(lits) == 1 and p.ret and p.ret[0] == "adt" and p.ret[2] == "Ok":
            inner = p.ret[3][0][1]
            if inner and inner[0] == "adt":
                back[lits[0]] = inner[2]
    for ver, text in spec["strings"].items():
        ctx.check(strs.get(ver) == text, rule, f"{rule}:as_str:{ver}", world.where(f),
                  bad_msg=f"RoomVersionId::{ver}.as_str() is {strs.get(ver)!r}, must be {text!r}")
        ctx.check(back.get(text) == ver, rule, f"{rule}:try_from:{text}", world.where(f2),
                  bad_msg=f"try_from({text!r}) gives {back.get(text)}, must be {ver}")
        n += 2
    ctx.count("room_version_cells", n)
    return out
