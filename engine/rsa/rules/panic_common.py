"""A3 shared machinery: site inventory with stable keys, automatic discharge rules, reviewed-exception table."""
import json, re, os, re
from .. import mir as M, panics as P
from ..report import VERIF

TABLE = os.path.join(VERIF, "spec", "panic_allow.json")
DERIVE_MACROS = ("Serialize", "Deserialize", "::ruma_events::exports::serde::Serialize", "::ruma_events::exports::serde::Deserialize")


def load_table(extra=False):
    """spec/panic_allow.json (configuration A); with extra=True also spec/panic_allow_B.json (sites that exist only with the extended features)."""
    with open(TABLE) as f:
        data = json.load(f)
    out = {e["key"]: e for e in data["entries"]}
    if extra:
        with open(TABLE.replace("panic_allow.json", "panic_allow_B.json")) as f:
            out.update({e["key"]: e for e in json.load(f)["entries"]})
    return out


def moved_site(world, fn, key, stale, callers):
    """A reviewed site that a refactoring moved into a private helper of the same module: the helper is not public, every function that
    calls it had a reviewed site of the same kind and detail which it no longer has, and those reviews carry no machine-checked premise.
    Returns the stale table keys it stands for (one per caller), or None. The review's reason is about the expression, which moved along;
    a helper reachable from anywhere else is a new site and needs its own review."""
    if fn.get("vis") == "Public" or "{closure" in fn["path"]:
        return None
    kp = key_path(fn["path"])
    cs = sorted(c for c in callers.get(kp, ()) if c != kp)
    if not cs:
        return None
    _, kind, detail = key.split("|", 2)
    detail = detail.split("#")[0]
    mod = kp.rsplit("::", 1)[0]
    out = []
    for c in cs:
        if not (c.startswith(mod + "::") or c.startswith("<" + mod + "::") or mod in c):
            return None
        cand = sorted(k for k in stale if k.split("|")[0] == c and k.split("|")[1] == kind and k.split("|", 2)[2].split("#")[0] == detail)
        if not cand:
            return None
        out.append(cand[0])
    return out


def norm_path(path):
    """Function path with closure ordinals removed: adding or removing an unrelated closure renumbers the others."""
    return re.sub(r"\{closure#\d+\}", "{closure}", path)


def key_path(path):
    """Function path as used in site keys: closures count for the function they are written in (moving an expression into or out of a
    closure, e.g. `.unwrap_or_else(|_| unreachable!())` -> `match .. { Err(_) => unreachable!() }`, must not change the key)."""
    return re.sub(r"(::\{closure#\d+\})+", "", path)


# operations with the same panic condition share one kind: `&s[..i]` and `s.split_at(i).0` both panic iff i is out of range or not a char boundary
KIND_CLASS = {"str_split_at": ("str_index", {"split_at": "index", "split_at_mut": "index_mut"})}


def site_key(fn, s, seen):
    kind, detail = s["kind"], s["detail"]
    if kind == "unwrap":
        # unwrap() and expect("..") are the same site: changing the message must not change the key
        detail = {"expect": "unwrap", "expect_err": "unwrap_err"}.get(detail, detail)
    if kind in KIND_CLASS:
        kind, m = KIND_CLASS[kind]
        detail = m.get(detail, detail)
    base = f"{key_path(fn['path'])}|{kind}|{detail}"
    n = seen.get(base, 0)
    seen[base] = n + 1
    return base if n == 0 else f"{base}#{n + 1}"


def inventory(world, crate_names, fn_filter=None):
    """[(fn, site, key)] for every non-cleanup potential panic/truncation site of the selected functions. Sites of a function and of the
    closures written in it share one ordinal space, numbered in source order."""
    out = []
    for cn in crate_names:
        c = world.crates[cn]
        groups = {}
        for fn in sorted(c.all_fns(), key=lambda f: (norm_path(f["path"]), f["span"][1], f["path"])):
            if "body" not in fn:
                continue
            if fn_filter and not fn_filter(fn):
                continue
            for s in P.sites(fn):
                if "Pointer" in s["kind"]:
                    continue  # debug-build pointer checks of unsafe blocks emitted by rustc, not source-level sites
                groups.setdefault(key_path(fn["path"]), []).append((fn, s))
        for kp in sorted(groups):
            seen = {}
            for fn, s in sorted(groups[kp], key=lambda x: x[1].get("line") or 0):
                out.append((fn, s, site_key(fn, s, seen)))
    return out


# ------------------------------------------------------------------------------------------------
# automatic discharge
# ------------------------------------------------------------------------------------------------
def roots(body):
    """local -> defining rvalue / call for locals assigned exactly once."""
    defs, count = {}, {}
    for bi, b in enumerate(body["blocks"]):
        for st in b["s"]:
            if st[0] == "=" and isinstance(st[1], int):
                count[st[1]] = count.get(st[1], 0) + 1
                defs[st[1]] = ("rv", st[2], bi)
        t = b["t"]
        if t[0] == "call" and isinstance(t[1]["dest"], int):
            d = t[1]["dest"]
            count[d] = count.get(d, 0) + 1
            defs[d] = ("call", t[1], bi)
    return {l: d for l, d in defs.items() if count[l] == 1}


def expr(body, defs, op, depth=0):
    """A small structural expression for an operand, following single-assignment copies, refs and derefs."""
    if depth > 40:
        return ("?",)
    if op.get("k") == "const":
        if "v" in op and isinstance(op["v"], (int, bool, str)):
            return ("const", op["v"])
        return ("const?", op.get("def") or op.get("p"))
    pl = op["pl"]
    return place_expr(body, defs, pl, depth)


def place_expr(body, defs, pl, depth=0):
    l = M.pl_local(pl)
    projs = [p for p in M.pl_proj(pl) if p != "*"]
    base = ("arg", l) if 1 <= l <= body["argc"] else None
    if base is None:
        d = defs.get(l)
        if d is None:
            base = ("local", l)
        elif d[0] == "rv":
            rv = d[1]
            if rv[0] == "use":
                base = expr(body, defs, rv[1], depth + 1)
            elif rv[0] in ("ref", "rawptr"):
                base = place_expr(body, defs, rv[2], depth + 1)
            elif rv[0] == "bin":
                base = ("bin", rv[1], expr(body, defs, rv[2], depth + 1), expr(body, defs, rv[3], depth + 1))
            elif rv[0] == "un":
                base = ("un", rv[1], expr(body, defs, rv[2], depth + 1))
            elif rv[0] == "cast":
                base = ("cast", rv[4], expr(body, defs, rv[2], depth + 1))
            elif rv[0] == "discr":
                base = ("discr", place_expr(body, defs, rv[1], depth + 1))
            elif rv[0] == "agg":
                k = rv[1]
                base = ("agg", k.get("adt", k.get("k")) + ("::" + k["variant"] if k.get("variant") else ""), tuple(expr(body, defs, o, depth + 1) for o in rv[2]))
            else:
                base = ("local", l)
        else:
            c = d[1]
            base = ("call", M.callee_name(c), tuple(expr(body, defs, a, depth + 1) for a in c["args"]))
    for p in projs:
        if isinstance(p, list) and p[0] == "f":
            base = ("field", base, p[2])
        elif isinstance(p, list) and p[0] == "v":
            base = ("variant", base, p[1])
        else:
            base = ("proj", base, str(p))
    return base


def dominating_guards(cfg, body, defs, block):
    """[(condition expr, truth)] for every conditional branch that dominates `block` with a determined outcome."""
    out = []
    dom = cfg.dominators()
    if block not in dom:
        return out
    for d in dom[block]:
        if d == block:
            continue
        t = body["blocks"][d]["t"]
        if t[0] != "switch":
            continue
        succs = [b for _, b in t[2]] + [t[3]]
        taken = [s for s in set(succs) if s == block or cfg.dominates(s, block) and s != d]
        # an edge is "the one taken" if its target dominates the site and the other targets do not reach it without it
        if len(taken) != 1:
            continue
        tgt = taken[0]
        # the edge must be the only way from d into tgt's dominated region
        cond = expr(body, defs, t[1])
        if t[4] == "bool":
            vals = [v for v, b in t[2] if b == tgt]
            if tgt == t[3] and not vals:
                # otherwise-edge of a [0 -> x] switch = true
                truth = not any(v == 1 for v, _ in t[2])
                if any(v == 0 for v, _ in t[2]):
                    truth = True
            elif vals:
                truth = bool(vals[0])
            else:
                continue
            out.append((cond, truth))
        else:
            vals = [v for v, b in t[2] if b == tgt]
            out.append((("switch", cond, tuple(vals), tgt == t[3]), True))
    return out


def _const_le(e, limit):
    return e[0] == "const" and isinstance(e[1], int) and not isinstance(e[1], bool) and e[1] <= limit


def guard_bounds(guards, x, limit):
    """Do the guards imply x <= limit ?"""
    for cond, truth in guards:
        if cond[0] != "bin":
            continue
        op, a, b = cond[1], cond[2], cond[3]
        # x > c false / x <= c true / x < c true (c-1) / x >= c false
        if a == x and b[0] == "const" and isinstance(b[1], int):
            c = b[1]
            if (op == "Gt" and not truth and c <= limit) or (op == "Le" and truth and c <= limit) or \
               (op == "Lt" and truth and c - 1 <= limit) or (op == "Ge" and not truth and c - 1 <= limit):
                return True
        if b == x and a[0] == "const" and isinstance(a[1], int):
            c = a[1]
            if (op == "Lt" and not truth and c <= limit) or (op == "Ge" and truth and c <= limit) or \
               (op == "Gt" and truth and c - 1 <= limit) or (op == "Le" and not truth and c - 1 <= limit):
                return True
    return False


def auto_discharge(world, fn, s, const_only_fns):
    """Return a reason string if the site is discharged by a rule the checker verifies, else None."""
    kind = s["kind"]
    mac = s.get("mac") or fn.get("mac") or []
    if fn["kind"] in ("const", "assoc_const", "static", "anon_const", "inline_const"):
        return "CONST-ITEM: evaluated at compile time (a panic is a build error)"
    if fn["path"] in const_only_fns or any(fn["path"].startswith(p + "::{") for p in const_only_fns):
        return "CONST-FN: const fn whose every workspace caller is a const item (checked on the call graph)"
    if kind == "assert:overflow" and any(m in DERIVE_MACROS or m.rsplit("::", 1)[-1] in ("Serialize", "Deserialize") for m in mac) and (fn.get("impl") or {}).get("derived"):
        return "DERIVE: field counter of a derived serde impl, bounded by the number of fields"
    body = list(M.all_bodies(fn))[s["body"]]
    if kind in ("str_index", "index") and s["call"].get("fnargs") and s["call"]["fnargs"][-1] == "core::ops::range::RangeFull":
        return "RANGE-FULL: indexing with `..` cannot fail"
    if kind == "str_index":
        if bound_provenance(body, s) is True:
            return ("BOUND-PROVENANCE: every bound of the slice is 0, the length of the sliced string, a find/rfind position on that same string "
                    "(plus the byte length of the pattern), or a constant covered by a dominating starts_with(ASCII literal)")
    if kind == "refcell":
        r = refcell_discharge(world, fn, body, s)
        if r:
            return r
    if kind == "assert:overflow":
        t = body["blocks"][s["block"]]
        # the checked operation is the `bin` statement that feeds the assert
        for st in body["blocks"][s["block"]]["s"]:
            if st[0] == "=" and st[2][0] == "bin" and st[2][1] == "AddWithOverflow":
                a, b = st[2][2], st[2][3]
                tys = body["locals"]

                def small(o):
                    return o.get("k") == "const" and isinstance(o.get("v"), int) and 0 <= o["v"] <= 4096

                def is_usize(o):
                    return o.get("k") in ("copy", "move") and tys[M.pl_local(o["pl"])] in ("usize",) and isinstance(o["pl"], int)
                def is_entry_counter(o):
                    # `*map.entry(k).or_insert(0) += 1`: an occurrence counter behind the Entry API (one increment per item processed)
                    if o.get("k") not in ("copy", "move") or isinstance(o["pl"], int) or M.pl_proj(o["pl"]) != ["*"]:
                        return False
                    l = M.pl_local(o["pl"])
                    d = roots(body).get(l)
                    return tys[l] in ("&mut usize",) and d is not None and d[0] == "call" and \
                        M.callee_name(d[1]).rsplit("::", 1)[-1] in ("or_insert", "or_default", "or_insert_with")
                def is_modify_counter(o):
                    # `entry(k).and_modify(|count| *count += 1)`: the closure's `&mut usize` parameter is the same occurrence counter
                    if o.get("k") not in ("copy", "move") or isinstance(o["pl"], int) or M.pl_proj(o["pl"]) != ["*"]:
                        return False
                    l = M.pl_local(o["pl"])
                    return tys[l] == "&mut usize" and 1 <= l <= body.get("argc", 0) and "{closure" in fn["path"].rsplit("::", 1)[-1] and \
                        any(M.callee_name(c_).rsplit("::", 1)[-1] == "and_modify" and "Entry" in M.callee_name(c_)
                            for g_ in [world.lookup(fn["path"].rsplit("::", 1)[0])] if g_ is not None and "body" in g_ for _, c_ in M.calls(g_["body"]))
                if (small(a) and is_modify_counter(b)) or (small(b) and is_modify_counter(a)):
                    return "ADD-SMALL: occurrence counter behind Entry::and_modify plus a small constant (one increment per processed item; cannot reach usize::MAX)"
                if (small(a) and is_entry_counter(b)) or (small(b) and is_entry_counter(a)):
                    return "ADD-SMALL: occurrence counter behind the Entry API plus a small constant (one increment per processed item; cannot reach usize::MAX)"
                if (small(a) and is_usize(b)) or (small(b) and is_usize(a)):
                    defs = roots(body)
                    other = a if is_usize(a) else b
                    e = expr(body, defs, other)
                    if "parse" not in json.dumps(e):
                        return "ADD-SMALL: usize index/length/counter plus a small constant cannot exceed usize::MAX (allocations are <= isize::MAX)"
    if kind == "assert:overflow":
        # `s.matches(P).count() - 1` where the site is dominated by `s.strip_suffix(P)` / `strip_prefix(P)` being Some or `ends_with` / `starts_with` /
        # `contains(P)` being true for the same s and P: a string that ends with (starts with, contains) P has at least one match of P
        for st in body["blocks"][s["block"]]["s"]:
            if st[0] == "=" and st[2][0] == "bin" and st[2][1] == "SubWithOverflow" and st[2][3].get("k") == "const" and st[2][3].get("v") == 1:
                defs_ = roots(body)
                e_ = expr(body, defs_, st[2][2])
                if e_[0] == "call" and e_[1].endswith("Iterator::count") and e_[2] and e_[2][0][0] == "call" and e_[2][0][1].endswith("<impl str>::matches"):
                    subject = e_[2][0][2]
                    for cond, truth in dominating_guards(M.Cfg(body), body, defs_, s["block"]):
                        if cond[0] == "switch" and truth and cond[2] == (1,) and not cond[3] and cond[1][0] == "discr" and cond[1][1][0] == "call" and \
                           cond[1][1][1].rsplit("::", 1)[-1] in ("strip_suffix", "strip_prefix") and cond[1][1][2] == subject:
                            return "COUNT-NONZERO: the count of matches of a pattern the string was just found to end / start with is at least 1"
                        if cond[0] == "call" and truth and cond[1].rsplit("::", 1)[-1] in ("ends_with", "starts_with", "contains") and "<impl str>" in cond[1] and cond[2] == subject:
                            return "COUNT-NONZERO: the count of matches of a pattern the string was just found to end / start with / contain is at least 1"
    if kind in ("assert:rem_zero", "assert:div_zero") and s.get("cond") is not None:
        c_ = expr(body, roots(body), s["cond"])          # Eq(divisor, 0), asserted false
        if c_[0] == "bin" and c_[1] == "Eq" and any(o[0] == "const" and isinstance(o[1], int) and o[1] != 0 for o in c_[2:4]) and \
           any(o[0] == "const" and o[1] == 0 for o in c_[2:4]):
            return "CONST-DIVISOR: the divisor is a non-zero constant"
    if kind == "narrow_cast":
        cfg = M.Cfg(body)
        defs = roots(body)
        x = expr(body, defs, s["stmt"][2][2])
        to = s["stmt"][2][4]
        limit = (1 << P.WIDTH[to]) - 1 if to[0] == "u" else (1 << (P.WIDTH[to] - 1)) - 1
        if guard_bounds(dominating_guards(cfg, body, defs, s["block"]), x, limit):
            return f"GUARD: cast operand is dominated by a test bounding it by {limit}"
        if x[0] == "const" and isinstance(x[1], int) and x[1] <= limit:
            return "GUARD: constant operand fits"
    if kind == "assert:bounds":
        if ne_len_guard(body, s, strict=True) is True:
            return "GUARD: dominated by an `index < len` test of the same index and slice, with no write to the index between the test and the site"
        cfg = M.Cfg(body)
        defs = roots(body)
        cond = expr(body, defs, s["cond"])
        # cond = Lt(index, len)
        if cond[0] == "bin" and cond[1] == "Lt":
            idx, ln = cond[2], cond[3]
            guards = dominating_guards(cfg, body, defs, s["block"])
            for g, truth in guards:
                # is_empty(s) == false where len is the length of (bytes of) s
                if g[0] == "call" and g[1].endswith("::is_empty") and not truth and _const_le(idx, 0):
                    subj = g[2][0]
                    # `len` has to be the length of the tested value itself (behind as_bytes / deref / borrow wrappers), not of something derived from
                    # it: `s.is_empty()` says nothing about the pieces `s.split_once('/')` returns
                    def _peel(e_):
                        while isinstance(e_, (list, tuple)) and len(e_) >= 3:
                            if e_[0] == "un" and e_[1] in ("PtrMetadata", "Len"):
                                e_ = e_[2]
                            elif e_[0] == "call" and e_[1].rsplit("::", 1)[-1] in ("as_bytes", "deref", "as_ref", "as_str", "borrow", "as_slice", "len") and len(e_[2]) == 1:
                                e_ = e_[2][0]
                            elif e_[0] in ("ref", "deref", "copy", "move") and len(e_) == 2:
                                e_ = e_[1]
                            else:
                                break
                        return e_
                    if json.dumps(_peel(ln)) == json.dumps(_peel(subj)):
                        return "GUARD: index 0 dominated by a non-emptiness test of the same value"
                if g[0] == "bin" and truth and g[1] == "Lt" and g[2] == idx and g[3] == ln:
                    return "GUARD: dominated by the same index < len test"
                if g[0] == "bin" and idx[0] == "const" and isinstance(idx[1], int):
                    if g[2] == ln and g[3][0] == "const" and isinstance(g[3][1], int):
                        c = g[3][1]
                        if (g[1] == "Gt" and truth and c >= idx[1]) or (g[1] == "Ge" and truth and c > idx[1]) or \
                           (g[1] == "Ne" and truth and c == 0 and idx[1] == 0) or (g[1] == "Eq" and not truth and c == 0 and idx[1] == 0):
                            return "GUARD: constant index dominated by a length test"
    return None


def _len_of(e):
    """The slice/str whose length `e` denotes, or None."""
    if e[0] == "un" and e[1] == "PtrMetadata":
        return e[2]
    if e[0] == "call" and e[1].rsplit("::", 1)[-1] == "len" and len(e[2]) == 1:
        return e[2][0]
    return None


def _strip(e):
    # as_bytes / deref views of the same buffer have the same length
    while e[0] == "call" and e[1].rsplit("::", 1)[-1] in ("as_bytes", "as_str", "deref", "as_ref", "borrow") and len(e[2]) == 1:
        e = e[2][0]
    return e


def ne_len_guard(body, s, strict=False):
    """True if the bounds assertion Lt(idx, len(X)) at site `s` is dominated by a test excluding idx == len(X) (Eq false, Ne true, Lt true,
    Ge false with the same idx expression and the same X) and no block between that test and the site writes through the index's root or
    passes it to a call. Otherwise a short explanation string."""
    cfg = M.Cfg(body)
    defs = roots(body)
    cond = expr(body, defs, s["cond"])
    if not (cond[0] == "bin" and cond[1] == "Lt"):
        return "the assertion is not index < len"
    idx, ln = cond[2], cond[3]
    X = _len_of(ln)
    if X is None:
        return "the asserted length is not the length of a slice"
    X = _strip(X)
    dom = cfg.dominators()
    found = None
    for d in dom.get(s["block"], []):
        if d == s["block"]:
            continue
        t = body["blocks"][d]["t"]
        if t[0] != "switch" or t[4] != "bool":
            continue
        g = expr(body, defs, t[1])
        if g[0] != "bin" or g[1] not in ("Eq", "Ne", "Lt", "Ge", "Gt", "Le"):
            continue
        a, b, op = g[2], g[3], g[1]
        if b == idx and _len_of(a) is not None:     # len OP idx  ->  idx OP' len
            a, b, op = b, a, {"Eq": "Eq", "Ne": "Ne", "Lt": "Gt", "Gt": "Lt", "Le": "Ge", "Ge": "Le"}[op]
        Y = _len_of(b)
        if a != idx or Y is None or _strip(Y) != X:
            continue
        false_t = [tb for v, tb in t[2] if v == 0]
        true_t = t[3] if false_t else None
        # which edge excludes idx == len ?  Eq:false, Ne:true, Lt:true, Ge:false (Gt/Le say nothing useful)
        edge = {"Eq": false_t[0] if false_t else None, "Ne": true_t, "Lt": true_t, "Ge": false_t[0] if false_t else None}.get(op)
        if edge is None or (strict and op not in ("Lt", "Ge")):
            continue
        if edge == s["block"] or cfg.dominates(edge, s["block"]):
            found = (d, edge)
    if found is None:
        return "no such test dominates the site"
    d, edge = found
    root = idx
    while root[0] in ("field", "proj", "variant"):
        root = root[1]
    if root[0] != "arg" and root[0] != "local":
        return True
    rl = root[1]
    if strict:
        # the test alone must imply the assertion: the index (a possibly re-assigned local, e.g. a loop counter) is not written, borrowed
        # mutably or handed to a call on any way from the test's edge to the site that does not go through the test again
        succ = {i: M.successors(b_) for i, b_ in enumerate(body["blocks"])}

        def reach(srcs, nxt):
            seen, todo = set(), list(srcs)
            while todo:
                x = todo.pop()
                if x in seen or x == d:
                    continue
                seen.add(x)
                todo += nxt(x)
            return seen
        pred = {}
        for a_, bs_ in succ.items():
            for b_ in bs_:
                pred.setdefault(b_, []).append(a_)
        fwd = reach([edge], lambda x: [] if x == s["block"] else succ[x])
        bwd = reach([s["block"]], lambda x: pred.get(x, []))
        for b in fwd & bwd:
            blk = body["blocks"][b]
            for st in blk["s"]:
                if st[0] == "=" and M.pl_local(st[1]) == rl:
                    return "the index is written between the test and the site"
                if st[0] == "=" and st[2][0] in ("ref", "rawptr") and M.pl_local(st[2][2]) == rl and "mut" in str(st[2][1]).lower():
                    return "the index is borrowed mutably between the test and the site"
            t = blk["t"]
            if t[0] == "call" and b != s["block"]:
                if isinstance(t[1].get("dest"), int) and t[1]["dest"] == rl:
                    return "the index is written between the test and the site"
        return True
    # blocks between the guard edge and the site
    between = [b for b in range(len(body["blocks"])) if (b == edge or cfg.dominates(edge, b)) and cfg.reaches(b, [s["block"]])]
    for b in between:
        blk = body["blocks"][b]
        for st in blk["s"]:
            if st[0] == "=" and M.pl_local(st[1]) == rl and (not isinstance(st[1], int)):
                return "the index is written between the test and the site"
        t = blk["t"]
        if t[0] == "call" and b != s["block"]:
            for o in t[1]["args"]:
                if o.get("k") in ("copy", "move") and M.pl_local(o["pl"]) == rl:
                    return "the index reference is passed to a call between the test and the site"
    return True


def const_only_functions(world):
    """const fns all of whose callers (over the loaded crates) are const items or other such const fns."""
    callers = {}
    for fn in world.all_fns():
        for body in M.all_bodies(fn):
            for _, c in M.calls(body):
                callers.setdefault(M.callee_name(c), set()).add(fn["path"])
                if c.get("fn") and c.get("fn") != M.callee_name(c):
                    callers.setdefault(c["fn"], set()).add(fn["path"])
    kinds = {}
    for fn in world.all_fns():
        kinds.setdefault(fn["path"], fn)
    cand = {fn["path"] for fn in world.all_fns() if fn.get("const_fn")}
    changed = True
    while changed:
        changed = False
        for p in list(cand):
            cs = callers.get(p, set())
            okc = True
            for cpath in cs:
                cf = kinds.get(cpath)
                root = cpath.split("::{")[0]
                rf = kinds.get(root, cf)
                if cf is None:
                    okc = False
                elif rf["kind"] in ("const", "assoc_const", "static", "anon_const", "inline_const") or root in cand:
                    continue
                else:
                    okc = False
            if not cs or not okc:
                # a const fn nobody calls from const context: keep it as a runtime function
                if not okc or not cs:
                    cand.discard(p)
                    changed = True
    return cand


def source_line(repo, fn, line):
    try:
        with open(os.path.join(repo, fn["span"][0])) as f:
            return f.readlines()[line - 1].strip()
    except Exception:
        return ""


# ------------------------------------------------------------------------------------------------
# RefCell guards: no call that may borrow (conflictingly) while a guard is live
# ------------------------------------------------------------------------------------------------
_MAY_BORROW = {}


def may_borrow(world):
    """fn path -> subset of {'borrow', 'borrow_mut'} reachable through workspace calls (closures count for their parent)."""
    key = id(world)
    if key in _MAY_BORROW:
        return _MAY_BORROW[key]
    direct, edges = {}, {}
    for fn in world.all_fns():
        p = fn["path"]
        d = set()
        e = set()
        for body in M.all_bodies(fn):
            for _, c in M.calls(body):
                name = M.callee_name(c)
                if name.startswith("core::cell::RefCell::<T>::borrow"):
                    d.add(name.rsplit("::", 1)[-1])
                elif (c.get("rescrate") or "").startswith("ruma"):
                    e.add(name)
                elif c.get("reskind") == "unresolved" and c.get("trait", "").startswith("ruma"):
                    e.add("trait:" + c["fn"])
            # closures constructed here may be called by whatever they are passed to
            for b in body["blocks"]:
                for st in b["s"]:
                    if st[0] == "=" and st[2][0] == "agg" and st[2][1].get("k") == "closure":
                        e.add(st[2][1]["def"])
        direct[p] = d
        edges[p] = e
    # trait:<method> -> all impl fns of that method name in the workspace
    by_method = {}
    for fn in world.all_fns():
        imp = fn.get("impl") or {}
        if imp.get("trait"):
            by_method.setdefault("trait:" + imp["trait"] + "::" + fn["path"].rsplit("::", 1)[-1], set()).add(fn["path"])
    res = {p: set(d) for p, d in direct.items()}
    changed = True
    while changed:
        changed = False
        for p, es in edges.items():
            for e in es:
                targets = by_method.get(e, ()) if e.startswith("trait:") else (e,)
                for t in targets:
                    add = res.get(t, set()) - res[p]
                    if add:
                        res[p] |= add
                        changed = True
    _MAY_BORROW[key] = res
    return res


def refcell_discharge(world, fn, body, s):
    c = s["call"]
    guard = c["dest"]
    if not isinstance(guard, int) or c.get("target") is None:
        return None
    kind = s["detail"]  # borrow | borrow_mut
    cfg = M.Cfg(body)
    # blocks where the guard is live: from the call's target until a drop / move of the guard
    live, st = set(), [c["target"]]
    while st:
        b = st.pop()
        if b in live:
            continue
        live.add(b)
        t = body["blocks"][b]["t"]
        if t[0] == "drop" and t[1] == guard:
            continue
        moved = False
        if t[0] == "call":
            for a in t[1]["args"]:
                if a.get("k") == "move" and a["pl"] == guard:
                    moved = True
        if moved:
            continue
        st.extend(cfg.succ[b])
    mb = may_borrow(world)
    for b in live:
        t = body["blocks"][b]["t"]
        if t[0] != "call":
            continue
        call = t[1]
        name = M.callee_name(call)
        if name.startswith("core::cell::RefCell::<T>::borrow"):
            other = name.rsplit("::", 1)[-1]
            if kind == "borrow_mut" or other == "borrow_mut":
                return None
            continue
        callees = []
        if (call.get("rescrate") or "").startswith("ruma"):
            callees.append(name)
        # closures passed to the call
        for a in call["args"]:
            pass
        for cal in callees:
            eff = mb.get(cal, set())
            if (kind == "borrow_mut" and eff) or (kind == "borrow" and "borrow_mut" in eff):
                return None
    # closures created while the guard is live
    for b in live:
        for stt in body["blocks"][b]["s"]:
            if stt[0] == "=" and stt[2][0] == "agg" and stt[2][1].get("k") == "closure":
                eff = mb.get(stt[2][1]["def"], set())
                if (kind == "borrow_mut" and eff) or (kind == "borrow" and "borrow_mut" in eff):
                    return None
    return f"REFCELL: while the {kind} guard is live no workspace function (or closure) that may take a conflicting borrow is called"


# ------------------------------------------------------------------------------------------------
# rule drivers
# ------------------------------------------------------------------------------------------------
def site_rule(ctx, world, crate_names, rule, fn_filter=None, floor=None, report_stale=False, extra_table=False):
    """Every site is auto-discharged or reviewed; anything else is a violation keyed by the site (no line numbers)."""
    table = load_table(extra_table)
    const_only = const_only_functions(world)
    n_auto, n_table, seen_keys = 0, 0, set()
    by_cat = {}
    inv = inventory(world, crate_names, fn_filter)
    all_keys = {k for _, _, k in inv}
    # reviewed sites whose function no longer has them: candidates for "moved into a private helper" (see moved_site)
    stale = {k for k in table if k not in all_keys and not table[k].get("requires")}
    callers = None
    moved_owner, moved_used = {}, {}
    for fn, s, key in inv:
        seen_keys.add(key)
        r = auto_discharge(world, fn, s, const_only)
        where = f"{fn['span'][0]}:{s['line']}"
        if r:
            n_auto += 1
            by_cat[r.split(":")[0]] = by_cat.get(r.split(":")[0], 0) + 1
            ctx.ok(rule, f"{rule}:{key}", where, r, nontrivial=not r.startswith("DERIVE"))
        elif key in table:
            n_table += 1
            e = table[key]
            by_cat[e["cat"]] = by_cat.get(e["cat"], 0) + 1
            # a reviewed reason that names a dominating `index != len` test is re-verified on every run
            if e.get("requires") == "ne-len-guard":
                body = list(M.all_bodies(fn))[s["body"]]
                g = ne_len_guard(body, s)
                if g is not True:
                    ctx.violation(rule, f"{rule}:{key}:guard-lost", where,
                                  f"the reviewed reason for this {s['kind']} site ({e['reason'][:90]}...) requires a dominating `index != len` / "
                                  f"`index < len` test of the same index and slice with no write to the index in between; {g}: the index can equal the "
                                  f"length here (out-of-bounds panic on input that ends at this point)")
                    continue
            # a reviewed reason that rests on another call of the same function (e.g. "the date came out of a successful from_unix_timestamp")
            if str(e.get("requires", "")).startswith("co-call:"):
                need = e["requires"][len("co-call:"):]
                fam = [fn] + [g for g in world.all_fns() if "body" in g and g["path"].startswith(fn["path"] + "::{closure")]
                if not any(need in M.callee_name(c) for g in fam for b_ in M.all_bodies(g) for _, c in M.calls(b_)):
                    ctx.violation(rule, f"{rule}:{key}:premise-lost", where,
                                  f"the reviewed reason for this {s['kind']} site ({e['reason'][:110]}...) rests on a call of `{need}` in the same function, which is gone")
                    continue
            ctx.ok(rule, f"{rule}:{key}", where, f"{e['cat']}: {e['reason']}" + (" [guard re-verified]" if e.get("requires") else ""))
        else:
            if callers is None:
                callers = {}
                for a_, bs_ in call_graph(world).items():
                    for b_ in bs_:
                        callers.setdefault(key_path(b_), set()).add(key_path(a_))
            # a helper may gather the reviewed sites of several callers (`algorithm()`'s `&s[..i]` and `key_name()`'s `&s[i + 1..]` in one
            # `split_at_colon`): the stale keys it stands for stay available to the other sites of the SAME helper, up to their number
            kp_ = key_path(fn["path"])
            pool = stale | {k_ for k_, owner in moved_owner.items() if owner == kp_}
            moved = moved_site(world, fn, key, pool, callers)
            if moved:
                kd_ = tuple(key.split("|", 2)[1:3])
                kd_ = (kd_[0], kd_[1].split("#")[0])
                total_ = len({k_ for k_ in pool if k_.split("|")[1] == kd_[0] and k_.split("|", 2)[2].split("#")[0] == kd_[1]
                              and any(k_.split("|")[0] == c_ for c_ in callers.get(kp_, ()))})
                used_ = moved_used.get((kp_, kd_), 0)
                if used_ >= total_:
                    moved = None
                else:
                    moved_used[(kp_, kd_)] = used_ + 1
            if moved:
                n_table += 1
                for k_ in moved:
                    stale.discard(k_)
                    moved_owner[k_] = kp_
                e = table[moved[0]]
                by_cat[e["cat"]] = by_cat.get(e["cat"], 0) + 1
                ctx.ok(rule, f"{rule}:{key}", where, f"{e['cat']}: reviewed site moved into this private helper, whose only callers are the reviewed function(s) "
                                                     f"{[k_.split('|')[0][-60:] for k_ in moved]}: {e['reason']}")
                continue
            ctx.violation(rule, f"{rule}:{key}", where,
                          f"unreviewed {s['kind']} site ({s['detail']}) `{source_line(world.facts and __import__('rsa.facts', fromlist=['REPO']).REPO, fn, s['line'])[:110]}`: "
                          f"not discharged by a dominating guard and not in spec/panic_allow.json")
    ctx.count(f"{rule}.sites_auto_discharged", n_auto)
    ctx.count(f"{rule}.sites_reviewed", n_table)
    for c, n in by_cat.items():
        ctx.count(f"{rule}.cat.{c}", n)
    if floor:
        ctx.floor(f"{rule} sites", n_auto + n_table, floor)
    if report_stale:
        for k in table:
            if k not in seen_keys:
                print(f"note: reviewed site `{k}` no longer exists (stale table entry)")
    return seen_keys


def call_graph(world):
    edges = {}
    for fn in world.all_fns():
        p = fn["path"]
        e = edges.setdefault(p, set())
        for body in M.all_bodies(fn):
            for _, c in M.calls(body):
                n = M.callee_name(c)
                if n in world.fn_index:
                    e.add(n)
                elif c.get("fn") in world.fn_index:
                    e.add(c["fn"])
                else:
                    e.update(_bridge(world, c.get("fn") or "", c.get("fnargs") or []))
                # fn items passed as values (`.map(TryInto::try_into)`, `.and_then(parse_x)`)
                for o in c["args"]:
                    if o.get("k") == "const" and o.get("fn"):
                        if o.get("res") in world.fn_index:
                            e.add(o["res"])
                        elif o["fn"] in world.fn_index:
                            e.add(o["fn"])
                        else:
                            e.update(_bridge(world, o["fn"], o.get("fnargs") or []))
            for b in body["blocks"]:
                for st in b["s"]:
                    if st[0] == "=" and st[2][0] == "agg" and st[2][1].get("k") == "closure":
                        e.add(st[2][1]["def"])
    return edges


_BRIDGES = {   # core blanket impls that dispatch to a (possibly workspace) trait impl: callee -> (trait, method, self index, param index)
    "core::convert::TryInto::try_into": ("core::convert::TryFrom", "try_from", 1, 0),
    "core::convert::Into::into": ("core::convert::From", "from", 1, 0),
}


_IMPL_INDEX = {}


def _impl_index(world):
    """(trait, param type, self type, method) -> fn path, for both spellings rustc uses for impl items."""
    key = id(world)
    if key not in _IMPL_INDEX:
        idx = {}
        for p in world.fn_index:
            m = re.match(r"^<(.+) as ([\w:]+)<(.+)>>::(\w+)$", p)
            if m:
                idx[(m.group(2), m.group(3), m.group(1), m.group(4))] = p
                continue
            m = re.search(r"<impl ([\w:]+)<(.+)> for (.+)>::(\w+)$", p)
            if m:
                idx[(m.group(1), m.group(2), m.group(3), m.group(4))] = p
        _IMPL_INDEX[key] = idx
    return _IMPL_INDEX[key]


def _bridge(world, fn, fnargs):
    b = _BRIDGES.get(fn)
    if not b or len(fnargs) < 2:
        return set()
    trait, meth, si, pi = b
    hit = _impl_index(world).get((trait, fnargs[pi], fnargs[si], meth))
    return {hit} if hit else set()


def recursive_sccs(edges):
    index, low, stack, on, out = {}, {}, [], set(), []
    counter = [0]
    for root in list(edges):
        if root in index:
            continue
        work = [(root, iter(sorted(edges.get(root, ()))))]
        index[root] = low[root] = counter[0]
        counter[0] += 1
        stack.append(root)
        on.add(root)
        while work:
            v, it = work[-1]
            advanced = False
            for x in it:
                if x not in index:
                    index[x] = low[x] = counter[0]
                    counter[0] += 1
                    stack.append(x)
                    on.add(x)
                    work.append((x, iter(sorted(edges.get(x, ())))))
                    advanced = True
                    break
                elif x in on:
                    low[v] = min(low[v], index[x])
            if advanced:
                continue
            work.pop()
            if work:
                u = work[-1][0]
                low[u] = min(low[u], low[v])
            if low[v] == index[v]:
                comp = []
                while True:
                    x = stack.pop()
                    on.discard(x)
                    comp.append(x)
                    if x == v:
                        break
                if len(comp) > 1 or v in edges.get(v, ()):
                    out.append(sorted(comp))
    return out


# ---- re-derivation of string-slice bounds (reviewed category G2) -----------------------------------------------------------------

def _pat_len(e):
    """Byte length of a search pattern operand (char or &str literal), or None."""
    if e[0] == "const" and isinstance(e[1], str):
        return len(e[1].encode())
    return None


def _find_of(e, X):
    """If `e` is the position found by find/rfind on (a view of) X, return the pattern length (or 0 if unknown), else None."""
    PASS = ("unwrap_or", "unwrap_or_else", "unwrap", "expect", "unwrap_or_default", "branch", "ok_or", "ok_or_else", "ok", "get", "new", "try_from",
            "try_into", "from", "into")      # value-preserving on the success path (Option/Result plumbing, NonZero, int conversions)
    while e[0] in ("field", "variant", "cast") or (e[0] == "call" and e[1].rsplit("::", 1)[-1] in PASS and e[2]):
        e = e[1] if e[0] in ("field", "variant") else (e[2] if e[0] == "cast" else e[2][0])
    if e[0] == "call" and e[1].rsplit("::", 1)[-1] in ("find", "rfind") and len(e[2]) == 2 and _strip(e[2][0]) == X:
        return _pat_len(e[2][1]) or 0
    return None


def _bound_ok(b, X, guards, is_start):
    """Is the slice bound `b` provably a char boundary <= len(X)?  Returns a reason or None."""
    if b[0] == "const" and b[1] == 0:
        return "0"
    ln = _len_of(b)
    if ln is not None and _strip(ln) == X:
        return "len"
    if _find_of(b, X) is not None:
        return "find"
    # find + k with k == byte length of the (one-byte / literal) pattern, through the checked-add tuple
    e = b
    if e[0] == "field" and e[1][0] == "bin":
        e = e[1]
    if e[0] == "bin" and e[1] in ("Add", "AddWithOverflow", "AddUnchecked"):
        a, c = e[2], e[3]
        if c[0] != "const":
            a, c = c, a
        if c[0] == "const" and isinstance(c[1], int):
            pl = _find_of(a, X)
            if pl is not None and pl == c[1] and pl > 0:
                return "find+patlen"
            inner = _bound_ok(a, X, guards, is_start)
            if inner in ("find+patlen",) and False:
                return None
    if b[0] == "const" and isinstance(b[1], int) and b[1] > 0:
        for g, truth in guards:
            if truth and g[0] == "call" and g[1].rsplit("::", 1)[-1] == "starts_with" and len(g[2]) == 2 and _strip(g[2][0]) == X:
                lit = g[2][1]
                if lit[0] == "const" and isinstance(lit[1], str) and lit[1].isascii() and b[1] <= len(lit[1]):
                    return "prefix"
    return None


def _assignments(body, defs, l):
    """Expressions of all assignments to the plain local `l` (None if it is ever borrowed mutably or written through a projection)."""
    out = []
    for bi, blk in enumerate(body["blocks"]):
        for st in blk["s"]:
            if st[0] != "=":
                continue
            if st[2][0] in ("ref", "rawptr") and M.pl_local(st[2][2]) == l and "mut" in str(st[2][1]).lower():
                return None
            if M.pl_local(st[1]) == l:
                if not isinstance(st[1], int):
                    return None
                d2 = dict(defs)
                d2[l] = ("rv", st[2], bi)
                out.append(place_expr(body, d2, l))
        t = blk["t"]
        if t[0] == "call" and isinstance(t[1].get("dest"), int) and t[1]["dest"] == l:
            d2 = dict(defs)
            d2[l] = ("call", t[1], bi)
            out.append(place_expr(body, d2, l))
    return out


def bound_provenance(body, s):
    """True if every bound of the string slice at site `s` is 0, len(X), a find/rfind position on X (optionally + the pattern's byte
    length), or a constant covered by a dominating starts_with(X, ascii literal). Otherwise an explanation."""
    cfg = M.Cfg(body)
    defs = roots(body)
    c = s["call"]
    if len(c["args"]) != 2:
        return "not an index call"
    X = _strip(expr(body, defs, c["args"][0]))
    r = expr(body, defs, c["args"][1])
    if r[0] != "agg" or "ops::range::Range" not in r[1]:
        return f"range is not a literal range ({r[0]})"
    kind = r[1].rsplit("::", 1)[-1]
    bounds = list(r[2])
    names = {"Range": ["start", "end"], "RangeFrom": ["start"], "RangeTo": ["end"], "RangeInclusive": None, "RangeToInclusive": None}.get(kind)
    if names is None or len(names) != len(bounds):
        return f"unsupported range kind {kind}"
    guards = dominating_guards(cfg, body, defs, s["block"])
    why = []
    for nm, b in zip(names, bounds):
        ok = _bound_ok(b, X, guards, nm == "start")
        if ok is None and b[0] == "local":
            # a local assigned on several paths (`match s.find(':') { Some(i) => i, None => s.len() }`): every assignment must be an accepted bound
            alts = _assignments(body, defs, b[1])
            if alts and all(_bound_ok(a_, X, guards, nm == "start") is not None for a_ in alts):
                ok = "phi(" + ",".join(sorted({_bound_ok(a_, X, guards, nm == "start") for a_ in alts})) + ")"
        if ok is None:
            return f"the {nm} bound is not derived from find/len/a matched prefix of the sliced string"
        why.append(f"{nm}:{ok}")
    if len(bounds) == 2 and not (why[0].endswith(":0") or why[0].endswith(":prefix")):
        # start <= end must also hold; only the simple shapes are accepted
        if not (why[1].endswith(":len")):
            return "start <= end is not evident"
    return True if True else why
