"""C19 — string-valued protocol enums: From/AsRef tables are mutually inverse, fallback verbatim, serde/Display/Ord agree with the string form."""
import json, os, re
from .. import dex as D, world as W, mir as M, strenum as S
from . import tables as T

LEVEL = "other"
EXPLANATION = (
    "Every enum of the analysed crates that has the derived (FromString/AsRefStr/StringEnum) or generated (event type enums) string "
    "conversions is discovered from the facts, its `From` table F (literal -> variant, prefix arms, fallback) and `AsRef<str>` table G "
    "(variant -> literal | prefix + payload | custom payload) are extracted by DEX from MIR, and checked: F(G(v)) = v for every variant, "
    "G(F(s)) = s for every canonical literal, aliases map to a variant whose canonical spelling differs, prefix arms keep exactly the "
    "remainder of the input and G re-concatenates the same prefix, the fallback stores the input verbatim in _Custom and G returns it "
    "unchanged; Serialize/Display/Debug go through the string form, Deserialize through From; a derived structural Ord/PartialOrd "
    "(variant order, not string order) is reported; spellings are compared with the frozen table spec/string_enums.json. "
    "quick = default-feature crates, thorough adds the API crates with client+server features (configuration B).")
CRATES_A = ['ruma_common', 'ruma_events', 'ruma_state_res', 'ruma_signatures', 'ruma_federation_api', 'ruma_appservice_api',
            'ruma_identity_service_api', 'ruma_push_gateway_api', 'ruma_html']
CRATES_B = CRATES_A + ['ruma_client_api']
EXCLUDED = {"ruma_common::identifiers::room_version_id::RoomVersionId": "validated string enum, covered by C10 (excluded by the property)"}


def impl_fn(w, e, trait_method):
    l = w.fn_index.get(f"<{e} as {trait_method}")
    return l[0] if l else None


def calls_of(fn):
    return [M.callee_name(c) for body in M.all_bodies(fn) for _, c in M.calls(body)]


def run(ctx):
    thorough = ctx.tier == "thorough"
    ctx.rule("C19.conversions", "every other string-typed From impl of a string enum (From<String>, From<Box<str>>, ..) delegates to the primary conversion and builds no variant itself")
    fx = ctx.facts("B" if thorough else "A")
    w = W.World(fx, CRATES_B if thorough else CRATES_A)
    enums = S.discover(w)
    frozen_path = os.path.join(T.SPEC, "string_enums.json")
    frozen = json.load(open(frozen_path))["enums"] if os.path.exists(frozen_path) else {}
    ctx.rule("C19.tables", "F(G(v)) = v for every variant; G(F(lit)) = lit for canonical literals; aliases only onto variants with another canonical spelling; no panic path")
    ctx.rule("C19.fallback", "unknown strings are stored verbatim: From yields _Custom(PrivOwnedStr(input)) and AsRef returns that payload")
    ctx.rule("C19.prefix", "wildcard variants: From keeps the remainder after the prefix, AsRef writes the same prefix followed by the payload")
    ctx.rule("C19.serde", "Serialize / Display / Debug use the string form (as_ref / to_cow_str); Deserialize goes through From")
    ctx.rule("C19.order", "equality and ordering agree with the string form: Ord/PartialOrd are either absent or compare as_ref(); a derived structural ordering is reported; "
                          "a non-derived PartialEq compares as_ref() of both sides with str's own equality")
    ctx.rule("C19.spellings", "wire spellings equal the frozen reference table (changing or dropping a spelling is a behaviour change; new ones are allowed)")
    n_done, n_hand = 0, 0
    for e, d in sorted(enums.items()):
        if e in EXCLUDED:
            continue
        if d["kind"] == "hand":
            n_hand += 1
            continue
        short = e
        where = w.where(d["from"])
        try:
            Fe, Fp, fb, G, problems = S.tables(w, e, d)
        except D.Unrecognised as ex:
            ctx.unrecognised("C19.tables", f"C19.tables:{short}", where, str(ex))
            continue
        n_done += 1
        for pr in problems:
            ctx.violation("C19.tables", f"C19.tables:{short}:shape", where, pr)
        # G o F and F o G
        bad = []
        canon = {v: g[1] for v, g in G.items() if g[0] == "lit"}
        for v, s_ in canon.items():
            if Fe.get(s_) != v:
                bad.append(f"{v}.as_ref() = {s_!r} but From({s_!r}) = {Fe.get(s_, '_Custom')}")
        for lit, v in Fe.items():
            if v not in G:
                bad.append(f"From({lit!r}) = {v} which has no string form")
            elif G[v][0] == "lit" and G[v][1] != lit and Fe.get(G[v][1]) != v:
                bad.append(f"alias {lit!r} -> {v} whose canonical spelling {G[v][1]!r} does not map back")
        adt = w.adts.get(e)
        if adt:
            for v in adt["variants"]:
                if v["name"] not in G:
                    bad.append(f"variant {v['name']} has no string form")
        unknown = [(v, g) for v, g in G.items() if g[0] == "?"]
        for v, g in unknown:
            bad.append(f"{v}.as_ref() is {g[1]}")
        ctx.check(not bad, "C19.tables", f"C19.tables:{short}", where, ok_msg=f"{len(canon)} variants, {len(Fe) - len(canon)} aliases", bad_msg="; ".join(bad)[:400])
        # fallback
        ctx.check(fb and G.get("_Custom") == ("custom",), "C19.fallback", f"C19.fallback:{short}", where,
                  bad_msg=f"fallback verbatim={fb}, as_ref(_Custom)={G.get('_Custom')}")
        # prefixes
        for prefix, var in Fp:
            g = G.get(var)
            txt, payload_ok = (None, False)
            if g and g[0] == "prefix_fmt":
                txt, payload_ok = S.prefix_of_format(w, d, var)
            ctx.check(txt == prefix + "\0" and payload_ok, "C19.prefix", f"C19.prefix:{short}:{var}", where,
                      bad_msg=f"From strips {prefix!r}, AsRef writes {txt!r} (payload field used: {payload_ok})")
        for v, g in G.items():
            if g[0] == "prefix_fmt" and v not in [x[1] for x in Fp]:
                ctx.violation("C19.prefix", f"C19.prefix:{short}:{v}", where, f"{v} is written with a prefix but no prefix arm reads it back")
        # serde / display
        asref_names = {d["asref"]["path"], f"<{e} as core::convert::AsRef<str>>::as_ref"}
        for tr, need in (("serde_core::ser::Serialize>::serialize", asref_names), ("core::fmt::Display>::fmt", asref_names), ("core::fmt::Debug>::fmt", asref_names)):
            fn = impl_fn(w, e, tr)
            if fn is None:
                continue
            cs = set(calls_of(fn))
            ctx.check(bool(cs & need), "C19.serde", f"C19.serde:{short}:{tr.split('>')[0].rsplit('::', 1)[-1]}", w.where(fn),
                      bad_msg=f"does not go through the string form; calls {sorted(cs)[:4]}")
        fn = impl_fn(w, e, "serde_core::de::Deserialize<'de>>::deserialize")
        if fn is not None:
            cs = calls_of(fn)
            via_from = any(c.startswith(f"<{e} as core::convert::From<") for c in cs) or any(c == d["from"]["path"] for c in cs)
            ctx.check(via_from, "C19.serde", f"C19.serde:{short}:Deserialize", w.where(fn), bad_msg=f"Deserialize does not go through From: {cs[:5]}")
        # other string-typed conversions delegate to the primary one (a second table could disagree with it, e.g. forget the aliases)
        prim = d["from"]["path"]
        for pth, lst in w.fn_index.items():
            if not pth.startswith(f"<{e} as core::convert::From<") or pth == prim or not pth.endswith(">>::from"):
                continue
            src = pth[len(f"<{e} as core::convert::From<"):-len(">>::from")]
            if not re.search(r"(^|[^\w])(String|str|Cow<'\w+, str>|Box<str>)($|[^\w])", src):
                continue
            fn2 = lst[0]
            if "body" not in fn2:
                continue
            cs2 = calls_of(fn2)
            delegates = any(c.startswith(f"<{e} as core::convert::From<") for c in cs2)
            builds = any(st[0] == "=" and st[2][0] == "agg" and st[2][1].get("k") == "adt" and st[2][1].get("adt") == e
                         for b in fn2["body"]["blocks"] for st in b["s"])
            ctx.check(delegates and not builds, "C19.conversions", f"C19.conversions:{short}:From<{src}>", w.where(fn2),
                      bad_msg=f"From<{src}> for {short} builds variants itself instead of delegating to the primary conversion: the two tables can disagree "
                              f"(declared aliases, wildcard prefixes), so From<&str> and From<{src}> give different values for the same text")
        # ordering
        structural = []
        for tr in ("core::cmp::Ord>::cmp", "core::cmp::PartialOrd>::partial_cmp"):
            fn = impl_fn(w, e, tr)
            if fn is None:
                continue
            cs = set(calls_of(fn))
            tname = tr.split('>')[0].rsplit('::', 1)[-1]
            if (fn.get("impl") or {}).get("derived") and not (cs & asref_names):
                structural.append((tname, fn))
            else:
                # the string forms themselves are compared: as_ref() of both sides goes straight into str's cmp / partial_cmp (or into this type's own
                # Ord), with nothing in between (no case folding, no byte iterators, no prefix)
                other = sorted(c for c in cs - asref_names if not re.search(r"impl core::cmp::(Ord|PartialOrd) for str>::(cmp|partial_cmp)$", c) and
                               not re.search(r"^<" + re.escape(e) + r" as core::cmp::(Ord|PartialOrd)>::(cmp|partial_cmp)$", c) and
                               not re.search(r"^<str as core::cmp::(Ord|PartialOrd)>::(cmp|partial_cmp)$", c))
                ctx.check(bool(cs & asref_names) and not other, "C19.order", f"C19.order:{short}:{tname}", w.where(fn),
                          bad_msg=f"ordering does not compare the string form as it is: {[c.rsplit('::', 2)[-2:] for c in other][:4] or sorted(cs)[:4]}")
        # equality: derived structural equality agrees with the string form (the tables are a bijection, _Custom never holds a known spelling);
        # a hand-written / PartialEqAsRefStr equality must compare the two string forms exactly
        for tr in ("core::cmp::PartialEq>::eq", "core::cmp::PartialEq>::ne"):
            fn = impl_fn(w, e, tr)
            if fn is None:
                continue
            cs = set(calls_of(fn))
            if (fn.get("impl") or {}).get("derived") and not (cs & asref_names):
                continue        # the built-in structural derive (proc-macro derives carry #[automatically_derived] too, but go through as_ref)
            other = sorted(c for c in cs - asref_names if not re.search(r"impl core::cmp::PartialEq(<&B>)? for (str|&A)>::(eq|ne)$", c) and
                           not re.search(r"^<str as core::cmp::PartialEq>::(eq|ne)$", c) and
                           not re.search(r"^<" + re.escape(e) + r" as core::cmp::PartialEq>::(eq|ne)$", c))
            ctx.check(bool(cs & asref_names or any(re.search(r"^<" + re.escape(e) + r" as core::cmp::PartialEq>::", c) for c in cs)) and not other,
                      "C19.order", f"C19.order:{short}:{tr.rsplit('::', 1)[-1]}", w.where(fn),
                      bad_msg=f"equality does not compare the two string forms as they are: {[c.rsplit('::', 2)[-2:] for c in other][:4] or sorted(cs)[:4]} "
                              f"(two values with different string forms can compare equal, or Eq and Ord/Hash/serialization disagree)")
        if structural:
            ctx.violation("C19.order", f"C19.order:{short}:derived-structural", w.where(structural[0][1]),
                          f"{e} derives a structural {'/'.join(t for t, _ in structural)} (variant declaration order, _Custom last): ordering does not agree "
                          f"with the string form, e.g. From(\"a\") sorts after every known variant although \"a\" is smaller than their spellings")
        # frozen spellings
        ref = frozen.get(e)
        if ref is not None:
            now = dict(Fe)
            missing = {k: v for k, v in ref["literals"].items() if now.get(k) != v}
            pmiss = [p for p in ref.get("prefixes", []) if tuple(p) not in [tuple(x) for x in Fp]]
            ctx.check(not missing and not pmiss, "C19.spellings", f"C19.spellings:{short}", where,
                      bad_msg=f"spellings changed or dropped: {dict(list(missing.items())[:5])} {pmiss}")
            # ... and no further string is swallowed by a dedicated variant: a value the enum does not know must come back unchanged (from _Custom)
            extra = {k: v for k, v in now.items() if k not in ref["literals"]}
            ctx.check(not extra, "C19.spellings", f"C19.spellings:{short}:extra", where,
                      bad_msg=f"strings that are neither a specified spelling nor a declared alias are mapped to dedicated variants: {dict(list(extra.items())[:4])} "
                              f"(converting them to the enum and back gives another string)")
        else:
            ctx.ok("C19.spellings", f"C19.spellings:{short}:new", where, "enum not in the frozen table (new enum)", nontrivial=False)
    ctx.count("string_enums_checked", n_done)
    ctx.count("hand_written_string_enums_not_covered", n_hand)
    ctx.floor("string enums", n_done, 60 if thorough else 45)
    gone = [e for e in frozen if e not in enums and (thorough or not e.startswith("ruma_client_api"))]
    gone = [e for e in gone if e.split("::")[0] in (CRATES_B if thorough else CRATES_A)]
    for e in gone:
        ctx.violation("C19.spellings", f"C19.spellings:{e}:gone", "", "string enum of the frozen table no longer has both conversions")
    if ctx.tier == "thorough":
        from .. import witness
        witness.check(ctx, "C19.witness", {"C19PrivOwnedStr": "PrivOwnedStr is constructible from another crate: _Custom(known string) can be built, which compares unequal to the known variant"})
    if ctx.tier == "thorough":
        # the error code of a client-server error is a string enum (ErrorCode) reached through a second, hand-written table: ErrorKind::errcode() is what
        # Serialize for ErrorKind writes as `errcode`, the Deserialize side goes ErrorCode -> ErrorKind. Same-named variants correspond.
        rule_e = "C19.errcode-table"
        ctx.rule(rule_e, "ErrorKind::errcode(): every variant V maps to ErrorCode::V (the custom variant to the code it carries) and every variant has an arm: the "
                         "`errcode` string written for an ErrorKind is the one that is read back as the same kind")
        fe = w.fn("ruma_client_api::error::ErrorKind::errcode")
        dexe = D.Dex(w.lookup, adt_discr=w.adt_discr, inline=lambda n_: False, ctors=w.ctors)
        tab = {}
        for p_ in dexe.paths(fe, [D.sym("self")]):
            vs = [D.show_atom(a_).split(" is ")[-1] for a_, t_ in p_.conds if t_ and " is " in D.show_atom(a_)]
            if p_.kind == "ret" and len(vs) == 1:
                tab[vs[0]] = D.show(p_.ret)
        adt_k = w.adts.get("ruma_client_api::error::ErrorKind")
        kinds = {v_["name"] for v_ in adt_k["variants"]} if adt_k else set()
        bad_e = {k_: v_ for k_, v_ in tab.items() if (v_ != f"ErrorCode::{k_}" if k_ != "_Custom" else not v_.startswith("self._Custom."))}
        ctx.floor("arms of ErrorKind::errcode", len(tab), 40)
        ctx.check(not bad_e and kinds == set(tab), rule_e, f"{rule_e}:errcode", w.where(fe),
                  bad_msg=f"ErrorKind::errcode maps {bad_e} (variants without an arm: {sorted(kinds - set(tab))}): the kind is serialized under another error code and "
                          f"comes back as a different kind")
    # JSON deserialization agrees with string conversion only if no Deserialize impl (derived, generated or hand-written, e.g. JoinRule's tag extraction)
    # asks the deserializer for a borrowed &str: such an impl refuses every spelling that contains a JSON escape
    from . import C18 as _C18
    _C18.no_borrowed_str_rule(ctx, w, "C19.no-borrowed-str", floor=1500 if thorough else 1200)
    # the hand-written string enums with a separate parser (JoinRule) or several tables (MessageType::new / Deserialize / msgtype()) are covered by the
    # table-agreement rule of C18: each specified spelling maps to its dedicated variant on every path
    _C18.string_dispatch_rule(ctx, w, "C19.string-dispatch")
    # VoipVersionId is the one string enum with a second wire kind (the integer 0): which values are written as an integer is decided by the variant,
    # never by the spelling, or the custom string "0" changes kind on the way out (shared with C18)
    _C18.wire_kind_rule(ctx, w, "C19.wire-kind")
    # the generated Any*Event deserializers classify the `type` string a second time (literal and wildcard-prefix arms): they agree with the event
    # type enums' own tables, so that a string the type enum keeps as custom is not claimed by a dedicated arm (shared with C18)
    _C18.dispatch_rule(ctx, w, "C19.dispatch")
    ctx.assumptions += ["hand-written string enums (UriAction, VoipVersionId, TagName, JoinRule, ...) are not covered by the template rule",
                        "_Custom cannot be constructed with a known spelling from outside the crate (PrivOwnedStr is private: compile_fail witness in /verif/witnesses)"]
    ctx.samples += [{"enum": "MembershipState", "F": {"join": "Join"}, "G": {"Join": "join"}},
                    {"enum": "GlobalAccountDataEventType", "prefix": "m.secret_storage.key."}]


def freeze(config="B"):
    """Write spec/string_enums.json from the current tree (run once at freeze time; reviewed by hand afterwards)."""
    from .. import facts as F
    fx = F.Facts(config)
    w = W.World(fx, CRATES_B)
    out = {}
    for e, d in sorted(S.discover(w).items()):
        if d["kind"] == "hand" or e in EXCLUDED:
            continue
        Fe, Fp, fb, G, problems = S.tables(w, e, d)
        out[e] = {"literals": dict(sorted(Fe.items())), "prefixes": [list(x) for x in Fp]}
    json.dump({"_doc": "String enum spellings frozen from the pinned tree (literal -> variant); spec-named enums reviewed against the Matrix specification.",
               "enums": out}, open(os.path.join(T.SPEC, "string_enums.json"), "w"), indent=1, sort_keys=True)
    return len(out)
