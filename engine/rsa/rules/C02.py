"""C02 — JSON signing / verification: error atomicity, signed content, verification quantifiers, encoding, argument roles."""
import re
from .. import dex as D, world as W, mir as M
from . import util as U
from .C05 import m_clone, field, alphabet_of, STD

LEVEL = "other"
EXPLANATION = (
    "DEX over the MIR of sign_json, verify_json, verify_canonical_json_for_entity, Ed25519Verifier::verify_json, "
    "Ed25519KeyPair::sign and Signature::{id,base64}: (A7) no Err return of sign_json is reached with `signatures`/`unsigned` "
    "removed and not re-inserted; the bytes signed are the compact serialization of the object after exactly those two removals; "
    "the signature is added under signatures[entity][key id] keeping existing entries, `unsigned` is put back unchanged; "
    "verify_json succeeds only after every entity of `signatures` verified; per entity at least one supported signature must verify "
    "and none may fail; argument roles (key, message, signature) are not swapped; signatures are unpadded standard base64. "
    "RFC 8032 conformance of ed25519-dalek and unforgeability are trusted, not decided.")
FN = "ruma_signatures::functions"
# Reviewed exception (not a finding): serde_json::to_string of a BTreeMap<String, CanonicalJsonValue> into a String cannot fail
# (string keys, integer-only numbers, infallible writer); the Err edge exists in MIR only because the API is fallible.
INFEASIBLE_ERR = "ser::to_string(object)"


# slice -> fixed-size conversions that fail unless the length is exactly right (TryFrom<&[u8]> for &[u8; N] / [u8; N] / ed25519::Signature)
EXACT_LENGTH = {"try_into", "try_from", "from_bytes", "from_slice", "as_ref", "borrow", "deref", "as_slice", "as_bytes", "to_bytes"}
# operations that look at a part of a slice
NARROWING = {"first_chunk", "last_chunk", "split_first_chunk", "split_last_chunk", "split_at", "split_at_checked", "get", "get_unchecked", "index", "chunks",
             "chunks_exact", "as_chunks", "array_chunks", "take", "skip", "first", "last", "split_first", "split_last", "trim_ascii", "trim_ascii_start",
             "trim_ascii_end", "strip_prefix", "strip_suffix", "windows", "iter", "into_iter", "copy_from_slice", "truncate"}


def run(ctx):
    fx = ctx.facts("A")
    w = W.World(fx, ["ruma_common", "ruma_signatures", "ruma_identifiers_validation"])
    dex = D.Dex(w.lookup, adt_discr=w.adt_discr, effects=lambda n: True, unroll=1, inline=U.sig_inline)

    # ---- A7: atomicity of sign_json ----------------------------------------------------------------
    ctx.rule("C02.atomic", "sign_json: on every path that returns Err, each entry removed from the object (remove_entry -> Some) has been "
                           "re-inserted with its own key and value before the return (the serializer's Err edge is a reviewed infeasible path)")
    f = w.fn(f"{FN}::sign_json")
    paths = dex.paths(f, [D.sym("entity"), D.sym("kp"), D.sym("object")])
    errp = [p for p in paths if p.kind == "ret" and U.is_err(p.ret)]
    okp = [p for p in paths if p.kind == "ret" and U.is_ok(p.ret)]
    ctx.floor("sign_json error paths", len(errp), 3)
    ctx.floor("sign_json success paths", len(okp), 4)
    for p in errp + okp:
        tv = U.true_variants(p)
        kind = "err" if U.is_err(p.ret) else "ok"
        if kind == "err" and tv.get(INFEASIBLE_ERR) == "Err":
            ctx.ok("C02.atomic", "C02.atomic:reviewed:serializer-error-edge", w.where(f), nontrivial=False)
            continue
        removed = []
        for e in p.effects:
            if e[0].endswith("::remove_entry") and D.show(e[1][0]) == "object":
                res = D.show(dex_ret(e))
                if tv.get(res) == "Some":
                    removed.append((D.show(e[1][1]), res))
                elif tv.get(res) != "None":
                    removed.append((D.show(e[1][1]), res))  # unknown outcome: assume removed
            elif e[0].rsplit("::", 1)[-1] in ("remove", "clear", "retain", "pop_first", "pop_last", "take") and e[1] and D.show(e[1][0]) == "object":
                removed.append((e[0].rsplit("::", 1)[-1], "?"))
        inserts = [U.shows(e[1]) for e in p.effects if e[0].endswith("BTreeMap::<K, V, A>::insert") and D.show(e[1][0]) == "object"]
        why = D.show(p.ret)[:70]
        for key, res in removed:
            back = any(res + ".Some.0.0" in a[1] and res + ".Some.0.1" in a[2] for a in inserts)
            k = f"C02.atomic:{kind}:{key}:{'restored' if back else 'lost'}:{why if kind == 'err' else ''}"
            ctx.check(back, "C02.atomic", k, w.where(f),
                      bad_msg=f"sign_json returns {why} after removing {key} from the object without putting it back "
                              f"(inserts on this path: {inserts})")
        if not removed:
            ctx.ok("C02.atomic", f"C02.atomic:{kind}:nothing-removed:{why}", w.where(f))

    # ---- atomicity of the other signing call, hash_and_sign_event ---------------------------------------
    ctx.rule("C02.atomic-event", "hash_and_sign_event: on every path that returns Err nothing has been written into the caller's object (a write into the object or "
                                 "into a value reached from it - `hashes.sha256` - before a step that can still fail is left behind when that step fails)")
    from . import C03 as _C03
    dexh = D.Dex(w.lookup, adt_discr=w.adt_discr, effects=lambda n: True, models=_C03.CLONE, unroll=2, inline=U.sig_inline)
    fh = w.fn(f"{FN}::hash_and_sign_event")
    hp = dexh.paths(fh, [D.sym("entity"), D.sym("kp"), D.sym("object"), D.sym("rr")])
    herr = [p for p in hp if p.kind == "ret" and U.is_err(p.ret)]
    ctx.floor("hash_and_sign_event error paths", len(herr), 3)
    for p in herr:
        failing = re.sub(r".*?(content_hash|redact|sign_json|not_of_type).*", r"\1", D.show(p.ret)) if re.search(r"content_hash|redact|sign_json|not_of_type", D.show(p.ret)) else D.show(p.ret)[:40]
        writes = []
        for e in p.effects:
            m = e[0].rsplit("::", 1)[-1]
            tgt = D.show(e[1][0]) if e[1] else ""
            if m in ("insert", "remove", "remove_entry", "clear", "retain", "extend", "append") and "object" in tgt and "clone(object)" not in tgt:
                writes.append((m, D.show(e[1][1])[:30] if len(e[1]) > 1 else ""))
        k = f"C02.atomic-event:err={failing}:{'written=' + '+'.join(sorted({w_[1].strip(chr(39)) for w_ in writes})) if writes else 'nothing-written'}"
        if writes:
            ctx.violation("C02.atomic-event", k, w.where(fh),
                          f"hash_and_sign_event returns an error from {failing} after {writes} on the caller's object: the failed signing call leaves the event changed "
                          f"(it gained / lost `hashes.sha256`)")
        else:
            ctx.ok("C02.atomic-event", k, w.where(fh))

    wb_ = _C03.write_back(w, fh)
    if wb_["sites"]:
        # the event is replaced as a whole (`*object = copy`): only as the last step, when nothing can fail any more
        ctx.check(wb_["ok"], "C02.atomic-event", "C02.atomic-event:write-back-last", w.where(fh),
                  bad_msg=f"hash_and_sign_event overwrites the caller's event before its last fallible step: {wb_['why']}")

    # ---- signed content -----------------------------------------------------------------------------
    ctx.rule("C02.content", "sign_json success paths: the only removals are `signatures` and `unsigned` (same set as "
                            "CANONICAL_JSON_FIELDS_TO_REMOVE used by verification); the bytes passed to KeyPair::sign are "
                            "to_string(object) taken after both removals and before any re-insertion; the new signature is inserted as "
                            "set[signature.id()] = String(signature.base64()) into signature_map.entry(entity).or_insert_with(Object{}); "
                            "no other write touches the signature map")
    want_removed = set(w.value(f"{FN}::CANONICAL_JSON_FIELDS_TO_REMOVE"))
    ctx.check(want_removed == {"signatures", "unsigned"}, "C02.content", "C02.content:verify-side-fields",
              w.where_value(f"{FN}::CANONICAL_JSON_FIELDS_TO_REMOVE"), bad_msg=f"verification removes {sorted(want_removed)}")
    for p in okp:
        tv = U.true_variants(p)
        names = [e[0].rsplit("::", 1)[-1] for e in p.effects]
        rem = [i for i, e in enumerate(p.effects) if e[0].endswith("::remove_entry")]
        rem_keys = {p.effects[i][1][1][1] for i in rem if D.is_const(p.effects[i][1][1])}
        ser = [i for i, e in enumerate(p.effects) if e[0] == "serde_json::ser::to_string"]
        sign = [i for i, e in enumerate(p.effects) if e[0].endswith("KeyPair::sign")]
        ins_obj = [i for i, e in enumerate(p.effects) if e[0].endswith("BTreeMap::<K, V, A>::insert") and D.show(e[1][0]) == "object"]
        tag = "sig=" + tv.get("BTreeMap::remove_entry(object, 'signatures')", "?") + ",unsigned=" + tv.get("BTreeMap::remove_entry(object, 'unsigned')", "?")
        good = rem_keys == want_removed and len(ser) == 1 and len(sign) == 1 and all(r < ser[0] for r in rem) and all(i > sign[0] for i in ins_obj)
        good = good and ser[0] < sign[0] and U.shows(p.effects[ser[0]][1]) == ["object"] and \
            U.shows(p.effects[sign[0]][1]) == ["kp", "String::as_bytes(ser::to_string(object).Ok.0)"]
        ctx.check(good, "C02.content", f"C02.content:signed-bytes:{tag}", w.where(f),
                  bad_msg=f"removed keys {sorted(rem_keys)}; order of effects {names}")
        # signature placement
        SIG = "KeyPair::sign(kp, String::as_bytes(ser::to_string(object).Ok.0))"
        sigmap = "BTreeMap::remove_entry(object, 'signatures').Some.0.1.Object.0" if tv.get("BTreeMap::remove_entry(object, 'signatures')") == "Some" else "BTreeMap::new()"
        entry = [e for e in p.effects if e[0].endswith("::entry")]
        oiw = [e for e in p.effects if e[0].endswith("::or_insert_with")]
        ins_set = [e for e in p.effects if e[0].endswith("BTreeMap::<K, V, A>::insert") and D.show(e[1][0]) != "object"]
        map_writes = [e for e in p.effects if e[1] and D.show(e[1][0]) == sigmap and e[0].rsplit("::", 1)[-1] not in ("entry",)]
        good = len(entry) == 1 and U.shows(entry[0][1]) == [sigmap, "entity"] and len(oiw) == 1 and not map_writes and len(ins_set) == 1
        if good:
            a = U.shows(ins_set[0][1])
            good = a[0].startswith("Entry::or_insert_with(") and a[0].endswith(".Object.0") and a[1] == f"Signature::id({SIG})" and \
                a[2] == f"CanonicalJsonValue::String(Signature::base64({SIG}))"
            clo = oiw[0][1][1]
            good = good and clo is not None and clo[0] == "clo" and empty_object_closure(w, clo)
        ctx.check(good, "C02.content", f"C02.content:placement:{tag}", w.where(f), bad_msg=f"signature placement effects {names}")
        # signatures written back with the (possibly pre-existing) map; unsigned re-inserted unchanged
        back = [U.shows(p.effects[i][1]) for i in ins_obj]
        good = any("signatures" in a[1] and a[2] == f"CanonicalJsonValue::Object({sigmap})" for a in back)
        if tv.get("BTreeMap::remove_entry(object, 'unsigned')") == "Some":
            u = "BTreeMap::remove_entry(object, 'unsigned').Some.0"
            good = good and [u + ".0", u + ".1"] in [a[1:] for a in back]
        ctx.check(good and len(back) == (2 if tv.get("BTreeMap::remove_entry(object, 'unsigned')") == "Some" else 1), "C02.content",
                  f"C02.content:restored:{tag}", w.where(f), bad_msg=f"object inserts on success: {back}")

    # ---- Signature::{id, base64}, KeyPair::sign -------------------------------------------------------
    ctx.rule("C02.encoding", "Signature::base64 = Base64<Standard>(signature bytes).encode() (standard alphabet, NO_PAD engine, see C05.nopad); "
                             "Signature::id = key_id.to_string(); Ed25519KeyPair::sign builds key id from_parts(Ed25519, version) and signs the message it was given")
    f2 = w.fn("ruma_signatures::signatures::Signature::base64")
    ps = dex.paths(f2, [D.sym("self")])
    good = len(ps) == 1 and D.show(ps[0].ret).startswith("Base64::encode(Base64::new(") and D.show(ps[0].ret).endswith("::as_slice(self.signature)))")
    cs = [c for _, c in M.calls(f2["body"]) if c.get("fn", "").endswith("Base64::<C, B>::encode")]
    good = good and len(cs) == 1 and cs[0]["fnargs"][0] == "ruma_common::serde::base64::Standard"
    ctx.check(good, "C02.encoding", "C02.encoding:Signature::base64", w.where(f2), bad_msg=f"{ps!r} / {[c.get('fnargs') for c in cs]}"[:300])
    f2 = w.fn("ruma_signatures::signatures::Signature::id")
    ps = dex.paths(f2, [D.sym("self")])
    ctx.check(len(ps) == 1 and D.show(ps[0].ret) == "self.key_id", "C02.encoding", "C02.encoding:Signature::id", w.where(f2), bad_msg=f"{ps!r}"[:200])
    p_std = "<ruma_common::serde::base64::Standard as ruma_common::serde::base64::Base64Config>::CONF"
    ctx.check(alphabet_of(field(D.from_json(w.value(p_std)), "0")) == STD, "C02.encoding", "C02.encoding:alphabet", w.where_value(p_std),
              bad_msg="Standard alphabet is not RFC 4648 standard")
    f2 = w.fn("<ruma_signatures::keys::Ed25519KeyPair as ruma_signatures::keys::KeyPair>::sign")
    # the key pair's own getters (version(), ..) are inlined: `self.version()` and `self.version.as_str()` are the same thing
    dexk = D.Dex(w.lookup, adt_discr=w.adt_discr, effects=lambda n: True,
                 inline=lambda n: U.sig_inline(n) or (n.startswith("ruma_signatures::keys::Ed25519KeyPair::") and n.rsplit("::", 1)[-1] in ("version", "public_key")))
    ps = dexk.paths(f2, [D.sym("self"), D.sym("message")])
    good = len(ps) == 1 and ps[0].ret is not None and ps[0].ret[0] == "adt"
    if good:
        kid, sig = D.show(field(ps[0].ret, "key_id")), D.show(field(ps[0].ret, "signature"))
        good = kid.startswith("KeyId::from_parts(SigningKeyAlgorithm::Ed25519, ") and "self.version" in kid and \
            "Signer::sign(self.signing_key, message)" in sig
    ctx.check(good, "C02.encoding", "C02.encoding:KeyPair::sign", w.where(f2), bad_msg=f"{ps!r}"[:300])

    # ---- verify_json ----------------------------------------------------------------------------------
    ctx.rule("C02.verify_json", "verify_json: Ok only from the exhausted edge of the loop over signatures.keys(); each entity is checked by "
                                "verify_canonical_json_for_entity(entity, keys, signature map, bytes of canonical_json(object)) and its error is propagated; "
                                "canonical_json removes CANONICAL_JSON_FIELDS_TO_REMOVE")
    f3 = w.fn(f"{FN}::verify_json")
    dexu = D.Dex(w.lookup, adt_discr=w.adt_discr, effects=lambda n: True, unroll=2, inline=U.sig_inline)
    paths = dexu.paths(f3, [D.sym("pkm"), D.sym("object")])
    okp3 = [p for p in paths if p.kind == "ret" and U.is_ok(p.ret)]
    ctx.floor("verify_json success paths", len(okp3), 2)
    SIGS = "BTreeMap::get(object, 'signatures').Some.0.Object.0"
    for p in okp3:
        tv = U.true_variants(p)
        nexts = {s: v for s, v in tv.items() if s.startswith("Iterator::next(") and "keys(" in s}
        somes = sorted(s for s, v in nexts.items() if v == "Some")
        verifs = [e for e in p.effects if e[0] == f"{FN}::verify_canonical_json_for_entity"]
        good = list(nexts.values()).count("None") == 1 and len(verifs) == len(somes)
        for s_, e in zip(somes, verifs):
            a = U.shows(e[1])
            good = good and s_ + ".Some.0" in a[0] and a[1] == "pkm" and a[2] == SIGS and a[3] == "String::as_bytes(functions::canonical_json(object).Ok.0)"
            good = good and tv.get(D.show(dex_ret(e))) == "Ok"
        good = good and all(SIGS in s for s in nexts)
        ctx.check(good, "C02.verify_json", f"C02.verify_json:entities={len(somes)}", w.where(f3),
                  bad_msg=f"success with {len(somes)} entities but verifications {[U.shows(e[1])[0][:60] for e in verifs]}")
    f4 = w.fn(f"{FN}::canonical_json")
    ps = dex.paths(f4, [D.sym("object")])
    ctx.check(len(ps) == 1 and D.show(ps[0].ret) == f"functions::canonical_json_with_fields_to_remove(object, static:{FN}::CANONICAL_JSON_FIELDS_TO_REMOVE)",
              "C02.verify_json", "C02.verify_json:canonical_json", w.where(f4), bad_msg=f"{ps!r}"[:300])

    # ---- per entity -------------------------------------------------------------------------------------
    ctx.rule("C02.entity", "verify_canonical_json_for_entity: Ok requires >= 1 successful verify_canonical_json_with and none failed; a signature is "
                           "skipped only when its key id does not parse or its algorithm has no verifier; missing key / non-string / bad base64 / "
                           "failed verification are errors; verify is called with (public key bytes for that key id, decoded signature bytes, canonical JSON)")
    f5 = w.fn(f"{FN}::verify_canonical_json_for_entity")
    paths = dexu.paths(f5, [D.sym("entity"), D.sym("pkm"), D.sym("sigmap"), D.sym("cj")])
    # every return that is not a definite Err counts as a possible success: a returned call result may be Ok
    okp5 = [p for p in paths if p.kind == "ret" and not U.is_err(p.ret)]
    ctx.floor("entity success paths", len(okp5), 1)
    for i, p in enumerate(okp5):
        tv = U.true_variants(p)
        calls_v = [D.show(dex_ret(e)) for e in p.effects if e[0] == f"{FN}::verify_canonical_json_with"]
        rets = D.show(p.ret)
        outcome = [tv.get(c, "returned" if c == rets else "unchecked") for c in calls_v]
        good = (outcome.count("Ok") + outcome.count("returned")) >= 1 and all(o in ("Ok", "returned") for o in outcome) and \
            (U.is_ok(p.ret) or rets in calls_v)
        ctx.check(good, "C02.entity", f"C02.entity:ok-needs-verified:{sorted(outcome)}:{i}", w.where(f5),
                  bad_msg=f"a possibly-successful return ({rets[:80]}) is reached with verification outcomes {outcome}: every "
                          f"verify_canonical_json_with on the path must have succeeded (or be the returned value) and there must be at least one")
        for e in p.effects:
            if e[0] == f"{FN}::verify_canonical_json_with":
                a = U.shows(e[1])
                it = a[1].split(".Some.0.0")[0] if ".Some.0.0" in a[1] else None
                good = a[0].startswith("verification::verifier_from_algorithm(") and a[0].endswith(".Some.0") and a[3] == "cj" and \
                    "as_bytes(" in a[1] and "get(" in a[1] and ".Some.0.0)" in a[1] and \
                    "as_bytes(" in a[2] and "parse(" in a[2] and ".Some.0.1" in a[2]
                # key looked up under the same key id as the signature that is verified
                good = good and it is not None and it.rsplit("Iterator::next(", 1)[-1] in a[2]
                ctx.check(good, "C02.entity", "C02.entity:argument-provenance", w.where(f5, e[2]), bad_msg=f"verify args {a}"[:400])
    # the only ways to skip a signature
    skipping = set()
    for p in paths:
        tv = U.true_variants(p)
        iters = [s for s, v in tv.items() if s.startswith("Iterator::next(") and v == "Some"]
        ver = [s for s in tv if s.startswith("functions::verify_canonical_json_with(")]
        if p.kind == "ret" and U.is_err(p.ret) and "NoSupportedSignatureForEntity" in D.show(p.ret) and iters and not ver:
            for s, v in tv.items():
                if v in ("Err", "None") and s.startswith("verification::verifier_from_algorithm("):
                    skipping.add("no-verifier")
                elif v in ("Err", "None") and s.startswith("TryFrom") and "try_from(" in s:
                    skipping.add("key-id-unparsable")
                elif v in ("Err", "None") and not s.startswith("Iterator::next("):
                    skipping.add("other:" + s[:50])
    ctx.check(skipping <= {"key-id-unparsable", "no-verifier"} and len(skipping) == 2, "C02.entity", "C02.entity:skip-reasons", w.where(f5),
              bad_msg=f"signatures are skipped for reasons {sorted(skipping)}")
    errs = {D.show(p.ret)[:60] for p in paths if p.kind == "ret" and U.is_err(p.ret)}
    for needle in ("PublicKeyNotFound", "not_of_type('signature'", "NoSupportedSignatureForEntity", "NoPublicKeysForEntity", "NoSignaturesForEntity", "ParseError::base64"):
        ctx.check(any(needle in D.show(p.ret) for p in paths if p.kind == "ret" and U.is_err(p.ret)), "C02.entity", f"C02.entity:error:{needle}",
                  w.where(f5), bad_msg=f"no error path {needle}; have {sorted(errs)}")
    f6 = w.fn(f"{FN}::verify_canonical_json_with")
    ps = dex.paths(f6, [D.sym("verifier"), D.sym("public_key"), D.sym("signature"), D.sym("canonical_json")])
    ctx.check(len(ps) == 1 and D.show(ps[0].ret) == "Verifier::verify_json(verifier, public_key, signature, canonical_json)", "C02.entity",
              "C02.entity:verify_with", w.where(f6), bad_msg=f"{ps!r}"[:300])

    # ---- which key ids count as "cannot be parsed" (and are skipped) -------------------------------------------------------------------
    ctx.rule("C02.key-id-language", "verify_canonical_json_for_entity parses the stored key ids with a key-name type whose validate accepts every name: a signature is "
                                    "skipped only because of its algorithm part, never because of how the key version is spelled (sign_json stores any version; "
                                    "sign-then-verify must succeed for all of them, and an invalid signature must not be ignored because of its key name)")
    wk = W.World(ctx.facts("A"), ["ruma_signatures", "ruma_common", "ruma_identifiers_validation"])
    fe = wk.fn(f"{FN}::verify_canonical_json_for_entity")
    fam_e = [fe] + [g for g in wk.crates["ruma_signatures"].all_fns() if "body" in g and U.sig_inline(g["path"])]
    kn = set()
    for g in fam_e:
        for _, c in M.calls(g["body"]):
            if re.search(r"KeyId<A, K> as core::convert::TryFrom<&'a str>>::try_from$|KeyId::<A, K>::parse", M.callee_name(c)):
                m_ = re.search(r"KeyId<[^,]+, ([^>]+)>", (c.get("fnargs") or [""])[0])
                if m_ and g is fe or (m_ and any(M.callee_name(c2) == g["path"] for _, c2 in M.calls(fe["body"]))):
                    kn.add(m_.group(1).strip())
    ctx.check(bool(kn), "C02.key-id-language", "C02.key-id-language:parse-site", wk.where(fe), bad_msg="no key-id parse found in verify_canonical_json_for_entity")
    dk = D.Dex(wk.lookup, adt_discr=wk.adt_discr)
    for k in sorted(kn):
        v = wk.lookup(f"<{k} as ruma_identifiers_validation::KeyName>::validate")
        if v is None or "body" not in v:
            ctx.unrecognised("C02.key-id-language", f"C02.key-id-language:{k.rsplit('::', 1)[-1]}", wk.where(fe), f"KeyName::validate of {k} not found")
            continue
        rets = {D.show(p.ret) for p in dk.paths(v, [D.sym("s")]) if p.kind == "ret"}
        ctx.check(rets == {"Result::Ok(())"}, "C02.key-id-language", f"C02.key-id-language:{k.rsplit('::', 1)[-1]}", wk.where(fe),
                  bad_msg=f"stored key ids are parsed as KeyId<_, {k.rsplit('::', 1)[-1]}>, whose validate can fail ({sorted(rets)[:3]}): a signature under e.g. "
                          f"`ed25519:a.b` or a base64 key name is skipped instead of verified")
    # ---- Ed25519Verifier --------------------------------------------------------------------------------
    ctx.rule("C02.ed25519", "Ed25519Verifier::verify_json: VerifyingKey::from_bytes(public_key) then .verify(message, signature) with roles unswapped; "
                            "every failure maps to Err; verifier_from_algorithm yields it for Ed25519 only")
    f7 = w.fn("<ruma_signatures::verification::Ed25519Verifier as ruma_signatures::verification::Verifier>::verify_json")
    dexi = D.Dex(w.lookup, adt_discr=w.adt_discr, effects=lambda n: True, inline=lambda n: "verify_json::{closure" in n or U.sig_inline(n))
    paths = dexi.paths(f7, [D.sym("self"), D.sym("public_key"), D.sym("signature"), D.sym("message")])
    okp7 = [p for p in paths if p.kind == "ret" and not U.is_err(p.ret)]
    for p in okp7:
        fb = [e for e in p.effects if e[0].endswith("VerifyingKey::from_bytes")]
        vf = [e for e in p.effects if e[0].endswith("::verify") or e[0].endswith("Verifier>::verify")]
        good = len(fb) == 1 and "public_key" in D.show(fb[0][1][0]) and len(vf) == 1
        if good:
            a = U.shows(vf[0][1])
            good = "from_bytes(" in a[0] and a[1] == "message" and "signature" in a[2] and "message" not in a[2] and "public_key" not in a[2]
        ctx.check(good, "C02.ed25519", "C02.ed25519:roles", w.where(f7), bad_msg=f"{[(e[0].rsplit('::', 1)[-1], U.shows(e[1])) for e in p.effects]}"[:400])
        # result is the (mapped) result of verify: never a constant Ok
        ctx.check("verify(" in D.show(p.ret), "C02.ed25519", "C02.ed25519:result-from-verify", w.where(f7), bad_msg=f"returns {D.show(p.ret)[:120]}")
        # the WHOLE key and the WHOLE signature are checked: they reach dalek only through conversions that fail on any other length
        if len(fb) == 1 and len(vf) == 1:
            for what, shown in (("public_key", D.show(fb[0][1][0])), ("signature", U.shows(vf[0][1])[2])):
                calls = set(re.findall(r"([A-Za-z_][\w:]*)\(", shown)) | set(re.findall(r"fn\[([\w:<>, ]+)\]", shown))
                calls = {c.rsplit("::", 1)[-1] for c in calls} - {"apply"}
                narrowing = calls & NARROWING
                # ... unless the path has already established the exact length
                exact = any(f"len({what})" in D.show_atom(a) and (("==" in D.show_atom(a) and t) or ("!=" in D.show_atom(a) and not t)) for a, t in p.conds)
                if exact:
                    narrowing = set()
                unknown = calls - EXACT_LENGTH - NARROWING
                if narrowing:
                    ctx.violation("C02.ed25519", f"C02.ed25519:whole-input:{what}", w.where(f7),
                                  f"the {what} reaches ed25519 through {sorted(narrowing)} ({shown[:120]}): only a part of the supplied bytes is looked at, so "
                                  f"bytes appended to a valid {what} still verify (any change to signature or key must make verification fail)")
                elif unknown:
                    ctx.unrecognised("C02.ed25519", f"C02.ed25519:whole-input:{what}", w.where(f7), f"the {what} reaches ed25519 through {sorted(unknown)}: not known to be length-exact")
                else:
                    ctx.ok("C02.ed25519", f"C02.ed25519:whole-input:{what}", w.where(f7), f"{shown[:100]}: exact-length conversion only")
    ctx.floor("ed25519 non-error paths", len(okp7), 1)
    f8 = w.fn("ruma_signatures::verification::verifier_from_algorithm")
    ps = dex.paths(f8, [D.sym("algorithm")])
    got = {}
    for p in ps:
        v = [a[2] for a, t in p.conds if a[0] == "variant" and t]
        got[v[0] if v else "<other>"] = D.show(p.ret)
    ctx.check(got.get("Ed25519", "").startswith("Option::Some(Ed25519Verifier") and all(r == "Option::None" for k, r in got.items() if k != "Ed25519") and len(got) >= 2,
              "C02.ed25519", "C02.ed25519:algorithms", w.where(f8), bad_msg=f"{got}")
    # ---- earlier signatures and `unsigned` are left intact --------------------------------------------------------------------------------
    ctx.rule("C02.preserve", "sign_json success paths: the only removals are the temporary remove_entry of `signatures` and `unsigned` from the object (both "
                             "re-inserted); the signature sets are only extended (entry/or_insert*/insert): nothing is retained-out, removed or cleared")
    dexs = D.Dex(w.lookup, adt_discr=w.adt_discr, effects=lambda n: "btree" in n, unroll=1, inline=U.sig_inline)
    fs = w.fn(f"{FN}::sign_json")
    DESTRUCTIVE = ("retain", "remove", "remove_entry", "clear", "pop_first", "pop_last", "split_off", "append", "extract_if", "drain", "take", "replace", "swap")
    oks = [p_ for p_ in dexs.paths(fs, [D.sym("entity"), D.sym("kp"), D.sym("object")]) if p_.kind == "ret" and U.is_ok(p_.ret)]
    ctx.floor("sign_json success paths (preserve)", len(oks), 2)
    for i_, p_ in enumerate(oks):
        destr = [(e[0].rsplit("::", 1)[-1], U.shows(e[1])) for e in p_.effects if e[0].rsplit("::", 1)[-1] in DESTRUCTIVE]
        temp = [d_ for d_ in destr if d_[0] == "remove_entry" and d_[1][0] == "object" and d_[1][1] in ("'signatures'", "'unsigned'")]
        other = [d_ for d_ in destr if d_ not in temp]
        ins = [U.shows(e[1]) for e in p_.effects if e[0].rsplit("::", 1)[-1] == "insert"]
        # the key put back is the literal or the key of the removed entry itself
        restored = any(x[0] == "object" and "'signatures'" in x[1] for x in ins)
        ctx.check(not other and restored, "C02.preserve", f"C02.preserve:sign_json:{i_}", w.where(fs),
                  bad_msg=f"a successful sign_json applies {[(d_[0], d_[1][0][:50]) for d_ in other]}: signatures made earlier (another key version of the same entity, "
                          f"other entities) are not left intact")
    # the verifier is selected by SigningKeyId::algorithm(): it must cut the key id where sign_json's KeyId::from_parts put the colon
    from . import C10 as _C10
    _C10.split_agreement(ctx, w, "C02.keyid-split", only={"key_id::KeyId"})
    # what is signed / hashed is the canonical JSON form: the canonical-JSON rules of C01 are part of this check
    from . import C01 as _C01
    _C01.run(ctx)
    # signing has no size limit (sign_json serializes whatever it is given), so verification must not have one either: the 65 535-byte limit belongs
    # to the event functions (content_hash / reference_hash, see C05) and must not move into the canonical-JSON helpers that verify_json goes through
    ctx.rule("C02.no-size-limit", "no function reachable from sign_json / verify_json / canonical_json / verify_canonical_json_bytes constructs Error::PduSize "
                                  "(the 65 535-byte limit belongs to the event functions; an object that was signed must verify)")
    makers = set()
    for g in w.all_fns():
        if "body" not in g or not g["path"].startswith("ruma_signatures::") and "ruma_signatures::" not in g["path"]:
            continue
        for body in M.all_bodies(g):
            for b in body["blocks"]:
                for st in b["s"]:
                    if st[0] == "=" and st[2][0] == "agg" and st[2][1].get("variant") == "PduSize" and str(st[2][1].get("adt", "")).endswith("error::Error"):
                        makers.add(re.sub(r"(::\{closure#\d+\})+", "", g["path"]))
    ctx.floor("functions constructing Error::PduSize", len(makers), 1)
    # ... and none of them is reachable from the JSON (non-event) entry points
    from . import panic_common as _PC
    edges = _PC.call_graph(w)
    roots = [n_ for n_ in edges if re.fullmatch(r"ruma_signatures::functions::(sign_json|verify_json|canonical_json|verify_canonical_json_bytes)", n_)]
    ctx.floor("JSON entry points of ruma_signatures::functions", len(roots), 3)
    seen, todo = set(), list(roots)
    while todo:
        x = todo.pop()
        if x in seen:
            continue
        seen.add(x)
        todo += [y for y in edges.get(x, ()) if y not in seen]
    reach = {re.sub(r"(::\{closure#\d+\})+", "", x) for x in seen}
    extra = sorted(makers & reach)
    ctx.check(not extra, "C02.no-size-limit", "C02.no-size-limit:makers", "",
              bad_msg=f"Error::PduSize is also raised by {extra}: an object larger than a PDU can be signed (sign_json has no limit) but its verification / canonical form is refused")
    ctx.assumptions += ["ed25519-dalek implements RFC 8032; base64 crate implements RFC 4648",
                        "reviewed exception: serde_json::to_string(&CanonicalJsonObject) cannot fail, so its Err edge in sign_json is infeasible"]
    ctx.samples += [{"path": "sign_json, signatures = 5", "expected": "Err and object restored"},
                    {"path": "verify_json, two entities", "expected": "both verified before Ok"}]


def empty_object_closure(w, clo):
    f = w.fn(clo[1])
    d = D.Dex(w.lookup, adt_discr=w.adt_discr, inline=U.sig_inline)
    ps = d.paths(f, [clo])
    return len(ps) == 1 and D.show(ps[0].ret) == "CanonicalJsonValue::Object(BTreeMap::new())"


def dex_ret(effect):
    name, args = effect[0], effect[1]
    return D.sym(f"{D.short_name(name)}({', '.join(D.show(a) for a in args)})")
