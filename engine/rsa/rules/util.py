"""Helpers shared by the per-property rules."""
from .. import dex as D


def int_valuation(assign):
    """valuation for order atoms: assign maps show(sym) -> int."""
    def num(v):
        if D.is_const(v) and isinstance(v[1], int):
            return v[1]
        s = D.show(v)
        for k, n in assign.items():
            if s == k or (k.endswith("*") and s.startswith(k[:-1])):
                return n
        return None

    def val(atom):
        if atom[0] == "cmp":
            a, b = num(atom[2]), num(atom[3])
            if a is None or b is None:
                return None
            return a < b
        if atom[0] == "eq":
            a, b = num(atom[1]), num(atom[2])
            if a is None or b is None:
                return None
            return a == b
        return None
    return val


def effects_named(path, suffix):
    return [e for e in path.effects if e[0].endswith(suffix)]


def shows(args):
    return [D.show(a) for a in args]


def is_ok(v):
    return v is not None and v[0] == "adt" and v[2] == "Ok"


def is_err(v):
    return v is not None and v[0] == "adt" and v[2] == "Err"


def payload(v):
    return v[3][0][1] if v is not None and v[0] == "adt" and v[3] else None


def true_variants(path):
    """{show(subject): variant} for the variant atoms that hold on the path."""
    return {D.show(a[1]): a[2] for a, t in path.conds if a[0] == "variant" and t}
