"""Helpers shared by the per-property rules."""
import re
from .. import dex as D


def int_valuation(assign):
    """valuation for order atoms: assign maps show(sym) -> int."""
    def num(v):
        if D.is_const(v) and isinstance(v[1], int):
            return v[1]
        s = D.show(v)
        for k, n in assign.items():
            if s == k or (k.endswith("*") and s.startswith(k[:-1])) or (k.startswith("re:") and re.search(k[3:], s)):
                return n
        return None

    def val(atom):
        if atom[0] == "cmp":
            a, b = num(atom[2]), num(atom[3])
            if a is None or b is None:
                return None
            return a < b
        if atom[0] == "eq":
            a, b = num(atom[1]), num(atom[2])
            if a is None or b is None:
                return None
            return a == b
        return None
    return val


def effects_named(path, suffix):
    return [e for e in path.effects if e[0].endswith(suffix)]


def shows(args):
    return [D.show(a) for a in args]


def is_ok(v):
    return v is not None and v[0] == "adt" and v[2] == "Ok"


def is_err(v):
    return v is not None and v[0] == "adt" and v[2] == "Err"


def payload(v):
    return v[3][0][1] if v is not None and v[0] == "adt" and v[3] else None


def true_variants(path):
    """{show(subject): variant} for the variant atoms that hold on the path."""
    return {D.show(a[1]): a[2] for a, t in path.conds if a[0] == "variant" and t}


# ---- helper inlining policy for ruma-signatures ----------------------------------------------------------------------------------
# Rules name these functions (as effects or anchors); every other free function of the module is a private helper and is inlined, so
# that moving a few statements into (or out of) a helper does not change what a rule sees.
SIG_ANCHORS = {"sign_json", "verify_json", "verify_event", "verify_canonical_json_for_entity", "verify_canonical_json_with",
               "canonical_json", "canonical_json_with_fields_to_remove", "content_hash", "reference_hash", "hash_and_sign_event",
               "servers_to_check_signatures", "is_invite_via_third_party_id"}


def sig_inline(n):
    if "{closure" in n:
        return False
    if n.startswith("ruma_signatures::functions::") and "<" not in n[len("ruma_signatures::functions::"):]:
        return n.rsplit("::", 1)[-1] not in SIG_ANCHORS
    return n in ("ruma_signatures::signatures::Signature::as_bytes",)


VIEW_RE = re.compile(r"^(?:\w+::)*(?:as_bytes|as_str|as_ref|as_slice|deref|borrow|into|from|clone|to_owned)\((.*)\)$")


def strip_views(txt):
    """Remove value-preserving view / conversion wrappers around a shown expression (`String::as_bytes(x)`, `Deref::deref(x)`, `Into::into(x)`)."""
    while True:
        m = VIEW_RE.match(txt)
        if not m:
            return txt
        txt = m.group(1)
