"""C15 — idempotence of sanitization: three structural necessary conditions (closure of replacement tables, locality of verdicts, full traversal)."""
from .. import dex as D, world as W, mir as M
from . import util as U
from .C14 import phf, SPEC, CL

LEVEL = "other"
EXPLANATION = (
    "Narrow claim. Decided: (1) the deprecated-element / deprecated-attribute replacement tables equal the specification's and are closed "
    "under the allow-lists (each replacement element is allowed and is not itself deprecated; each replacement attribute is allowed on the "
    "replacement element), and apply_replacements looks the attribute replacement up under the element's old name before the element is "
    "renamed; (2) locality: node_action and clean_element_attributes read only the configuration, the node's own name/attributes and the "
    "depth argument - no parent/sibling/children access - so a kept node gets the same verdict when sanitized again (its depth can only "
    "have decreased and the depth test is monotone); (3) full traversal: for every verdict other than Remove, clean_node visits every "
    "child (no break, no skip) and re-parents the children of an ignored node before cleaning them. NOT decided: idempotence and 'clean "
    "input unchanged' as equalities of serialized documents (tree-shaped runtime data, html5ever parser/serializer pair).")
IMPL = "<impl ruma_html::sanitizer_config::SanitizerConfig>::"
TREE_ACCESSORS = ("parent", "next_sibling", "prev_sibling", "children", "first_child", "last_child", "has_children", "parent_and_index", "detach",
                  "insert_before_sibling", "append_child", "replace_with_element_name")


def run(ctx):
    fx = ctx.facts("A")
    w = W.World(fx, ["ruma_html"])
    ctx.rule("C15.closure", "replacement tables == spec and closed under the allow-lists")
    de = phf(w.value(CL + "DEPRECATED_ELEMENTS"))
    da = phf(w.value(CL + "DEPRECATED_ATTRS"))
    elements = set(phf(w.value(CL + "ALLOWED_ELEMENTS_STRICT")))
    attrs = phf(w.value(CL + "ALLOWED_ATTRIBUTES_STRICT"))
    ctx.check(de == SPEC["deprecated_elements"], "C15.closure", "C15.closure:elements-table", w.where_value(CL + "DEPRECATED_ELEMENTS"), bad_msg=f"{de}")
    ctx.check(da == SPEC["deprecated_attrs"], "C15.closure", "C15.closure:attrs-table", w.where_value(CL + "DEPRECATED_ATTRS"), bad_msg=f"{da}")
    for old, new in de.items():
        ctx.check(new in elements and new not in de and old not in elements, "C15.closure", f"C15.closure:element:{old}->{new}", w.where_value(CL + "DEPRECATED_ELEMENTS"),
                  bad_msg=f"{old} -> {new}: the replacement must be allowed and not deprecated, the deprecated name must not be allowed")
    for el, m in da.items():
        target = de.get(el, el)
        for old, new in m.items():
            ctx.check(new in attrs.get(target, []), "C15.closure", f"C15.closure:attr:{el}.{old}->{new}", w.where_value(CL + "DEPRECATED_ATTRS"),
                      bad_msg=f"{el}.{old} -> {new} is not an allowed attribute of <{target}> (it would be removed by the second pass)")

    # attribute replacement is looked up under the old name, before renaming
    f = w.fn(CL + IMPL + "apply_replacements")
    calls = [(bi, M.callee_name(c), c["line"]) for bi, c in M.calls(f["body"])]
    ren = [ln for _, n, ln in calls if n.endswith("replace_with_element_name")]
    attr_lookup = [ln for _, n, ln in calls if n.endswith("phf::map::Map::<K, V>::get") or n.endswith("Map::<K, V>::get")]
    cfg = M.Cfg(f["body"])
    ren_blocks = [bi for bi, n, _ in calls if n.endswith("replace_with_element_name")]
    borrow_blocks = [bi for bi, n, _ in calls if n.endswith("RefCell::<T>::borrow_mut")]
    good = len(ren_blocks) == 1 and bool(borrow_blocks) and all(not cfg.reaches(ren_blocks[0], [b]) for b in borrow_blocks)
    ctx.check(good, "C15.closure", "C15.closure:attrs-before-rename", w.where(f), bad_msg="attributes are rewritten after (or independently of) the element rename")
    ret_ok = any(M.callee_name(c).endswith("replace_with_element_name") and c["dest"] == 0 for _, c in M.calls(f["body"]))
    ctx.check(ret_ok, "C15.closure", "C15.closure:returns-replacement", w.where(f), bad_msg="apply_replacements does not return the replacement node")

    # ---- locality ------------------------------------------------------------------------------------------------
    ctx.rule("C15.locality", "node_action and clean_element_attributes (and their closures) never touch the tree around the node")
    n = 0
    for fn in w.all_fns():
        p = fn["path"]
        if not (p.startswith(CL + IMPL + "node_action") or p.startswith(CL + IMPL + "clean_element_attributes")) or "body" not in fn:
            continue
        n += 1
        bad = [M.callee_name(c) for _, c in M.calls(fn["body"]) if M.callee_name(c).startswith("ruma_html::html::") and M.callee_name(c).rsplit("::", 1)[-1] in TREE_ACCESSORS]
        ctx.check(not bad, "C15.locality", f"C15.locality:{p[len(CL + IMPL):]}", w.where(fn), bad_msg=f"reads the surrounding tree: {bad}")
    ctx.floor("verdict functions and closures", n, 6)

    # ---- full traversal ---------------------------------------------------------------------------------------------
    ctx.rule("C15.traversal", "clean_node: unless the verdict is Remove every element of node.children() is passed to clean_node; for Ignore the child is moved before the node first")
    fc = w.fn(CL + IMPL + "clean_node")
    dex = D.Dex(w.lookup, adt_discr=w.adt_discr, unroll=2, effects=lambda nme: nme.startswith("ruma_html::"))
    paths = [p for p in dex.paths(fc, [D.sym("self"), D.sym("node"), D.sym("depth")]) if p.kind == "ret"]
    bad = []
    for p in paths:
        tv = U.true_variants(p)
        somes = sorted(s for s, v in tv.items() if s.startswith("Iterator::next(") and "children(" in s and v == "Some")
        visited = [U.shows(e[1])[1] for e in p.effects if e[0].endswith("clean_node")]
        if [s + ".Some.0" for s in somes] != visited:
            bad.append((somes, visited))
    ctx.check(bool(paths) and not bad, "C15.traversal", "C15.traversal:every-child", w.where(fc), bad_msg=f"children yielded vs cleaned: {bad[:1]}")
    body = fc["body"]
    cfg = M.Cfg(body)
    loops = cfg.natural_loops()
    exits_ok = True
    for head, blocks in loops.items():
        ex = [(b, s) for b in blocks for s in cfg.succ[b] if s not in blocks]
        # the only way out of the children loop is the exhausted iterator
        for b, s in ex:
            t = body["blocks"][b]["t"]
            exits_ok = exits_ok and t[0] == "switch"
    ctx.check(exits_ok and len(loops) == 1, "C15.traversal", "C15.traversal:no-break", w.where(fc), bad_msg="the children loop can be left other than by exhaustion")
    ctx.assumptions += ["idempotence itself (equality of serialized documents) is not decided; these are necessary conditions only"]
    ctx.samples += [{"replacement": "font -> span, color -> data-mx-color", "closure": "span allows data-mx-color; span is not deprecated"}]
