"""C15 — idempotence of sanitization: three structural necessary conditions (closure of replacement tables, locality of verdicts, full traversal)."""
import re
from .. import dex as D, world as W, mir as M
from . import util as U
from .C14 import phf, SPEC, CL

LEVEL = "other"
EXPLANATION = (
    "Narrow claim. Decided: (1) the deprecated-element / deprecated-attribute replacement tables equal the specification's and are closed "
    "under the allow-lists (each replacement element is allowed and is not itself deprecated; each replacement attribute is allowed on the "
    "replacement element), and apply_replacements looks the attribute replacement up under the element's old name before the element is "
    "renamed; (2) locality: node_action and clean_element_attributes read only the configuration, the node's own name/attributes and the "
    "depth argument - no parent/sibling/children access - so a kept node gets the same verdict when sanitized again (its depth can only "
    "have decreased and the depth test is monotone); (3) full traversal: for every verdict other than Remove, clean_node visits every "
    "child (no break, no skip) and re-parents the children of an ignored node before cleaning them. NOT decided: idempotence and 'clean "
    "input unchanged' as equalities of serialized documents (tree-shaped runtime data, html5ever parser/serializer pair).")
IMPL = "<impl ruma_html::sanitizer_config::SanitizerConfig>::"
TREE_ACCESSORS = ("parent", "next_sibling", "prev_sibling", "children", "first_child", "last_child", "has_children", "parent_and_index", "detach",
                  "insert_before_sibling", "append_child", "replace_with_element_name")


def replacement_node_rules(ctx, w, rule):
    """How a deprecated element is swapped for its replacement: attributes first, the new node inserted where the old one was, and the NEW node is
    what the sanitizer goes on with. Part of C15 (rewriting) and of C14 (the replacement and its subtree are cleaned)."""
    # attribute replacement is looked up under the old name, before renaming
    f = w.fn(CL + IMPL + "apply_replacements")
    calls = [(bi, M.callee_name(c), c["line"]) for bi, c in M.calls(f["body"])]
    ren = [ln for _, n, ln in calls if n.endswith("replace_with_element_name")]
    attr_lookup = [ln for _, n, ln in calls if n.endswith("phf::map::Map::<K, V>::get") or n.endswith("Map::<K, V>::get")]
    cfg = M.Cfg(f["body"])
    ren_blocks = [bi for bi, n, _ in calls if n.endswith("replace_with_element_name")]
    borrow_blocks = [bi for bi, n, _ in calls if n.endswith("RefCell::<T>::borrow_mut")]
    good = len(ren_blocks) == 1 and bool(borrow_blocks) and all(not cfg.reaches(ren_blocks[0], [b]) for b in borrow_blocks)
    ctx.check(good, rule, f"{rule}:attrs-before-rename", w.where(f), bad_msg="attributes are rewritten after (or independently of) the element rename")
    ret_ok = any(M.callee_name(c).endswith("replace_with_element_name") and c["dest"] == 0 for _, c in M.calls(f["body"]))
    ctx.check(ret_ok, rule, f"{rule}:returns-replacement", w.where(f), bad_msg="apply_replacements does not return the replacement node")

    # ---- the node that takes the place of a renamed element is the one that is cleaned next -----------------------------------------------
    frn = w.lookup("ruma_html::html::NodeRef::replace_with_element_name")
    if frn is None or "body" not in frn:
        ctx.missing(rule, f"{rule}:replace-returns-new-node", "NodeRef::replace_with_element_name not found")
    else:
        dexn = D.Dex(w.lookup, adt_discr=w.adt_discr, unroll=1, effects=lambda n_: n_.startswith("ruma_html::"))
        try:
            rps_ = [p for p in dexn.paths(frn, [D.sym("self"), D.sym("name")]) if p.kind == "ret"]
            good_ = bool(rps_)
            why_ = ""
            for p in rps_:
                ins = [e for e in p.effects if e[0].endswith("::insert_before_sibling")]
                det = [e for e in p.effects if e[0].endswith("::detach")]
                newn = D.show(ins[0][1][0]) if ins else None
                ok_ = len(ins) == 1 and D.show(ins[0][1][1]) == "self" and any(D.show(e[1][0]) == "self" for e in det) and D.show(p.ret) == newn and newn != "self"
                if not ok_:
                    good_, why_ = False, f"returns `{D.show(p.ret)[:60]}`, inserts `{(newn or '-')[:60]}` before `{D.show(ins[0][1][1]) if ins else '-'}`"
            ctx.check(good_, rule, f"{rule}:replace-returns-new-node", w.where(frn),
                      bad_msg=f"replace_with_element_name must insert the new element before the old one, detach the old one and RETURN THE NEW ONE ({why_}): "
                              f"clean_node goes on with the returned node, so returning the detached original leaves the replacement and its subtree uncleaned")
        except D.Unrecognised as e:
            ctx.unrecognised(rule, f"{rule}:replace-returns-new-node", w.where(frn), str(e))



def traversal_rules(ctx, w, rule):
    """Full traversal (shared with C14: a child that is never passed to clean_node leaves the sanitizer untouched)."""
    # ---- full traversal ---------------------------------------------------------------------------------------------
    ctx.rule(rule, "clean_node: unless the verdict is Remove every element of node.children() is passed to clean_node; for Ignore the child is moved before the node first")
    fc = w.fn(CL + IMPL + "clean_node")
    dex = D.Dex(w.lookup, adt_discr=w.adt_discr, unroll=2, effects=lambda nme: nme.startswith("ruma_html::"))
    paths = [p for p in dex.paths(fc, [D.sym("self"), D.sym("node"), D.sym("depth")]) if p.kind == "ret"]
    bad = []
    for p in paths:
        tv = U.true_variants(p)
        somes = sorted(s for s, v in tv.items() if s.startswith("Iterator::next(") and "children(" in s and v == "Some")
        visited = [U.shows(e[1])[1] for e in p.effects if e[0].endswith("clean_node")]
        if [s + ".Some.0" for s in somes] != visited:
            bad.append((somes, visited))
    ctx.check(bool(paths) and not bad, rule, f"{rule}:every-child", w.where(fc), bad_msg=f"children yielded vs cleaned: {bad[:1]}")
    # a child of an ignored (unwrapped) element is moved up BEFORE it is cleaned: cleaning may detach or replace the child, and a handle that was
    # cleaned first re-attaches the discarded node (with its attributes) - which a second pass then removes
    late = []
    for p in paths:
        if not any(a[0] == "variant" and t and "node_action(" in D.show(a[1]) and a[2] == "Ignore" for a, t in p.conds) and \
                not any(a[0] == "eq" and t and "node_action(" in D.show_atom(a) and "Ignore" in D.show_atom(a) for a, t in p.conds):
            continue
        for idx, e in enumerate(p.effects):
            if e[0].endswith("clean_node"):
                child = U.shows(e[1])[1]
                moved_before = any(x[0].endswith("insert_before_sibling") and U.shows(x[1])[0] == child for x in p.effects[:idx])
                if not moved_before:
                    late.append(child[-50:])
    ctx.check(not late, rule, f"{rule}:moved-before-cleaned", w.where(fc),
              bad_msg=f"a child of an ignored element is passed to clean_node before it is moved before the element ({late[:1]}): if cleaning detaches or replaces the child, "
                      f"the stale handle re-attaches the discarded node, and sanitizing twice differs from sanitizing once")
    body = fc["body"]
    cfg = M.Cfg(body)
    loops = cfg.natural_loops()
    exits_ok = True
    for head, blocks in loops.items():
        ex = [(b, s) for b in blocks for s in cfg.succ[b] if s not in blocks]
        # the only way out of the children loop is the exhausted iterator
        for b, s in ex:
            t = body["blocks"][b]["t"]
            exits_ok = exits_ok and t[0] == "switch"
    ctx.check(exits_ok and len(loops) >= 1, rule, f"{rule}:no-break", w.where(fc), bad_msg="the children loop can be left other than by exhaustion")


def run(ctx):
    fx = ctx.facts("A")
    w = W.World(fx, ["ruma_html"])
    ctx.rule("C15.closure", "replacement tables == spec and closed under the allow-lists")
    de = phf(w.value(CL + "DEPRECATED_ELEMENTS"))
    da = phf(w.value(CL + "DEPRECATED_ATTRS"))
    elements = set(phf(w.value(CL + "ALLOWED_ELEMENTS_STRICT")))
    attrs = phf(w.value(CL + "ALLOWED_ATTRIBUTES_STRICT"))
    ctx.check(de == SPEC["deprecated_elements"], "C15.closure", "C15.closure:elements-table", w.where_value(CL + "DEPRECATED_ELEMENTS"), bad_msg=f"{de}")
    ctx.check(da == SPEC["deprecated_attrs"], "C15.closure", "C15.closure:attrs-table", w.where_value(CL + "DEPRECATED_ATTRS"), bad_msg=f"{da}")
    for old, new in de.items():
        ctx.check(new in elements and new not in de and old not in elements, "C15.closure", f"C15.closure:element:{old}->{new}", w.where_value(CL + "DEPRECATED_ELEMENTS"),
                  bad_msg=f"{old} -> {new}: the replacement must be allowed and not deprecated, the deprecated name must not be allowed")
    for el, m in da.items():
        target = de.get(el, el)
        for old, new in m.items():
            ctx.check(new in attrs.get(target, []), "C15.closure", f"C15.closure:attr:{el}.{old}->{new}", w.where_value(CL + "DEPRECATED_ATTRS"),
                      bad_msg=f"{el}.{old} -> {new} is not an allowed attribute of <{target}> (it would be removed by the second pass)")

    replacement_node_rules(ctx, w, "C15.closure")

    # ---- locality ------------------------------------------------------------------------------------------------
    ctx.rule("C15.locality", "node_action and clean_element_attributes (and their closures) never touch the tree around the node")
    n = 0
    for fn in w.all_fns():
        p = fn["path"]
        if not (p.startswith(CL + IMPL + "node_action") or p.startswith(CL + IMPL + "clean_element_attributes")) or "body" not in fn:
            continue
        n += 1
        bad = [M.callee_name(c) for _, c in M.calls(fn["body"]) if M.callee_name(c).startswith("ruma_html::html::") and M.callee_name(c).rsplit("::", 1)[-1] in TREE_ACCESSORS]
        ctx.check(not bad, "C15.locality", f"C15.locality:{p[len(CL + IMPL):]}", w.where(fn), bad_msg=f"reads the surrounding tree: {bad}")
    ctx.floor("verdict functions and closures", n, 6)

    traversal_rules(ctx, w, "C15.traversal")
    # ---- depth monotonicity ------------------------------------------------------------------------------------------
    ctx.rule("C15.depth-monotone", "node_action reads `depth` only in a lower-bound test (depth >= / > limit) whose true outcome is NodeAction::Remove: "
                                   "clean_node hoists the children of ignored elements, so a second pass sees every surviving node at a depth <= the first "
                                   "pass's; a verdict that is not monotone in depth (e.g. `depth == 0`) makes the second pass differ from the first")
    fna = w.fn(CL + IMPL + "node_action")
    uses = depth_uses(w, fna, {3}, set())
    ctx.floor("reads of depth in node_action", len(uses), 1)
    for i, (kind, where_fn, line, detail) in enumerate(uses):
        ctx.check(kind == "lower-bound-removes", "C15.depth-monotone", f"C15.depth-monotone:{kind}:{detail}", w.where(where_fn, line),
                  ok_msg="depth >= limit => Remove",
                  bad_msg=f"`depth` is used in {detail} ({kind}): the verdict is not a lower-bound test leading to Remove, so a node kept at depth d can be "
                          f"treated differently once hoisting moved it to a smaller depth (sanitize is then not idempotent)")
    # ---- deprecated replacements in both modes ---------------------------------------------------------------------------
    ctx.rule("C15.replacements-mode", "apply_replacements (helpers inlined) consults the sanitizer mode only as present/absent: no path distinguishes strict "
                                      "from compat, so <font>/<strike>/color are rewritten in both modes (compat is strict plus extras)")
    fr = w.fn(CL + IMPL + "apply_replacements")
    dexr = D.Dex(w.lookup, adt_discr=w.adt_discr, unroll=0, max_paths=400000,
                 inline=lambda n: "{closure" in n or (n.startswith(CL + IMPL) and n[len(CL + IMPL):] not in ("apply_replacements", "clean_node", "node_action", "clean_element_attributes") and "::" not in n[len(CL + IMPL):]))
    rps = dexr.paths(fr, [D.sym("self"), D.sym("node")])
    ctx.floor("apply_replacements paths", len(rps), 20)
    mode_atoms = sorted({D.show_atom(a) for p in rps for a, t in p.conds if "self.mode" in D.show_atom(a)})
    ctx.floor("mode tests in apply_replacements", len(mode_atoms), 1)
    bad = [a for a in mode_atoms if a not in ("self.mode is Some", "self.mode is None")]
    ctx.check(not bad, "C15.replacements-mode", "C15.replacements-mode:mode-blind", w.where(fr),
              bad_msg=f"apply_replacements branches on {bad}: the built-in replacements of deprecated elements/attributes are applied in one mode only "
                      f"(e.g. compat-mode `Html::sanitize()` unwraps <font color=..> instead of rewriting it to <span data-mx-color=..>)")
    # ---- a custom attribute-replacement list ADDS to the mode's table: the lookup falls back per attribute ------------------------------------
    ctx.rule("C15.attr-fallback", "apply_replacements' per-attribute lookup: an attribute that the custom list for the element does not mention is still looked up in "
                                  "the mode's deprecated-attribute table (the fallback is per attribute, not per element)")
    dexf = D.Dex(w.lookup, adt_discr=w.adt_discr, unroll=0, inline=lambda n_: "{closure" in n_)
    found = False
    for cfn in [g for g in w.all_fns() if "body" in g and g["path"].startswith(CL + IMPL + "apply_replacements::{closure")]:
        try:
            cps = dexf.paths(cfn, [D.sym("env"), D.sym("attr")][:cfn["body"]["argc"]])
        except D.Unrecognised:
            continue
        atoms = {D.show_atom(a) for p in cps for a, t in p.conds}
        if not (any("list_replacements" in a for a in atoms) and any("mode_replacements" in a for a in atoms)):
            continue
        found = True
        skipped = [p for p in cps if p.kind == "ret" and
                   any(re.search(r"get\(env\._ref__list_replacements\.Some\.0, .*\) is None$", D.show_atom(a)) and t for a, t in p.conds) and
                   not any("mode_replacements" in D.show_atom(a) for a, t in p.conds)]
        ctx.check(not skipped, "C15.attr-fallback", "C15.attr-fallback:per-attribute", w.where(cfn),
                  bad_msg="when the element has a custom replacement list that does not mention the attribute, the mode's table is not consulted: with a list added "
                          "for `font` (ListBehavior::Add), `color` is no longer rewritten to `data-mx-color` and is then removed as a disallowed attribute")
    if not found:
        ctx.unrecognised("C15.attr-fallback", "C15.attr-fallback:per-attribute", w.where(w.fn(CL + IMPL + "apply_replacements")),
                         "the closure that looks an attribute up in the custom list and in the mode table was not found")

    # ---- a clean class attribute is left alone ------------------------------------------------------------------------------
    ctx.rule("C15.class-untouched", "the per-attribute closure leaves a `class` value alone when no class was filtered out: the no-action verdict compares the "
                                    "NUMBER of class tokens before and after filtering; the re-joined text is only ever written (ReplaceValue), never compared "
                                    "with the original value (`a  b`, ` a`, a tab between classes are clean values that differ from their single-space re-join)")
    import json as _json
    from . import panic_common as PC
    clos = [fn for fn in w.all_fns() if fn["path"].startswith(CL + IMPL + "clean_element_attributes::{closure#") and "body" in fn]
    mainc = max(clos, key=lambda fn: len(fn["body"]["blocks"])) if clos else None
    if mainc is None:
        ctx.missing("C15.class-untouched", "C15.class-untouched:closure", "per-attribute closure not found")
    else:
        body = mainc["body"]
        defs = PC.roots(body)
        len_cmp = False
        for b in body["blocks"]:
            for st in b["s"]:
                if st[0] == "=" and st[2][0] == "bin" and st[2][1] in ("Eq", "Ne", "Lt", "Gt", "Le", "Ge"):
                    l, r = (_json.dumps(PC.expr(body, defs, st[2][k])) for k in (2, 3))
                    if "Vec::<T, A>::len" in l and "Vec::<T, A>::len" in r and ("split_whitespace" in l + r or "split_ascii_whitespace" in l + r):
                        len_cmp = True
        # the count comparison comes first: an emptiness test of the filtered list that is not behind it also fires for a `class` value that had no token
        # to begin with (`class=""`), and removes an attribute from which nothing was filtered
        cfg_ = M.Cfg(body)
        cmp_blocks = []
        for bi_, b in enumerate(body["blocks"]):
            for st in b["s"]:
                if st[0] == "=" and st[2][0] == "bin" and st[2][1] in ("Eq", "Ne"):
                    l, r = (_json.dumps(PC.expr(body, defs, st[2][k])) for k in (2, 3))
                    if "Vec::<T, A>::len" in l and "Vec::<T, A>::len" in r:
                        cmp_blocks.append(bi_)
        early_empty = []
        for bi_, c in M.calls(body):
            if M.callee_name(c).endswith("Vec::<T, A>::is_empty") and c["args"]:
                a_ = _json.dumps(PC.expr(body, defs, c["args"][0]))
                if ("split_whitespace" in a_ or "split_ascii_whitespace" in a_ or "retain" in a_ or "collect" in a_) and \
                   not any(cb != bi_ and cfg_.dominates(cb, bi_) for cb in cmp_blocks):
                    early_empty.append(c["line"])
        if early_empty and cmp_blocks:
            ctx.violation("C15.class-untouched", "C15.class-untouched:empty-before-count", w.where(mainc, early_empty[0]),
                          "the filtered class list is tested for emptiness before the token count is compared with the original count: a `class` attribute without any "
                          "token (`class=\"\"`) is removed although nothing was filtered - an already clean document is changed")
        joined_compared = []
        for bi, c in M.calls(body):
            n = M.callee_name(c)
            if re.search(r"PartialEq.*::(eq|ne)$|::(cmp|partial_cmp|starts_with|ends_with|contains|eq_ignore_ascii_case)$", n):
                args = [_json.dumps(PC.expr(body, defs, a)) for a in c["args"]]
                if any("::join" in a or "::concat" in a for a in args):
                    joined_compared.append((n.rsplit("::", 1)[-1], c["line"]))
        if joined_compared:
            ctx.violation("C15.class-untouched", "C15.class-untouched:text-compare", w.where(mainc, joined_compared[0][1]),
                          f"the re-joined class list is compared ({joined_compared[0][0]}) with another string: a clean `class` value with irregular whitespace "
                          f"(`language-a  language-b`, a leading space, a tab) differs from its re-join and is rewritten or removed although nothing was filtered")
        else:
            ctx.check(len_cmp, "C15.class-untouched", "C15.class-untouched:count-compare", w.where(mainc),
                      bad_msg="no comparison of the class count before and after filtering was found: the attribute is rewritten even when nothing was filtered")
    # "a clean document within the depth limit is returned unchanged" presupposes the limit (explicit value first, else the mode's 100), the allow-lists
    # and the node verdicts of C14: those rules are part of this check
    from . import C14 as _C14
    _C14.run(ctx)
    ctx.assumptions += ["idempotence itself (equality of serialized documents) is not decided; these are necessary conditions only"]
    ctx.samples += [{"replacement": "font -> span, color -> data-mx-color", "closure": "span allows data-mx-color; span is not deprecated"}]


def _root(pl):
    return pl if isinstance(pl, int) else pl["l"]


def _only_deref(pl):
    return isinstance(pl, int) or all(p == "*" for p in pl["p"])


def _removes(body, bb):
    # follow trampolines: blocks without assignments that only jump on
    seen = set()
    while bb not in seen and not any(st[0] == "=" for st in body["blocks"][bb]["s"]) and body["blocks"][bb]["t"][0] == "goto":
        seen.add(bb)
        bb = body["blocks"][bb]["t"][1]
    return any(st[0] == "=" and st[1] == 0 and st[2][0] == "agg" and st[2][1].get("variant") == "Remove" for st in body["blocks"][bb]["s"])


def depth_uses(w, fn, D0, upvar_fields):
    """Classify every read of the depth value in `fn` (D0: locals holding it; upvar_fields: closure-environment field names holding a reference to it).
    Returns [(kind, fn, line, detail)], kind == "lower-bound-removes" for the accepted shape."""
    body = fn["body"]
    Dv, Rf = set(D0), set()       # locals holding the value / a reference to it
    out = []
    for _ in range(3):
        for b in body["blocks"]:
            for st in b["s"]:
                if st[0] != "=":
                    continue
                dst, rv = st[1], st[2]
                if not isinstance(dst, int):
                    continue
                if rv[0] == "use" and rv[1].get("k") in ("copy", "move"):
                    pl = rv[1]["pl"]
                    if isinstance(pl, dict) and pl["l"] == 1 and any(isinstance(q, list) and q[0] == "f" and q[2] in upvar_fields for q in pl["p"]):
                        (Dv if any(q == "*" for q in pl["p"]) else Rf).add(dst)
                    elif _root(pl) in Dv and _only_deref(pl):
                        Dv.add(dst)
                    elif _root(pl) in Rf and not isinstance(pl, int) and _only_deref(pl):
                        Dv.add(dst)
                    elif _root(pl) in Rf and isinstance(pl, int):
                        Rf.add(dst)
                elif rv[0] == "ref" and _root(rv[2]) in Dv and _only_deref(rv[2]):
                    Rf.add(dst)
    consumed = set()
    for bi, b in enumerate(body["blocks"]):
        for st in b["s"]:
            if st[0] != "=":
                continue
            dst, rv, line = st[1], st[2], st[3] if len(st) > 3 else None
            if rv[0] == "bin":
                a, c = rv[2], rv[3]
                la = a.get("k") in ("copy", "move") and _root(a["pl"]) in Dv
                lc = c.get("k") in ("copy", "move") and _root(c["pl"]) in Dv
                if la or lc:
                    consumed |= {(_root(x["pl"])) for x in (a, c) if x.get("k") in ("copy", "move")}
                    op = rv[1]
                    big_true = (la and op in ("Ge", "Gt")) or (lc and op in ("Le", "Lt"))
                    big_false = (la and op in ("Lt", "Le")) or (lc and op in ("Gt", "Ge"))
                    if not (big_true or big_false):
                        out.append(("non-order-test", fn, line, f"{op}"))
                        continue
                    out.append(_follow(w, fn, body, bi, dst, big_true, line))
            elif rv[0] == "agg" and rv[1].get("k") == "closure":
                ops = rv[2]
                clo = w.lookup(rv[1]["def"])
                names = (clo or {}).get("upvars") or []
                fields = {names[i] for i, o in enumerate(ops) if o.get("k") in ("copy", "move") and _root(o["pl"]) in (Rf | Dv) and i < len(names)}
                if fields and clo is not None:
                    inner = depth_uses(w, clo, set(), fields)
                    for kind, f2, line2, detail in inner:
                        if kind == "closure-result":
                            out.append(_follow_closure(w, fn, body, bi, dst, detail == "big-true", line))
                        else:
                            out.append((kind, f2, line2, detail))
                    consumed |= {_root(o["pl"]) for o in ops if o.get("k") in ("copy", "move")}
    # any other appearance of the value (call argument, arithmetic, cast, ...) is not understood
    import json as _json
    for bi, b in enumerate(body["blocks"]):
        t = b["t"]
        if t[0] == "call":
            for o in t[1]["args"]:
                if o.get("k") in ("copy", "move") and _root(o["pl"]) in (Dv | Rf) and _root(o["pl"]) not in consumed:
                    out.append(("passed-to-call", fn, t[1].get("line"), M.callee_name(t[1]).rsplit("::", 1)[-1]))
    return out


def _switches_on(body, local):
    """All `switch` terminators that test `local` or a plain copy of it (named booleans, `a || b || c` chains)."""
    aliases = {local}
    for _ in range(4):
        for b in body["blocks"]:
            for st in b["s"]:
                if st[0] == "=" and isinstance(st[1], int) and st[2][0] == "use" and st[2][1].get("k") in ("copy", "move") and \
                        isinstance(st[2][1]["pl"], int) and st[2][1]["pl"] in aliases:
                    aliases.add(st[1])
    out = []
    for b in body["blocks"]:
        t = b["t"]
        if t[0] == "switch" and t[1].get("k") in ("copy", "move") and isinstance(t[1]["pl"], int) and t[1]["pl"] in aliases:
            out.append(t)
    return out


def _big_removes(body, switches, big_is_true):
    if not switches:
        return None
    for t in switches:
        false_bb = [tb for v, tb in t[2] if v == 0]
        target = t[3] if big_is_true else (false_bb[0] if false_bb else None)
        if target is None or not _removes(body, target):
            return False
    return True


def _follow(w, fn, body, bi, res, big_true, line):
    """The comparison result `res` (computed in block bi): returned from a closure, or switched on."""
    t = body["blocks"][bi]["t"]
    if res == 0 and t[0] == "ret":
        return ("closure-result", fn, line, "big-true" if big_true else "big-false")
    r = _big_removes(body, _switches_on(body, res), big_true)
    if r is True:
        return ("lower-bound-removes", fn, line, "direct")
    if r is False:
        return ("big-depth-does-not-remove", fn, line, "direct")
    return ("unrecognised-result-flow", fn, line, "direct")


def _follow_closure(w, fn, body, bi, clo_local, big_true, line):
    """The closure (comparison inside) is passed to Option::is_some_and / is_none_or; its result is switched on."""
    b = body["blocks"][bi]
    t = b["t"]
    if t[0] != "call" or not any(o.get("k") in ("copy", "move") and _root(o["pl"]) == clo_local for o in t[1]["args"]):
        return ("unrecognised-result-flow", fn, line, "closure")
    name = M.callee_name(t[1]).rsplit("::", 1)[-1]
    if name not in ("is_some_and", "is_none_or"):
        return ("unrecognised-result-flow", fn, line, "closure:" + name)
    dest = t[1]["dest"] if isinstance(t[1]["dest"], int) else _root(t[1]["dest"])
    if name == "is_some_and" and big_true:
        r = _big_removes(body, _switches_on(body, dest), True)       # true => depth large
    elif name == "is_none_or" and not big_true:
        r = _big_removes(body, _switches_on(body, dest), False)      # false => depth large
    else:
        return ("unrecognised-polarity", fn, line, f"closure:{name}")
    if r is True:
        return ("lower-bound-removes", fn, line, f"{name}")
    if r is False:
        return ("big-depth-does-not-remove", fn, line, f"{name}")
    return ("unrecognised-result-flow", fn, line, "closure")
