"""C14 — sanitized HTML: allow-lists == spec, scheme check covers every attribute (no early accept in the for-all loop), node kinds, depth."""
import re
from .. import dex as D, world as W, mir as M
from . import tables as T, util as U

LEVEL = "other"
EXPLANATION = (
    "(A1) the phf allow-lists of ruma-html (elements, per-element attributes, URI schemes for a.href / img.src, classes for code, "
    "depth limit, reply element) are const-evaluated and compared with the specification's lists; (A6) in node_action the loop that "
    "checks URI schemes attribute by attribute may produce the accepting verdict only from its exhausted edge - an in-loop accept "
    "short-circuits the universal check (this is what let `<a class=x href=javascript:..>` through before the repair); (A4) the node "
    "dispatch: text is kept, every other non-element node kind is removed, ignored/removed nodes are detached, kept elements get "
    "their attributes cleaned, children of a removed node are not visited and recursion passes depth + 1 with a `depth >= max` test; "
    "the order of the element verdicts (remove list, reply fallback, depth, ignore list, allow list) and of the attribute verdicts "
    "(remove list, allow list, class filter). What an HTML parser sees in html5ever's serialization is not decided.")
CL = "ruma_html::sanitizer_config::clean::"
SPEC = {
    "elements": "del h1 h2 h3 h4 h5 h6 blockquote p a ul ol sup sub li b i u strong em s code hr br div table thead tbody tr th td caption pre span img details summary mx-reply".split(),
    "attributes": {"span": ["data-mx-bg-color", "data-mx-color", "data-mx-spoiler", "data-mx-maths"], "a": ["target", "href"],
                   "img": ["width", "height", "alt", "title", "src"], "ol": ["start"], "code": ["class"], "div": ["data-mx-maths"]},
    "schemes_strict": {"a": {"href": ["https", "http", "ftp", "mailto", "magnet"]}, "img": {"src": ["mxc"]}},
    "schemes_compat": {"a": {"href": ["matrix"]}},
    "classes": {"code": ["language-*"]},
    "max_depth": 100, "reply": "mx-reply",
    "deprecated_elements": {"font": "span", "strike": "s"}, "deprecated_attrs": {"font": {"color": "data-mx-color"}},
}


def phf(v):
    """phf::Set -> sorted list of keys; phf::Map -> dict key -> decoded value"""
    if isinstance(v, dict) and v.get("adt") == "phf::set::Set":
        return sorted(k for k, _ in v["fields"]["map"]["fields"]["entries"])
    if isinstance(v, dict) and v.get("adt") == "phf::map::Map":
        return {k: phf(x) for k, x in v["fields"]["entries"]}
    return v


def run(ctx):
    fx = ctx.facts("A")
    w = W.World(fx, ["ruma_html"])
    ctx.rule("C14.lists", "allow-lists, scheme lists, class list, depth limit and reply element equal the specification's (const-evaluated phf tables)")
    def val(name):
        return phf(w.value(CL + name))
    checks = [
        ("ALLOWED_ELEMENTS_STRICT", sorted(SPEC["elements"])),
        ("ALLOWED_ATTRIBUTES_STRICT", {k: sorted(v) for k, v in SPEC["attributes"].items()}),
        ("ALLOWED_SCHEMES_STRICT", {e: {a: sorted(s) for a, s in m.items()} for e, m in SPEC["schemes_strict"].items()}),
        ("ALLOWED_SCHEMES_COMPAT", {e: {a: sorted(s) for a, s in m.items()} for e, m in SPEC["schemes_compat"].items()}),
        ("ALLOWED_CLASSES_STRICT", {k: sorted(v) for k, v in SPEC["classes"].items()}),
        ("MAX_DEPTH_STRICT", SPEC["max_depth"]), ("RICH_REPLY_ELEMENT_NAME", SPEC["reply"]),
    ]
    for name, want in checks:
        got = val(name)
        ctx.check(got == want, "C14.lists", f"C14.lists:{name}", w.where_value(CL + name), bad_msg=f"{name} = {got}; the specification's list is {want}")

    # ---- A6: no early accept in the for-all scheme loop --------------------------------------------------
    ctx.rule("C14.all-attributes", "node_action: in a loop over the element's attributes whose body can return a rejecting verdict, the verdict produced when "
                                   "the loop is exhausted (accept) is never returned from inside the loop")
    f = w.fn(CL + "<impl ruma_html::sanitizer_config::SanitizerConfig>::node_action")
    body = f["body"]
    n_loops = 0
    for exhausted, vals, bad in early_accept_loops(f, lambda c: "Attribute" in (c.get("fnargs") or [""])[0]):
        n_loops += 1
        key = f"C14.all-attributes:loop#{n_loops}"
        if exhausted is None:
            ctx.ok("C14.all-attributes", key + ":exists-loop", w.where(f), "loop result is not a verdict by itself (falls through)", nontrivial=False)
            continue
        ctx.check(not bad, "C14.all-attributes", key + f":exhausted={exhausted}", w.where(f, bad[0][1] if bad else None),
                  ok_msg=f"in-loop verdicts {sorted(vals)}, exhausted verdict {exhausted}",
                  bad_msg=f"the loop over attributes returns the accepting verdict NodeAction::{exhausted} from inside the loop (line {bad[0][1] if bad else '?'}): "
                          f"attributes after the first one without a scheme list are never checked")
    # a scan written as attrs.iter().any(..) / .all(..) has no loop body to return from (the adaptor owns the iteration): counted, nothing to check
    n_adapt = sum(1 for _, c in M.calls(body) if M.callee_name(c).rsplit("::", 1)[-1] in ("any", "all") and "Attribute" in " ".join(c.get("fnargs") or []))
    ctx.floor("attribute scans in node_action (loops + any/all)", n_loops + n_adapt, 2)

    # ---- node kinds / clean_node dispatch ---------------------------------------------------------------------------
    ctx.rule("C14.nodes", "node_action: Text -> None, non-element non-text -> Remove; clean_node: children are visited unless the verdict is Remove, with depth + 1; "
                          "Ignore/Remove nodes are detached; kept elements get clean_element_attributes; the depth test is `depth >= max`")
    kinds = {}
    for bi, b in enumerate(body["blocks"]):
        pass
    dex = D.Dex(w.lookup, adt_discr=w.adt_discr, unroll=0, inline=lambda n: False, effects=lambda n: n.startswith("ruma_html::"), max_paths=400000)
    paths = []
    try:
        paths = dex.paths(f, [D.sym("self"), D.sym("node"), D.sym("depth")])
        for p in paths:
            v = [a[2] for a, t in p.conds if a[0] == "variant" and t and D.show(a[1]) == "NodeRef::data(node)"]
            if v and v[0] != "Element" and p.kind == "ret":
                kinds.setdefault(v[0], set()).add(D.show(p.ret))
            if not v and p.kind == "ret" and all(not t for a, t in p.conds if a[0] == "variant" and D.show(a[1]) == "NodeRef::data(node)"):
                kinds.setdefault("<other>", set()).add(D.show(p.ret))
        good = kinds.get("Text") == {"NodeAction::None"} and all(v == {"NodeAction::Remove"} for k, v in kinds.items() if k != "Text") and len(kinds) >= 2
        ctx.check(good, "C14.nodes", "C14.nodes:kinds", w.where(f), bad_msg=f"verdict by node kind: {kinds}")
        # depth atom
        depth_atoms = {D.show_atom(a) for p in paths for a, t in p.conds if a[0] == "cmp" and "depth" in D.show_atom(a)}
        ctx.check(any(x.startswith("depth < ") for x in depth_atoms) and len(depth_atoms) == 1, "C14.nodes", "C14.nodes:depth-test", w.where(f),
                  bad_msg=f"depth comparison atoms: {depth_atoms}")
        rem_depth = [p for p in paths if p.kind == "ret" and any(a[0] == "cmp" and not t and D.show_atom(a).startswith("depth < ") for a, t in p.conds)]
        ctx.check(bool(rem_depth) and all(D.show(p.ret) == "NodeAction::Remove" for p in rem_depth), "C14.nodes", "C14.nodes:depth-verdict", w.where(f),
                  bad_msg="an element at depth >= max is not removed")
        # order of element verdicts: a path that returns Remove for the remove list must not have consulted ignore/allow lists first
        order = []
        for p in paths:
            if p.kind != "ret":
                continue
            seq = []
            for a, t in p.conds:
                s_ = D.show_atom(a)
                for tag, needle in (("remove_elements", "self.remove_elements"), ("reply", "self.remove_reply_fallback"), ("depth", "depth < "),
                                    ("ignore_elements", "self.ignore_elements"), ("allow_elements", "self.allow_elements"), ("deny_schemes", "self.deny_schemes"),
                                    ("allow_schemes", "self.allow_schemes")):
                    if needle in s_ and tag not in seq:
                        seq.append(tag)
            order.append(tuple(seq))
        canonical = ["remove_elements", "reply", "depth", "ignore_elements", "allow_elements", "deny_schemes", "allow_schemes"]
        bad_order = [o for o in set(order) if [x for x in canonical if x in o] != list(o)]
        ctx.check(not bad_order, "C14.nodes", "C14.nodes:verdict-order", w.where(f), bad_msg=f"element checks are consulted out of the documented order: {bad_order[:2]}")
    except D.Unrecognised as e:
        ctx.unrecognised("C14.nodes", "C14.nodes:node_action", w.where(f), str(e))
    reply_fallback_rule(ctx, w, f, paths)
    scheme_delimiter_rule(ctx, w, f)
    ctx.rule("C14.replaced-node", "a renamed (deprecated) element: the node the sanitizer continues with is the replacement that is in the tree, so its attributes "
                                  "and subtree are cleaned like any other element's")
    from . import C15 as _C15
    _C15.replacement_node_rules(ctx, w, "C14.replaced-node")
    # every node the sanitizer emits has been through node_action / clean_element_attributes: the children of kept AND of ignored (unwrapped)
    # elements are each passed to clean_node
    _C15.traversal_rules(ctx, w, "C14.traversal")
    # the sanitizer removes a node with detach() and walks siblings through the parent link: a node that the tree builder left without a parent link (or
    # with a stale one) cannot be removed or visited. The link pairing of the tree operations (C17.tree-links) is part of this check
    from . import C17 as _C17
    _C17.tree_link_rule(ctx, w, "C14.tree-links")
    fc = w.fn(CL + "<impl ruma_html::sanitizer_config::SanitizerConfig>::clean_node")
    dex2 = D.Dex(w.lookup, adt_discr=w.adt_discr, unroll=1, effects=lambda n: n.startswith("ruma_html::"))
    paths = dex2.paths(fc, [D.sym("self"), D.sym("node"), D.sym("depth")])
    by_action = {}
    for p in paths:
        if p.kind != "ret":
            continue
        act = [a[2] for a, t in p.conds if a[0] == "variant" and t and "node_action(" in D.show(a[1])]
        nots = [a[2] for a, t in p.conds if a[0] == "variant" and not t and "node_action(" in D.show(a[1])]
        names = [e[0].rsplit("::", 1)[-1] for e in p.effects]
        by_action.setdefault(act[0] if act else "not:" + ",".join(sorted(set(nots))), []).append((names, p))
    good = True
    detail = {}
    for act, lst in by_action.items():
        for names, p in lst:
            visits_children = "children" in names
            detaches = "detach" in names
            cleans = "clean_element_attributes" in names
            detail[act] = (visits_children, detaches, cleans)
            if act == "Remove":
                good = good and not visits_children and detaches and not cleans
            elif act == "Ignore":
                good = good and visits_children and detaches and not cleans
            rec = [e for e in p.effects if e[0].endswith("clean_node")]
            for e in rec:
                a = U.shows(e[1])
                good = good and a[2].replace(" ", "") in ("AddWithOverflow(depth,1)", "AddWithOverflow(depth,1).0") and "Iterator::next(" in a[1]
                if act == "Ignore":
                    idx = p.effects.index(e)
                    prior = [x[0].rsplit("::", 1)[-1] for x in p.effects[:idx]]
                    good = good and "insert_before_sibling" in prior
    ctx.check(good and "Remove" in by_action and "Ignore" in by_action, "C14.nodes", "C14.nodes:clean_node", w.where(fc), bad_msg=f"(visits children, detaches, cleans attrs) by verdict: {detail}")
    none_paths = [x for act, lst in by_action.items() if act not in ("Remove", "Ignore") for x in lst]
    okk = any("clean_element_attributes" in names for names, _ in none_paths) and all("detach" not in names for names, _ in none_paths)
    ctx.check(okk, "C14.nodes", "C14.nodes:kept-elements", w.where(fc), bad_msg="kept nodes are detached or their attributes are not cleaned")

    # ---- attribute verdict order -----------------------------------------------------------------------------------------
    ctx.rule("C14.attributes", "clean_element_attributes' per-attribute closure: remove list first, then the allow list (list or mode), then class filtering only for `class`; "
                               "an attribute outside every allow list is removed when a whitelist applies")
    clos = [fn for fn in w.all_fns() if fn["path"].startswith(CL + "<impl ruma_html::sanitizer_config::SanitizerConfig>::clean_element_attributes::{closure#") and "body" in fn]
    main = max(clos, key=lambda fn: len(fn["body"]["blocks"])) if clos else None
    if main is None:
        ctx.missing("C14.attributes", "C14.attributes:closure", "per-attribute closure not found")
    else:
        dex3 = D.Dex(w.lookup, adt_discr=w.adt_discr, unroll=0, inline=lambda n: "{closure" in n and "clean_element_attributes::{closure" in n and False, max_paths=200000)
        ps = dex3.paths(main, [D.sym("env"), D.sym("attr")])
        rem = [p for p in ps if p.kind == "ret" and "AttributeAction::Remove" in D.show(p.ret)]
        keep = [p for p in ps if p.kind == "ret" and D.show(p.ret) == "Option::None"]
        # a path that keeps the attribute under a whitelist must have passed list_allowed or mode_allowed
        bad = []
        for p in keep:
            conds = [(D.show_atom(a), t) for a, t in p.conds]
            wl = [t for s_, t in conds if s_.endswith("whitelist_attrs") or "whitelist_attrs" in s_ and "is" not in s_]
            if any(t for s_, t in conds if "whitelist_attrs" in s_):
                allowed = [t for s_, t in conds if ("list_allow_attrs" in s_ or "mode_allow_attrs" in s_) and ("is_some_and" in s_ or "contains" in s_ or "apply(" in s_)]
                if not any(allowed):
                    bad.append([s_[:60] for s_, t in conds][:6])
        ctx.check(bool(rem) and bool(keep) and not bad, "C14.attributes", "C14.attributes:whitelist", w.where(main), bad_msg=f"kept without being allowed: {bad[:1]}")
        # the allow-lists hold HTML attribute names: an attribute in a namespace (`xlink:href`, `xml:lang` inside <svg>/<math>) is serialized with its prefix,
        # so matching its local name alone lets an attribute through that an HTML parser reads under another name
        bad_ns = []
        for p in keep:
            conds = [(D.show_atom(a), t) for a, t in p.conds]
            if any(t for s_, t in conds if "whitelist_attrs" in s_):
                ns_ok = any(("attr.name.ns" in s_ and (("is_empty(" in s_ and t) or (s_.endswith("==''") and t))) for s_, t in conds)
                if not ns_ok:
                    bad_ns.append([s_[:50] for s_, t in conds][:5])
        ctx.check(not bad_ns, "C14.attributes", "C14.attributes:namespace", w.where(main),
                  bad_msg=f"under an attribute whitelist an attribute is kept on a path that never looks at its namespace ({bad_ns[:1]}): "
                          f"`<svg><a xlink:href=..>` keeps `xlink:href` because its local name `href` is allowed on `a`")
    # ---- class filter -------------------------------------------------------------------------------------------------------
    ctx.rule("C14.classes", "the `class` value is tokenised on ASCII/Unicode whitespace exactly as an HTML parser splits it (str::split_whitespace / "
                            "split_ascii_whitespace, no other splitter); under a class whitelist a token is retained only after a WildMatch allow "
                            "pattern matched it and dropped when the patterns are exhausted; a token matching a remove pattern is dropped; the kept "
                            "tokens are re-joined with a single space")
    if main is not None:
        names = [M.callee_name(c) for _, c in M.calls(main["body"])]
        splitters = [n for n in names if re.search(r"<impl str>::(r?split\w*|lines|char_indices|chars|bytes|matches)$", n)]
        good = [n for n in splitters if n.endswith(("::split_whitespace", "::split_ascii_whitespace"))]
        ctx.check(len(good) == 1 and len(splitters) == 1, "C14.classes", "C14.classes:tokenise", w.where(main),
                  ok_msg=f"tokenised by {good[0].rsplit('::', 1)[-1] if good else '?'}",
                  bad_msg=f"class tokens are produced by {[n.rsplit('::', 1)[-1] for n in splitters]}: a value such as `language-x<TAB>evil` is one token for the "
                          f"filter but two classes for an HTML parser, so a class outside the allow-list survives")
        ctx.check(any(n.endswith("::join") for n in names), "C14.classes", "C14.classes:join", w.where(main), bad_msg="kept classes are not re-joined with join(..)")
        def clean_helper(n):
            rest = n[len(CL):] if n.startswith(CL) else None
            return rest is not None and "::" not in rest and "<" not in rest and "{" not in rest
        dexc = D.Dex(w.lookup, adt_discr=w.adt_discr, unroll=1, inline=clean_helper)
        def nested(gp):
            return [h for h in w.all_fns() if h["path"].startswith(gp + "::{closure#") and "body" in h]
        def calls_matches(h, depth=0):
            for _, c in M.calls(h["body"]):
                n = M.callee_name(c)
                if n.endswith("::matches") and "WildMatch" in n:
                    return True
                if depth < 2 and clean_helper(n) and w.lookup(n) is not None and "body" in w.lookup(n) and \
                   (calls_matches(w.lookup(n), depth + 1) or any(calls_matches(h2, depth + 1) for h2 in nested(w.lookup(n)["path"]))):
                    return True
            return False
        # which list a filter closure works on is read from where the closure is built: the values it captures (`list_remove_classes.Some.0`,
        # `list_allow_classes` / `mode_allow_classes`), not from the names of its own locals
        from . import panic_common as _PC
        import json as _json
        _mb, _md = main["body"], _PC.roots(main["body"])
        captured = {}
        for b_ in _mb["blocks"]:
            for st_ in b_["s"]:
                if st_[0] == "=" and st_[2][0] == "agg" and isinstance(st_[2][1], dict) and st_[2][1].get("k") == "closure":
                    captured[st_[2][1].get("def")] = " ".join(_json.dumps(_PC.expr(_mb, _md, o_)) for o_ in st_[2][2])
        subs = [fn for fn in w.all_fns() if fn["path"].startswith(main["path"] + "::{closure#") and fn["path"].count("{closure") == main["path"].count("{closure") + 1
                and "body" in fn and (calls_matches(fn) or any(calls_matches(h) for h in nested(fn["path"])))]
        kinds = {}
        for g in subs:
            ps = dexc.paths(g, [D.sym("env"), D.sym("class")])
            txt = " ".join(D.show_atom(a) for p in ps for a, t in p.conds) + " ".join(D.show(p.ret) for p in ps if p.kind == "ret")
            txt += " " + captured.get(g["path"], "")
            kind = "remove" if "remove_classes" in txt else "allow" if "allow_classes" in txt else "?"
            rets = [p for p in ps if p.kind == "ret"]
            okk = bool(rets) and all(p.kind in ("ret", "loop") for p in ps)
            for p in rets:
                r = D.show(p.ret)
                if p.ret is not None and p.ret[0] in ("atom", "natom", "sym") and r.lstrip("!(").startswith("Iterator::any("):
                    # iterator shape: [!]patterns.any(|pattern| WildMatch::new(pattern).matches(class))
                    m = re.search(r"closure\[([^\]]+)\]\{_ref__(\w+)=class\}\)\)?$", r)
                    inner = w.lookup(m.group(1)) if m else None
                    iok = False
                    if inner is not None and "body" in inner:
                        ips = dexc.paths(inner, [D.sym("env"), D.sym("pattern")])
                        iok = len(ips) == 1 and D.show(ips[0].ret) == f"WildMatchPattern::matches(WildMatchPattern::new(pattern), env._ref__{m.group(2)})"
                    positive = p.ret[0] != "natom"
                    okk = okk and iok and ((kind == "allow" and positive) or (kind == "remove" and not positive)) and \
                        (("remove_classes" in r + " " + captured.get(g["path"], "")) == (kind == "remove"))
                    continue
                conds = [(D.show_atom(a), t) for a, t in p.conds]
                m = [(a, t) for a, t in conds if a.startswith("WildMatchPattern::matches(")]
                matched = any(t for a, t in m)
                argok = all(a.rstrip(")").endswith(", class") or ", class)" in a for a, t in m)
                if kind == "allow":
                    okk = okk and argok and ((r == "True") == matched) and r in ("True", "False")
                elif kind == "remove":
                    okk = okk and argok and ((r == "False") == matched) and r in ("True", "False")
                else:
                    okk = False
            kinds[kind] = okk
            ctx.check(okk, "C14.classes", f"C14.classes:{kind}-filter", w.where(g),
                      bad_msg=f"the {kind} filter closure does not decide by `WildMatch::new(pattern).matches(class)` alone (a token is "
                              f"{'kept without a matching allow pattern or dropped despite one' if kind == 'allow' else 'kept although a remove pattern matches'})")
        ctx.check(set(kinds) == {"allow", "remove"}, "C14.classes", "C14.classes:filters-present", w.where(main), bad_msg=f"class filter closures found: {sorted(kinds)}")
    # ---- the depth limit applies in both modes ----------------------------------------------------------------------------------
    ctx.rule("C14.depth-default", "max_depth_value: an explicit max_depth wins; otherwise MAX_DEPTH_STRICT (100) in strict AND compat mode, no limit without a mode")
    fm = w.fn(CL + "<impl ruma_html::sanitizer_config::SanitizerConfig>::max_depth_value")
    dexm = D.Dex(w.lookup, adt_discr=w.adt_discr, inline=lambda n: "{closure" in n or n.startswith(CL + "<impl ruma_html::sanitizer_config::SanitizerConfig>::use_"))
    mp = dexm.paths(fm, [D.sym("self")])
    for mode in (None, "Strict", "Compat"):
        for has_max in (False, True):
            val = mode_valuation(mode, {"self.max_depth": has_max})
            outs = {D.show(p.ret) for p in D.evaluate(mp, val) if p.kind == "ret"}
            want = {"Option::Some(self.max_depth.Some.0)"} if has_max else ({"Option::Some(100)"} if mode else {"Option::None"})
            ctx.check(outs == want, "C14.depth-default", f"C14.depth-default:mode={mode},max_depth={'set' if has_max else 'unset'}", w.where(fm),
                      bad_msg=f"the nesting limit is {sorted(outs)}, the property prescribes {sorted(want)} (strict and compat mode both limit nesting to 100)")
    from . import controls
    controls.early_accept(ctx, "C14.all-attributes")
    ctx.assumptions += ["html5ever parser/serializer pair: what a parser sees in the output is not decided", "spec lists as in DESIGN.md Appendix A.7"]
    ctx.samples += [{"input": "<a class=\"x\" href=\"javascript:alert(1)\">", "rule": "C14.all-attributes", "expected": "href checked although class has no scheme list"}]


def early_accept_loops(f, is_elem_next):
    """A6(i): for each loop of `f` driven by an Iterator::next call selected by `is_elem_next`, yield
    (verdict on the exhausted edge | None, set of verdicts returned from inside the loop, [(verdict, line)] in-loop returns equal to the exhausted verdict
    while another verdict is also returned from inside = early accept in a for-all loop)."""
    body = f["body"]
    cfg = M.Cfg(body)

    def ret_value_from(b):
        seen, val_, cur = set(), None, b
        for _ in range(12):
            if cur in seen:
                return None
            seen.add(cur)
            blk = body["blocks"][cur]
            for st in blk["s"]:
                if st[0] == "=" and st[1] == 0 and st[2][0] == "agg" and st[2][1].get("k") == "adt":
                    val_ = st[2][1]["variant"]
            t = blk["t"]
            if t[0] == "ret":
                return val_
            succ = cfg.succ[cur]
            if len(succ) != 1:
                return val_ if all(body["blocks"][s_]["t"][0] == "ret" for s_ in succ) else None
            cur = succ[0]
        return None
    for head, blocks in sorted(cfg.natural_loops().items()):
        nexts = [b for b in blocks if body["blocks"][b]["t"][0] == "call" and M.callee_name(body["blocks"][b]["t"][1]).endswith("Iterator>::next")
                 and is_elem_next(body["blocks"][b]["t"][1])]
        if not nexts:
            continue
        in_loop_returns, exhausted = [], None
        for b in blocks:
            for s_ in cfg.succ[b]:
                if s_ in blocks:
                    continue
                v = ret_value_from(s_)
                t = body["blocks"][b]["t"]
                after_next = b in [cfg.succ[nb][0] for nb in nexts if cfg.succ[nb]]
                none_arm = [bb for val0, bb in t[2] if val0 == 0] if t[0] == "switch" else []
                if after_next and none_arm and s_ == none_arm[0]:
                    exhausted = v
                else:
                    in_loop_returns.append((v, t[5] if t[0] == "switch" else (t[1].get("line") if t[0] == "call" else None)))
        vals = {v for v, _ in in_loop_returns if v}
        bad = [(v, line) for v, line in in_loop_returns if exhausted is not None and v == exhausted and len(vals - {exhausted}) > 0]
        yield exhausted, vals, bad


def mode_valuation(mode, options=None):
    """Valuation for atoms over `self.mode: Option<HtmlSanitizerMode>` (mode in None/'Strict'/'Compat') and over Option-valued fields given
    in `options` ({"self.max_depth": True} = Some). Unknown atoms are left open."""
    options = options or {}

    def val(atom):
        t = D.show_atom(atom)
        if atom[0] == "variant":
            subj = D.show(atom[1])
            if subj == "self.mode":
                return (atom[2] == "Some") == (mode is not None)
            if subj == "self.mode.Some.0":
                return None if mode is None else atom[2] == mode
            if subj in options:
                return (atom[2] == "Some") == options[subj]
        if atom[0] == "eq":
            a, b = D.show(atom[1]), D.show(atom[2])
            for x, y in ((a, b), (b, a)):
                if x == "self.mode.Some.0" and y.startswith("HtmlSanitizerMode::"):
                    return None if mode is None else y.rsplit("::", 1)[-1] == mode
        return None
    return val


def _self_field_writes(fn):
    """{field name: [('assign', rvalue) | ('borrow_mut', None)]} for direct writes to fields of `self` (argument 1) in fn."""
    out = {}
    for b in fn["body"]["blocks"]:
        for st in b["s"]:
            if st[0] != "=":
                continue
            if isinstance(st[1], dict) and st[1].get("l") == 1 and st[1]["p"] and st[1]["p"][0][0] == "f":
                out.setdefault(st[1]["p"][0][2], []).append(("assign", st[2]))
            rv = st[2]
            if rv[0] == "ref" and rv[1] == "mut" and isinstance(rv[2], dict) and rv[2].get("l") == 1 and rv[2]["p"] and rv[2]["p"][0][0] == "f":
                out.setdefault(rv[2]["p"][0][2], []).append(("borrow_mut", None))
            # struct-update form `Self { field: value, ..self }`: every field that is not moved over from the same field of `self` is written
            if rv[0] == "agg" and rv[1].get("k") == "adt" and rv[1].get("adt", "").endswith("SanitizerConfig") and len(rv[1].get("fields", [])) == len(rv[2]):
                for name, op in zip(rv[1]["fields"], rv[2]):
                    pl = op.get("pl") if isinstance(op, dict) else None
                    same = isinstance(pl, dict) and pl.get("l") == 1 and len(pl.get("p", [])) == 1 and pl["p"][0][0] == "f" and pl["p"][0][2] == name
                    if not same:
                        out.setdefault(name, []).append(("assign", ["use", op]))
    return out


def reply_fallback_rule(ctx, w, node_action, paths):
    ctx.rule("C14.reply-fallback", "what SanitizerConfig::remove_reply_fallback() stores is (a) not overwritten by any other configuration method and (b) makes "
                                   "node_action return Remove for every `mx-reply` element, before the depth, ignore and allow tests")
    SC = "ruma_html::sanitizer_config::SanitizerConfig::"
    b = w.lookup(SC + "remove_reply_fallback")
    if not b or "body" not in b:
        ctx.missing("C14.reply-fallback", "C14.reply-fallback:builder", "SanitizerConfig::remove_reply_fallback not found")
        return
    written = _self_field_writes(b)
    ctx.check(bool(written), "C14.reply-fallback", "C14.reply-fallback:stores", w.where(b), bad_msg="remove_reply_fallback() writes no field of the configuration")
    # (a) nobody else overwrites those fields
    n = 0
    for fn in w.crates["ruma_html"].all_fns():
        if "body" not in fn or not fn["path"].startswith(SC) or fn["path"] == b["path"] or "{closure" in fn["path"]:
            continue
        locs = fn["body"]["locals"]
        if fn["body"]["argc"] < 1 or "SanitizerConfig" not in locs[1]:
            continue
        n += 1
        clobbered = [fld for fld, ws in _self_field_writes(fn).items() if fld in written and any(k == "assign" for k, _ in ws)]
        ctx.check(not clobbered, "C14.reply-fallback", f"C14.reply-fallback:overwrite:{fn['path'].rsplit('::', 1)[-1]}", w.where(fn),
                  bad_msg=f"{fn['path'].rsplit('::', 1)[-1]}() assigns {clobbered}, the field remove_reply_fallback() stores its request in: calling it "
                          f"afterwards silently cancels the reply-fallback removal")
    ctx.floor("configuration methods scanned for overwriting the reply-fallback request", n, 10)
    # (b) effect in node_action
    is_reply = lambda a: D.show_atom(a).endswith("=='mx-reply'")
    flag_fields = [fld for fld, ws in written.items() if any(k == "assign" and rv[0] == "use" and rv[1].get("k") == "const" and rv[1].get("v") is True for k, rv in ws)]
    set_fields = [fld for fld, ws in written.items() if any(k == "borrow_mut" for k, _ in ws)]
    elem = [p for p in paths if p.kind == "ret" and any(a[0] == "variant" and t and a[2] == "Element" for a, t in p.conds)]
    if flag_fields:
        fl = flag_fields[0]
        is_flag = lambda a: D.show_atom(a) == f"self.{fl}"
        hit = [p for p in elem if any(is_flag(a) and t for a, t in p.conds) and any(is_reply(a) and t for a, t in p.conds)]
        ctx.check(bool(hit) and all(D.show(p.ret) == "NodeAction::Remove" for p in hit), "C14.reply-fallback", "C14.reply-fallback:verdict", w.where(node_action),
                  bad_msg=f"with {fl} set, an `mx-reply` element gets {sorted({D.show(p.ret) for p in hit}) or 'no verdict that tests the flag and the element name'}")
        # a verdict other than Remove is legitimate only once the path has established "no fallback removal requested" or "not an mx-reply"
        early = [p for p in elem if D.show(p.ret) != "NodeAction::Remove" and not any((is_flag(a) or is_reply(a)) and not t for a, t in p.conds)]
        ctx.check(not early, "C14.reply-fallback", "C14.reply-fallback:before-other-verdicts", w.where(node_action),
                  bad_msg=f"an element can be kept or unwrapped ({sorted({D.show(p.ret) for p in early})}) before the reply-fallback request is consulted")
        # (that every such path ends in Remove also means the removal does not depend on the depth or on the ignore/allow lists: a path that
        #  evaluates them eagerly and ORs the results is fine, a path on which they turn the verdict is caught by the check above)
    elif set_fields:
        fl = set_fields[0]
        in_set = lambda a: D.show_atom(a).startswith(f"HashSet::contains(self.{fl}")
        hit = [p for p in elem if any(in_set(a) and t for a, t in p.conds)]
        ctx.check(bool(hit) and all(D.show(p.ret) == "NodeAction::Remove" for p in hit), "C14.reply-fallback", "C14.reply-fallback:verdict", w.where(node_action),
                  bad_msg=f"an element whose name is in {fl} gets {sorted({D.show(p.ret) for p in hit})}")
        early = [p for p in elem if not any(in_set(a) for a, t in p.conds) and not any(D.show_atom(a) == f"self.{fl} is None" and t for a, t in p.conds)
                 and D.show(p.ret) != "NodeAction::Remove"]
        ctx.check(not early, "C14.reply-fallback", "C14.reply-fallback:before-other-verdicts", w.where(node_action),
                  bad_msg="an element can be kept or unwrapped before the set holding the reply-fallback request is consulted")
    else:
        ctx.unrecognised("C14.reply-fallback", "C14.reply-fallback:shape", w.where(b), f"remove_reply_fallback() writes {sorted(written)} in a form this rule does not model")


def scheme_delimiter_rule(ctx, w, node_action):
    """C14.scheme-delimiter: a URI's scheme ends at the first ':' - the comparison with a scheme list has to involve that delimiter."""
    from .C12 import decode_format_template
    ctx.rule("C14.scheme-delimiter", "node_action (with the clean module's private helpers and its closures) compares the scheme of a link/image source INCLUDING its "
                                     "`:` delimiter: either `value.starts_with(format!(\"{scheme}:\"))` or a split/find at ':' - a comparison of a mere prefix "
                                     "(`https` matching `https+evil:`) lets other schemes through")
    fam, todo = [], [node_action]
    while todo:
        g = todo.pop()
        if g in fam:
            continue
        fam.append(g)
        for h in w.all_fns():
            if "body" in h and h["path"].startswith(g["path"] + "::{closure"):
                todo.append(h)
        for body in M.all_bodies(g):
            for _, c in M.calls(body):
                nm = M.callee_name(c)
                h = w.lookup(nm)
                if h is not None and "body" in h and nm.startswith(CL) and "<" not in nm[len(CL):] and "::" not in nm[len(CL):]:
                    todo.append(h)          # private free helper of the clean module
    with_colon, scheme_tests = [], 0
    for g in fam:
        for body in M.all_bodies(g):
            # format_args! templates of this body (byte-string constants, possibly bound to a local first)
            uses_fmt = any(M.callee_name(c).endswith("Arguments::<'a>::new") for _, c in M.calls(body))
            consts = [st[2][1]["v"] for b_ in body["blocks"] for st in b_["s"] if st[0] == "=" and st[2][0] == "use" and isinstance(st[2][1], dict) and
                      st[2][1].get("k") == "const" and str(st[2][1].get("ty", "")).startswith("&[u8;") and isinstance(st[2][1].get("v"), list)]
            consts += [c["args"][0]["v"] for _, c in M.calls(body) if M.callee_name(c).endswith("Arguments::<'a>::new") and c["args"] and
                       c["args"][0].get("k") == "const" and isinstance(c["args"][0].get("v"), list)]
            for v in consts if uses_fmt else []:
                pieces = decode_format_template([x for x in v if isinstance(x, int)])
                if pieces and None in pieces:
                    scheme_tests += 1
                    i = pieces.index(None)
                    if i + 1 < len(pieces) and isinstance(pieces[i + 1], str) and pieces[i + 1].startswith(":"):
                        with_colon.append(("format", pieces))
            for _, c in M.calls(body):
                nm = M.callee_name(c)
                if re.search(r"<impl str>::(split_once|find|split|splitn|strip_prefix|rfind|split_terminator|starts_with)$", nm) and len(c["args"]) >= 2:
                    a = c["args"][1]
                    if a.get("k") == "const" and a.get("v") in (":", 58, "://"):
                        with_colon.append((nm.rsplit("::", 1)[-1], a.get("v")))
                if re.search(r"<impl str>::(find|split|split_once|trim_start_matches|trim_matches)$", nm) and len(c["args"]) >= 2 and c["args"][1].get("k") != "const":
                    scheme_tests += 1       # a predicate/closure pattern: cuts somewhere, not necessarily at ':'
    ctx.check(bool(with_colon), "C14.scheme-delimiter", "C14.scheme-delimiter:node_action", w.where(node_action),
              ok_msg=f"scheme comparison with its delimiter: {with_colon[:2]}",
              bad_msg=f"no scheme comparison in node_action's code involves the ':' that ends a URI scheme ({scheme_tests} scheme-like tests, {len(fam)} functions "
                      f"examined): a source whose scheme merely starts with an allowed scheme name is kept")
