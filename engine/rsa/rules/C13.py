"""C13 — push ruleset edits: error atomicity, index bounds, guard decision table, default positions, enabled flag kept."""
import itertools, re
from .. import dex as D, world as W, mir as M
from . import util as U

LEVEL = "other"
EXPLANATION = (
    "DEX over the MIR of Ruleset::{insert, remove, set_enabled, set_actions} and insert_and_move_rule: (A7) no path that returns Err "
    "contains a mutating IndexSet operation; the target index passed to IndexSet::move_index is min(.., len - 1) and the source index is "
    "the one replace_full returned, so the move cannot be out of bounds; the refusal conditions of insert (ids starting with '.', containing "
    "'/' or '\\', anchors starting with '.') are compared with the documented rules under all 32 valuations; default positions are 1 for "
    "override and 0 for the other kinds; all five kinds copy `enabled` from the rule they replace. The resulting order after arbitrary "
    "operation sequences is NOT decided (history-dependent index arithmetic) - only bounds and atomicity.")
P = "ruma_common::push::"
MUTATORS = {"replace_full", "replace", "insert", "insert_full", "shift_remove", "swap_remove", "shift_remove_full", "swap_remove_full", "move_index",
            "swap_indices", "retain", "extend", "clear", "pop", "sort", "sort_by", "sort_unstable", "truncate", "drain", "shift_take", "swap_take",
            "shift_insert", "insert_before", "append", "reverse", "split_off", "take"}
KINDS = ["override_", "content", "room", "sender", "underride"]


def mutators(p):
    return [e for e in p.effects if e[0].rsplit("::", 1)[-1] in MUTATORS and "indexmap" in e[0]]


def run(ctx):
    fx = ctx.facts("A")
    w = W.World(fx, ["ruma_common"])
    eff = lambda n: "indexmap" in n or n == P + "insert_and_move_rule" or n.endswith("::starts_with") or n.endswith("::contains")
    def helper(n):
        # closures called directly, and private free functions of ruma_common::push other than the named anchor
        if "{closure" in n:
            return True
        rest = n[len(P):] if n.startswith(P) else None
        # non-public conveniences on the rule views (`AnyPushRuleRef::is_user_defined() = !self.is_server_default()`): seen through
        if rest is not None and re.match(r"iter::AnyPushRule(Ref::<'a>)?::\w+$", rest):
            g = w.lookup(n)
            if g is not None and "body" in g and g.get("vis") != "Public" and len(g["body"]["blocks"]) <= 12:
                return True
        if rest is None or "<" in rest or rest == "insert_and_move_rule":
            return False
        if "::" not in rest:
            return True
        # private methods of Ruleset (an extracted `default_override_position(&self)`), as opposed to its public operations
        g = w.lookup(n)
        return rest.startswith("Ruleset::") and rest.count("::") == 1 and g is not None and "Restricted" in str(g.get("vis")) and "push" in str(g.get("vis"))
    dex = D.Dex(w.lookup, adt_discr=w.adt_discr, effects=eff, unroll=1, inline=helper)

    ctx.rule("C13.atomic", "no path of insert_and_move_rule / Ruleset::{remove,set_enabled,set_actions} that returns Err performs a mutating IndexSet "
                           "operation; Ruleset::insert mutates only through a final insert_and_move_rule call whose result it returns")
    fns = {"insert_and_move_rule": ["set", "rule", "default_position", "after", "before"], "Ruleset::remove": ["self", "kind", "rule_id"],
           "Ruleset::set_enabled": ["self", "kind", "rule_id", "enabled"], "Ruleset::set_actions": ["self", "kind", "rule_id", "actions"]}
    allp = {}
    for name, args in fns.items():
        f = w.fn(P + name)
        paths = dex.paths(f, [D.sym(a) for a in args])
        allp[name] = (f, paths)
        errp = [p for p in paths if p.kind == "ret" and U.is_err(p.ret)]
        ctx.floor(f"{name} error paths", len(errp), 1)
        for p in errp:
            muts = mutators(p)
            err = D.show(U.payload(p.ret)).rsplit("::", 1)[-1]
            ctx.check(not muts, "C13.atomic", f"C13.atomic:{name}:Err({err})", w.where(f),
                      bad_msg=f"returns Err({err}) after {[m[0].rsplit('::', 1)[-1] for m in muts]} modified the set")
    fi = w.fn(P + "Ruleset::insert")
    ipaths = dex.paths(fi, [D.sym("self"), D.sym("rule"), D.sym("after"), D.sym("before")])
    for p in ipaths:
        muts = mutators(p)
        calls = [e for e in p.effects if e[0] == P + "insert_and_move_rule"]
        if p.kind == "ret" and U.is_err(p.ret):
            ctx.check(not muts and not calls, "C13.atomic", f"C13.atomic:Ruleset::insert:Err({D.show(U.payload(p.ret)).rsplit('::', 1)[-1]})", w.where(fi),
                      bad_msg="Ruleset::insert returns its own error after touching the ruleset")
        else:
            last_ok = len(calls) == 1 and p.effects[-1] is calls[0] and D.show(p.ret) == D.show(U_ret(calls[0])) and not muts
            ctx.check(last_ok, "C13.atomic", "C13.atomic:Ruleset::insert:delegates", w.where(fi),
                      bad_msg=f"mutations {[m[0].rsplit('::', 1)[-1] for m in muts]} besides the final insert_and_move_rule")

    ctx.rule("C13.bounds", "IndexSet::move_index(from, to): from is the index returned by replace_full on the same set and to = min(.., len(set) - 1) "
                           "computed after the insertion, hence both are < len")
    f, paths = allp["insert_and_move_rule"]
    nmove = 0
    for p in paths:
        for i, e in enumerate(p.effects):
            if e[0].rsplit("::", 1)[-1] == "move_index":
                nmove += 1
                a = U.shows(e[1])
                prior = [x[0].rsplit("::", 1)[-1] for x in p.effects[:i]]
                good = a[0] == "set" and a[1] == "IndexSet::replace_full(set, rule).0" and a[2].startswith("Ord::min(") and \
                    a[2].replace(" ", "").endswith(",SubWithOverflow(IndexSet::len(set),1))") and \
                    "replace_full" in prior and "len" in prior and prior.index("replace_full") < prior.index("len")
                ctx.check(bool(good), "C13.bounds", "C13.bounds:insert_and_move_rule:move_index", w.where(f, e[2]),
                          bad_msg=f"move_index({a[1][:60]}, {a[2][:90]}) is not bounded by the set's length (a target equal to len panics)")
    ctx.floor("move_index sites on paths", nmove, 4)

    ctx.rule("C13.placement", "insert_and_move_rule moves the rule iff it is new (IndexSet::replace_full returned no previous value) or an anchor was given: a "
                              "replaced, unpositioned rule keeps its place, whatever that place is")
    f, paths = allp["insert_and_move_rule"]
    okp = [p for p in paths if p.kind == "ret" and not U.is_err(p.ret)]
    ctx.floor("insert_and_move_rule success paths", len(okp), 4)
    seen_cases = {}
    for p in okp:
        moved = any(e[0].rsplit("::", 1)[-1] == "move_index" for e in p.effects)
        tv = U.true_variants(p)
        replaced = tv.get("IndexSet::replace_full(set, rule).1")
        after, before = tv.get("after"), tv.get("before")
        want = None if replaced is None or after is None or before is None else (replaced == "None" or after == "Some" or before == "Some")
        key = f"C13.placement:replaced={replaced},after={after},before={before}"
        good = want is not None and moved == want
        if key in seen_cases and seen_cases[key] == good:
            continue
        seen_cases[key] = good
        ctx.check(good, "C13.placement", key + ("" if good else f":moved={moved}"), w.where(f),
                  bad_msg=(f"the rule is {'moved' if moved else 'left in place'} although it is {'new' if replaced == 'None' else 'a replacement'} with "
                           f"after={after}, before={before}" if want is not None else
                           "whether the rule is moved does not depend on the value replace_full returned (new vs replaced) and on the anchors alone: "
                           "e.g. replacing the last rule of a kind without anchors would move it to the top"))
    ctx.floor("placement cases", len(seen_cases), 8)

    ctx.rule("C13.guards", "Ruleset::insert refuses exactly: rule id starting with '.', containing '/' or '\\\\', `after`/`before` anchor starting with '.'; "
                           "remove refuses server-default rules and unknown ids")
    def val_for(dot, slash, bslash, adot, bdot):
        def val(atom):
            t = D.show_atom(atom)
            if atom[0] == "bool":
                if "starts_with(NewPushRule::rule_id(rule), '.')" in t:
                    return dot
                m = re.search(r"contains\(NewPushRule::rule_id\(rule\), (.*)\)$", t)
                if m:   # a char, or an array / slice of chars: true iff one of them occurs
                    chars = set(re.findall(r"'(\\\\|[^'])'", m.group(1)))
                    if chars and chars <= {"/", "\\\\"}:
                        return (slash and "/" in chars) or (bslash and "\\\\" in chars)
                if "starts_with(after.Some.0, '.')" in t:
                    return adot
                if "starts_with(before.Some.0, '.')" in t:
                    return bdot
            if atom[0] == "variant" and D.show(atom[1]) in ("after", "before"):
                return atom[2] == "Some"
            return None
        return val
    n = 0
    for dot, slash, bslash, adot, bdot in itertools.product((False, True), repeat=5):
        sel = D.evaluate(ipaths, val_for(dot, slash, bslash, adot, bdot))
        outs = {("Err:" + D.show(U.payload(p.ret)).rsplit("::", 1)[-1]) if U.is_err(p.ret) else "insert" for p in sel if p.kind == "ret"}
        if dot:
            want = {"Err:ServerDefaultRuleId"}
        elif slash or bslash:
            want = {"Err:InvalidRuleId"}
        elif adot or bdot:
            want = {"Err:RelativeToServerDefaultRule"}
        else:
            want = {"insert"}
        n += 1
        ctx.check(outs == want, "C13.guards", f"C13.guards:insert:dot={dot},slash={slash},backslash={bslash},after_dot={adot},before_dot={bdot}", w.where(fi),
                  bad_msg=f"outcome {sorted(outs)}, documented {sorted(want)}")
    f, paths = allp["Ruleset::remove"]
    okp = [p for p in paths if p.kind == "ret" and U.is_ok(p.ret)]
    for p in okp:
        tv = {D.show_atom(a): t for a, t in p.conds}
        sd = [t for a, t in tv.items() if "is_server_default" in a or ".default" in a]
        found = [a for a, t in tv.items() if "Ruleset::get(" in a and " is Some" in a and t]
        ctx.check(sd == [False] and bool(found) and len(mutators(p)) == 1, "C13.guards", f"C13.guards:remove:{[m[1][0] for m in mutators(p)][0][1] if mutators(p) else '?'}",
                  w.where(f), bad_msg=f"removal without the server-default / existence test: {list(tv)[:4]}")
    errs = {D.show(U.payload(p.ret)).rsplit("::", 1)[-1] for p in paths if p.kind == "ret" and U.is_err(p.ret)}
    ctx.check(errs == {"NotFound", "ServerDefault"}, "C13.guards", "C13.guards:remove:errors", w.where(f), bad_msg=f"remove errors are {errs}")
    ctx.floor("remove success paths", len(okp), 5)
    # what `remove` tests is AnyPushRuleRef::is_server_default: it has to answer from the rule's `default` flag, for every kind (a server-default room
    # or sender rule has a room / user id as rule id, so the shape of the id says nothing)
    dexa = D.Dex(w.lookup, adt_discr=w.adt_discr, inline=lambda n_: False, ctors=w.ctors)
    fa = w.fn("ruma_common::push::iter::AnyPushRuleRef::<'a>::is_server_default")
    got = {}
    for p in dexa.paths(fa, [D.sym("self")]):
        vs = [D.show_atom(a).split(" is ")[-1] for a, t_ in p.conds if t_ and " is " in D.show_atom(a)]
        if p.kind == "ret":
            got[vs[0] if len(vs) == 1 else "*"] = D.show(p.ret)
    badv = {k_: v_ for k_, v_ in got.items() if v_ != f"self.{k_}.0.default"}
    ctx.check(set(got) == {"Override", "Underride", "Content", "Room", "Sender"} and not badv, "C13.guards", "C13.guards:is_server_default:flag", w.where(fa),
              bad_msg=f"AnyPushRuleRef::is_server_default answers {badv or got} instead of the rule's `default` flag: Ruleset::remove then deletes a server-default rule "
                      f"whose id does not have the expected shape (every server-default room / sender rule) or refuses a user rule that has it")
    fo = w.fn("ruma_common::push::iter::AnyPushRule::is_server_default")
    po = [D.show(p.ret) for p in dexa.paths(fo, [D.sym("self")]) if p.kind == "ret"]
    ctx.check(po == ["AnyPushRuleRef::is_server_default(AnyPushRule::as_ref(self))"] or (len(po) == 5 and all(re.fullmatch(r"self\.\w+\.0\.default", x) for x in po)),
              "C13.guards", "C13.guards:is_server_default:owned", w.where(fo), bad_msg=f"AnyPushRule::is_server_default answers {po[:2]}")

    ctx.rule("C13.positions", "default position passed to insert_and_move_rule is 0 for content/room/sender/underride and, for override rules, 1 iff the first override rule is the master rule (else 0); each kind "
                              "inserts into its own set")
    seen = {}
    for p in ipaths:
        for e in p.effects:
            if e[0] == P + "insert_and_move_rule":
                a = U.shows(e[1])
                seen.setdefault(a[0], set()).add((a[1], a[2], a[3], a[4]))
    for k in KINDS:
        s = seen.get("self." + k, set())
        var = {"override_": "Override", "content": "Content", "room": "Room", "sender": "Sender", "underride": "Underride"}[k]
        if k == "override_":
            # second place only when the first place is taken by the master rule: 1 if `self.override_.first()` is `.m.rule.master`, else 0
            shape = bool(s) and all((x[0], x[2], x[3]) == (f"rule.{var}.0", "after", "before") for x in s)
            # the position is the truth value of "the first override rule is the master rule" (0 when there is no first rule): either as one expression,
            # or as the constants 1 / 0 on paths that have decided that test
            FIRST = r"IndexSet::first\(self\.override_\)"
            MASTER = FIRST + r"\.Some\.0\.rule_id==(?:PredefinedOverrideRuleId::as_(?:str|ref)\(PredefinedOverrideRuleId::Master\)|'\.m\.rule\.master')"
            good, n_calls = shape, 0
            for p in ipaths:
                for e in p.effects:
                    if e[0] != P + "insert_and_move_rule" or U.shows(e[1])[0] != "self.override_":
                        continue
                    n_calls += 1
                    pos_ = U.shows(e[1])[2]
                    conds = [(D.show_atom(a_), t_) for a_, t_ in p.conds]
                    is_m = [t_ for a_, t_ in conds if re.fullmatch(MASTER, a_)]
                    no_first = any(re.fullmatch(FIRST + r" is None", a_) and t_ or re.fullmatch(FIRST + r" is Some", a_) and not t_ for a_, t_ in conds)
                    if re.fullmatch(rf"(?:cast\()?{MASTER}\)?", pos_):
                        continue
                    if pos_ in ("1", "True"):
                        good = good and is_m == [True]
                    elif pos_ in ("0", "False"):
                        good = good and (is_m == [False] or no_first)
                    else:
                        good = False
            good = good and n_calls > 0
            ctx.check(good, "C13.positions", f"C13.positions:{k}", w.where(fi),
                      bad_msg=f"override_: insert_and_move_rule called with {sorted(s)}: the default position must be 1 exactly when the first override rule is `.m.rule.master` and 0 "
                              f"otherwise (with a constant 1, a new rule in a ruleset without the master rule lands behind an older user rule instead of becoming the most important)")
            continue
        want = (f"rule.{var}.0", "0", "after", "before")
        ctx.check(s == {want}, "C13.positions", f"C13.positions:{k}", w.where(fi), bad_msg=f"{k}: insert_and_move_rule called with {sorted(s)}, expected {want}")

    ctx.rule("C13.enabled", "when a rule with the same id exists, the new rule takes its `enabled` flag (all five kinds agree)")
    for k in KINDS:
        var = {"override_": "Override", "content": "Content", "room": "Room", "sender": "Sender", "underride": "Underride"}[k]
        have_some = [p for p in ipaths if any(a[0] == "variant" and t and a[2] == "Some" and f"IndexSet::get(self.{k}, " in D.show(a[1]) for a, t in p.conds)]
        good = bool(have_some)
        for p in have_some:
            st = [e for e in p.effects if e[0] == "store" and D.show(e[1]) == f"rule.{var}.0" and e[2] == "enabled"]
            good = good and len(st) == 1 and D.show(st[0][3]).startswith(f"IndexSet::get(self.{k}, ") and D.show(st[0][3]).endswith(".Some.0.enabled")
        ctx.check(good, "C13.enabled", f"C13.enabled:{k}", w.where(fi), bad_msg=f"replacing a {k} rule does not keep its enabled flag")
    # the order of every list is the documented one only if nothing else in the push module reorders it (e.g. update_with_server_default)
    from . import C12 as _C12
    _C12.list_order_rule(ctx, w, "C13.list-order")
    # rule ids are unique per kind only if the sets' notion of "same rule" (Hash / PartialEq) is the rule id
    _C12.keys_rule(ctx, w, "C13.keys")
    ctx.assumptions += ["indexmap::IndexSet::{replace_full, move_index, get_index_of} behave as documented",
                        "Hash/Eq/Equivalent of the rule types key on rule_id only (uniqueness per kind) - checked in C12.keys"]
    ctx.samples += [{"op": "insert first override rule into an empty ruleset", "expected": "index clamped to len-1 = 0, no panic"},
                    {"op": "insert with unknown `after`", "expected": "Err(UnknownRuleId) and the set untouched"}]


def U_ret(effect):
    name, args = effect[0], effect[1]
    return D.sym(f"{D.short_name(name)}({', '.join(D.show(a) for a in args)})")
