"""C11 — Matrix URIs: parse totality, encoder covers the decoder's special bytes, sanitizer must-pass-through, writer/reader tables agree."""
import re, json
from .. import dex as D, world as W, mir as M
from . import panic_common as PC, util as U

LEVEL = "other"
EXPLANATION = (
    "Structural necessary conditions of the round trip, decided on MIR: (1) no undischarged panic site in the matrix_uri module (A3); "
    "(2) the const-evaluated path-segment encode set contains every byte the parsers treat specially before or while decoding "
    "('/', '?', '#', '%', space, controls); (3) every identifier byte written by to_string_with_sigil / to_string_with_type passes "
    "through percent_encode with that set, and every non-constant string written by the two Display impls is encoder output or a "
    "validated ServerName; (4) the type words written (`roomid`, `r`, `u`, `e`) are in the reader's table and map to the sigil of the "
    "identifier type that was stripped; query keys written (`via`, `action`) are the ones read. Equality of the round trip for all "
    "values is NOT decided.")
MU = "ruma_common::identifiers::matrix_uri::"
SIGIL = {"RoomId": "!", "RoomAliasId": "#", "UserId": "@", "EventId": "$"}


def decode_template(t):
    """fmt::Arguments template bytes -> list of literal pieces and '{}' placeholders."""
    out, i, cur = [], 0, None
    b = [x[1] for x in t[1]]
    while i < len(b):
        x = b[i]
        if x == 0:
            break
        if x < 0x80:
            out.append(bytes(b[i + 1:i + 1 + x]).decode("utf8", "replace"))
            i += 1 + x
        else:
            out.append("{}")
            # 0xC0 = next argument with default options; other codes carry extra option bytes: skip conservatively
            i += 1
            while i < len(b) and b[i] not in (0,) and b[i] < 0x80 and False:
                i += 1
            if x != 0xC0:
                # explicit index / options follow as varints: the templates we read only use 0xC0 + optional index byte
                pass
            if i < len(b) and x == 0xC0 and b[i] in (1, 2, 3, 4, 5, 6) and i + 1 < len(b) and (b[i + 1] >= 0x80 or b[i + 1] == 0 or True):
                # heuristics are avoided: arguments in our templates are positional, an index byte never precedes a literal length
                pass
    return out


def literal_text(t):
    """Concatenation of the literal bytes of a template, placeholders replaced by \\0 (robust to option bytes)."""
    b = [x[1] for x in t[1]]
    txt, i = "", 0
    while i < len(b) and b[i] != 0:
        x = b[i]
        if x < 0x80 and i + x < len(b) and all(32 <= c < 127 for c in b[i + 1:i + 1 + x]) and x > 0:
            # could be a literal piece of length x or an argument index byte; an index byte is followed by a placeholder/terminator
            txt += bytes(b[i + 1:i + 1 + x]).decode()
            i += 1 + x
        elif x >= 0x80:
            txt += "\0"
            i += 1
            if i < len(b) and 0 < b[i] < 0x20 and (i + 1 >= len(b) or b[i + 1] >= 0x80 or b[i + 1] == 0 or not all(32 <= c < 127 for c in b[i + 1:i + 1 + b[i]])):
                i += 1  # explicit argument index
        else:
            i += 1
    return txt


def run(ctx):
    fx = ctx.facts("A")
    w = W.World(fx, ["ruma_common", "ruma_identifiers_validation"])
    MU = "ruma_common::identifiers::matrix_uri::"
    def helper(n):
        # private free functions of the module (encode/trim/type-word helpers) are inlined
        rest = n[len(MU):] if n.startswith(MU) else None
        if rest is None or "<" in rest or "{" in rest:
            return False
        if "::" not in rest:
            return True
        # associated functions that are private to the module (`MatrixId::sigil_for_type`), as opposed to the pub(crate) parse / format functions
        g = w.lookup(n)
        return g is not None and rest.count("::") == 1 and "identifiers::matrix_uri" in str(g.get("vis"))
    dex = D.Dex(w.lookup, adt_discr=w.adt_discr, effects=lambda n: True, unroll=1, inline=helper)

    ctx.rule("C11.sites", "every panic/bounds site of the matrix_uri module is discharged or reviewed (no indexing of possibly-empty segments)")
    PC.site_rule(ctx, w, ["ruma_common"], "C11.sites", fn_filter=lambda fn: "identifiers::matrix_uri" in fn["path"], floor=1)      # the positive controls keep the detector honest; the number of sites varies with the spelling

    # URI parsing hands every identifier and every `via` server name to the validators: a panic site there is a panic of MatrixUri::parse
    ctx.rule("C11.validator-sites", "every panic/bounds site of the identifier validators (ruma-identifiers-validation), which the URI parsers call on untrusted text, "
                                    "is discharged or reviewed (same inventory as C10.sites)")
    PC.site_rule(ctx, w, ["ruma_identifiers_validation"], "C11.validator-sites", floor=1)

    ctx.rule("C11.encode_set", "PATH_PERCENT_ENCODE_SET (evaluated) contains the bytes that the URI parsers split on or decode: '/', '?', '#', '%', "
                               "space and all ASCII controls")
    v = w.value("ruma_common::percent_encode::PATH_PERCENT_ENCODE_SET")
    mask = v["fields"]["mask"]
    def has(ch):
        c = ord(ch)
        return bool(mask[c // 32] >> (c % 32) & 1)
    where = w.where_value("ruma_common::percent_encode::PATH_PERCENT_ENCODE_SET")
    for ch in "/?#% ":
        ctx.check(has(ch), "C11.encode_set", f"C11.encode_set:{ch!r}", where,
                  bad_msg=f"byte {ch!r} is not percent-encoded in a path segment, but the receiving side splits on it or decodes it "
                          f"(an identifier containing it does not survive format -> parse)")
    ctx.check(all(has(chr(c)) for c in list(range(32)) + [127]), "C11.encode_set", "C11.encode_set:controls", where, bad_msg="a control byte is not encoded")

    # ---- sanitizer must-pass-through ----------------------------------------------------------------
    ctx.rule("C11.encode", "to_string_with_sigil / to_string_with_type: every identifier reaches the output only through "
                           "percent_encode(bytes, PATH_PERCENT_ENCODE_SET); the `type` form strips exactly the first byte (the sigil)")
    writer_words = {}
    for fname, strip in (("to_string_with_sigil", False), ("to_string_with_type", True)):
        f = w.fn(MU + "MatrixId::" + fname)
        paths = dex.paths(f, [D.sym("self")])
        ctx.floor(f"{fname} variant paths", len(paths), 4)
        for p in paths:
            var = [a[2] for a, t in p.conds if a[0] == "variant" and t and D.show(a[1]) == "self"]
            tag = (var[0] if var else "?") + ("" if len(p.conds) < 2 else ":" + str(p.conds[1][1]))
            encs = [e for e in p.effects if e[0] == "percent_encoding::percent_encode"]
            nids = 2 if var == ["Event"] else 1
            good = len(encs) == nids and all(D.show(e[1][1]) == "const:ruma_common::percent_encode::PATH_PERCENT_ENCODE_SET" for e in encs)
            ids_seen = []
            for e in encs:
                a = D.show(e[1][0])
                m = re.search(r"(\w+)::as_bytes\(self\.(\w+)\.(\d)\)", a)
                good = good and m is not None
                if m:
                    ids_seen.append((m.group(1), a))
                    if strip:
                        good = good and a.startswith("index::index(") and a.endswith("RangeFrom::RangeFrom(start=1))")
                    else:
                        good = good and a == m.group(0)
            # nothing derived from self reaches the formatter except through the encoder
            for e in p.effects:
                if e[0].endswith("new_display") or e[0].endswith("::to_string") or e[0].endswith("write_str"):
                    a = D.show(e[1][0])
                    if "self." in a and not a.startswith("percent_encoding::percent_encode("):
                        good = False
            ctx.check(bool(good), "C11.encode", f"C11.encode:{fname}:{tag}", w.where(f), bad_msg=f"identifier bytes bypass the encoder: {[U.shows(e[1])[0][:80] for e in encs]}")
            if strip:
                tmpl = [e for e in p.effects if e[0].endswith("Arguments::<'a>::new") or e[0].endswith("Arguments::new")]
                words = []
                if tmpl:
                    txt = literal_text(tmpl[0][1][0])
                    disp = [D.show(e[1][0]) for e in p.effects if e[0].endswith("new_display")]
                    consts = [d.strip("'") for d in disp if d.startswith("'")]
                    # placeholders filled by constant strings (room_type) are substituted back
                    parts = txt.split("\0")
                    filled, ci = parts[0], 0
                    for d, nxt in zip(disp, parts[1:]):
                        filled += (d.strip("'") if d.startswith("'") else "\0") + nxt
                    words = [x for x in filled.replace("\0", "").split("/") if x]
                writer_words[tag] = (words, [t for t, _ in ids_seen])

    # ---- writer / reader agreement -----------------------------------------------------------------------
    ctx.rule("C11.agreement", "every type word written by to_string_with_type is accepted by parse_with_type and mapped to the sigil of the identifier "
                              "type whose first byte was stripped; MatrixUri::Display writes the query keys `via` and `action` that MatrixUri::parse reads")
    f = w.fn(MU + "MatrixId::parse_with_type")
    reader = {}
    for p in dex.paths(f, [D.sym("s")]):
        lits = [a[2][1] for a, t in p.conds if a[0] == "eq" and t and D.is_const(a[2]) and isinstance(a[2][1], str)]      # type words are string literals
        # the sigil put in front of the identifier: `format!("{id}/{sigil}{rest}")` or `id.push(sigil)`
        args = [e[1][0][1] for e in p.effects if e[0].endswith("new_display") and D.is_const(e[1][0]) and isinstance(e[1][0][1], str) and len(e[1][0][1]) == 1]
        args += [e[1][1][1] for e in p.effects if e[0].endswith("String::push") and len(e[1]) == 2 and D.is_const(e[1][1]) and isinstance(e[1][1][1], str)
                 and len(e[1][1][1]) == 1 and e[1][1][1] != "/"]
        if lits and args:
            reader.setdefault(lits[0], set()).add(args[0])
    ctx.floor("reader type words", len(reader), 7)
    ctx.check(all(len(v) == 1 for v in reader.values()), "C11.agreement", "C11.agreement:reader-table", w.where(f), bad_msg=f"ambiguous reader table {reader}")
    type_of_sigil_owner = {"RoomOrAliasId": None}
    for tag, (words, idtypes) in sorted(writer_words.items()):
        # words in order: one per identifier written
        good = len(words) == len(idtypes)
        detail = []
        for word, idt in zip(words, idtypes):
            sig = next(iter(reader.get(word, {None})))
            if idt == "RoomOrAliasId":
                want = "!" if word == "roomid" else "#"
                okw = sig == want and tag.endswith(str(word == "roomid"))
            else:
                okw = sig == SIGIL.get(idt)
            detail.append(f"{word}->{sig} for {idt}")
            good = good and okw
        ctx.check(bool(good), "C11.agreement", f"C11.agreement:type-word:{tag}", w.where(f), ok_msg=", ".join(detail),
                  bad_msg=f"written type words {words} for {idtypes} are read back as {detail}")
    # query keys
    def with_helpers(fn):
        """the function and the module's private helpers it (transitively) calls"""
        seen, work = {}, [fn]
        while work:
            g = work.pop()
            if g["path"] in seen or "body" not in g:
                continue
            seen[g["path"]] = g
            for body in M.all_bodies(g):
                for _, c in M.calls(body):
                    n = M.callee_name(c)
                    if helper(n) and w.lookup(n) is not None:
                        work.append(w.lookup(n))
        return list(seen.values())

    def str_consts(fns):
        out = set()
        for g in fns:
            for body in M.all_bodies(g):
                for _, c in M.calls(body):
                    for a in c["args"]:
                        if a.get("k") == "const" and isinstance(a.get("v"), str):
                            out.add(a["v"])
                for b in body["blocks"]:
                    for st in b["s"]:
                        if st[0] == "=" and st[2][0] == "use" and st[2][1].get("k") == "const" and isinstance(st[2][1].get("v"), str):
                            out.add(st[2][1]["v"])
        return out
    fd = w.fn(f"<{MU}MatrixUri as core::fmt::Display>::fmt")
    written = str_consts(with_helpers(fd))
    fp = w.fn(MU + "MatrixUri::parse")
    read = str_consts(with_helpers(fp))
    keys_w = {re.sub(r"[?&=]", "", x) for x in written if x.endswith("=")}
    ctx.check(keys_w == {"via", "action"} and keys_w <= read, "C11.agreement", "C11.agreement:query-keys", w.where(fd),
              bad_msg=f"Display writes query keys {sorted(keys_w)}, parse reads {sorted(read)}")

    # ---- Display impls: only constants, ServerName text, or encoder output are written ----------------------
    ctx.rule("C11.display", "MatrixToUri/MatrixUri Display: every non-constant string written is the id string (encoded, see C11.encode), a validated "
                            "ServerName, or the output of a form/percent encoder - raw free text (custom action) is reported")
    for ty in ("MatrixToUri", "MatrixUri"):
        fdx = w.fn(f"<{MU}{ty} as core::fmt::Display>::fmt")
        defs = PC.roots(fdx["body"])
        n = 0
        for bi, c in M.calls(fdx["body"]):
            name = M.callee_name(c)
            if not (name.endswith("Formatter::<'a>::write_str") or name.endswith("new_display")):
                continue
            arg = c["args"][1] if name.endswith("write_str") else c["args"][0]
            e = PC.expr(fdx["body"], defs, arg)
            import json as _j
            txt = _j.dumps(e)
            n += 1
            if e[0] in ("const", "const?") or "\"local\"" in txt and "call" not in txt:
                ctx.ok("C11.display", f"C11.display:{ty}:const#{n}", w.where(fdx, c["line"]), nontrivial=False)
            elif "ServerName::as_str" in txt or "server_name::ServerName" in txt:
                ctx.ok("C11.display", f"C11.display:{ty}:server-name", w.where(fdx, c["line"]), "validated ServerName: URI-safe bytes only")
            elif "to_string_with_sigil" in txt or "to_string_with_type" in txt:
                ctx.ok("C11.display", f"C11.display:{ty}:id", w.where(fdx, c["line"]))
            elif "byte_serialize" in txt or "percent_encode" in txt or "utf8_percent_encode" in txt:
                ctx.ok("C11.display", f"C11.display:{ty}:encoded", w.where(fdx, c["line"]))
            else:
                what = "action" if "UriAction" in txt or "action" in txt else "text"
                ctx.violation("C11.display", f"C11.display:{ty}:raw-{what}", w.where(fdx, c["line"]),
                              f"{ty}::fmt writes {what} text into the URI without encoding it (a custom action containing '&', '#', '%' or '=' re-parses differently)")
    # ---- optional parts are written iff present ---------------------------------------------------------------------------------
    ctx.rule("C11.optional-parts", "MatrixUri Display writes `action=` exactly when the action is present (no further condition such as non-emptiness): "
                                   "the parser maps `?action=` to Some(custom \"\"), which differs from None")
    fdisp = w.fn(f"<{MU}MatrixUri as core::fmt::Display>::fmt")
    dexw = D.Dex(w.lookup, adt_discr=w.adt_discr, effects=lambda n: n.endswith("write_str"), unroll=0, inline=helper)
    n_some = n_none = 0
    badp = []
    for pth in dexw.paths(fdisp, [D.sym("self"), D.sym("f")]):
        if pth.kind != "ret":
            continue
        conds = [(D.show_atom(a), t) for a, t in pth.conds]
        if any(a.startswith("Formatter::write_str(") and a.endswith(" is Err") and t for a, t in conds):
            continue        # the formatter failed: nothing more is written
        present = [t for a, t in conds if a == "MatrixUri::action(self) is Some"] + [not t for a, t in conds if a == "MatrixUri::action(self) is None"]
        if not present:
            continue
        wrote = any("action=" in D.show(e[1][1]) for e in pth.effects)
        n_some += present[0]
        n_none += not present[0]
        if wrote != present[0]:
            badp.append((present[0], wrote, [a[:70] for a, t in conds if "action" in a][:3]))
    ctx.check(n_some >= 1 and n_none >= 1 and not badp, "C11.optional-parts", "C11.optional-parts:action", w.where(fdisp),
              bad_msg=f"action present/written mismatch on {len(badp)} paths, e.g. present={badp[0][0] if badp else '?'} written={badp[0][1] if badp else '?'} under {badp[0][2] if badp else ''}: "
                      f"a parsed `?action=` is not written back, so format -> parse changes the value")
    # ---- split before decode -------------------------------------------------------------------------------------------------
    ctx.rule("C11.decode-order", "the URI parsers split on their delimiters ('/', '?', '#', '&', '=') only in text that has not been percent-decoded yet, "
                                 "and decode each part afterwards: Display writes an identifier's own '/', '?', '#' as %XX (C11.encode_set), so decoding "
                                 "first would turn them into separators")
    dexo = D.Dex(w.lookup, adt_discr=w.adt_discr, effects=lambda n: True, inline=helper)
    SPLITTERS = ("split_once", "rsplit_once", "split", "rsplit", "splitn", "rsplitn", "split_terminator", "matches", "find", "rfind", "strip_prefix", "strip_suffix")
    n_split = 0
    for name in ["MatrixId::parse_with_sigil", "MatrixId::parse_with_type", "MatrixToUri::parse", "MatrixUri::parse"]:
        fn = w.fn("ruma_common::identifiers::matrix_uri::" + name)
        seen = {}
        decodes = 0
        for pth in dexo.paths(fn, [D.sym("s")]):
            for e in pth.effects:
                meth = e[0].rsplit("::", 1)[-1]
                if meth in ("percent_decode_str", "percent_decode"):
                    decodes += 1
                if meth in SPLITTERS and "<impl str>" in e[0] and len(e[1]) >= 2:
                    a = U.shows(e[1])
                    if a[1] in ("'/'", "'?'", "'#'", "'&'", "'='"):
                        seen[(meth, a[1], "decode" in a[0])] = a[0]
        for (meth, delim, decoded), arg in sorted(seen.items()):
            n_split += 1
            ctx.check(not decoded, "C11.decode-order", f"C11.decode-order:{name}:{meth}:{delim}:{'decoded' if decoded else 'raw'}", w.where(fn),
                      ok_msg="delimiter searched in raw (still encoded) text",
                      bad_msg=f"{meth}({delim}) is applied to percent-decoded text ({arg[:90]}): an identifier containing {delim} (written as %XX by Display) "
                              f"is cut at its own character, so to_string -> parse no longer round-trips")
        if name == "MatrixId::parse_with_sigil":
            ctx.check(decodes > 0, "C11.decode-order", "C11.decode-order:parse_with_sigil:decodes", w.where(fn), bad_msg="identifier parts are never percent-decoded")
    ctx.floor("delimiter searches in URI parsers", n_split, 6)
    from . import controls
    controls.sites(ctx, "C11.sites")
    # ---- one codec for the query on both sides --------------------------------------------------------------------------------------
    ctx.rule("C11.query-codec", "a URI type that writes query values with the form-urlencoded serializer (space -> `+`) reads them with the form-urlencoded "
                                "parser (Url::query_pairs / form_urlencoded::parse); a reader that only percent-decodes keeps the `+`")
    MU = "ruma_common::identifiers::matrix_uri::"
    for ty in ("MatrixUri", "MatrixToUri"):
        disp = w.lookup(f"<{MU}{ty} as core::fmt::Display>::fmt")
        parse = w.lookup(f"{MU}{ty}::parse")
        if disp is None or parse is None or "body" not in disp or "body" not in parse:
            ctx.missing("C11.query-codec", f"C11.query-codec:{ty}", "Display or parse not found")
            continue
        def fam_calls(f0):
            fam = [f0] + [h for h in w.all_fns() if "body" in h and h["path"].startswith(f0["path"] + "::{closure")]
            # private helpers of the module called from it (one level)
            for _, c in list(M.calls(f0["body"])):
                h = w.lookup(M.callee_name(c))
                if h is not None and "body" in h and M.callee_name(c).startswith(MU) and h not in fam:
                    fam.append(h)
            return {M.callee_name(c) for g in fam for b_ in M.all_bodies(g) for _, c in M.calls(b_)}
        wc, rc = fam_calls(disp), fam_calls(parse)
        writes_form = any(c.startswith("form_urlencoded::byte_serialize") or "form_urlencoded::Serializer" in c for c in wc)
        reads_form = any(c in ("url::Url::query_pairs", "form_urlencoded::parse") for c in rc)
        reads_raw = any(c == "url::Url::query" for c in rc)
        if writes_form:
            ctx.check(reads_form and not reads_raw, "C11.query-codec", f"C11.query-codec:{ty}", w.where(parse),
                      bad_msg=f"{ty}'s Display writes query values with form_urlencoded (a space becomes `+`) but parse "
                              f"{'takes the raw query (Url::query) and decodes it itself' if reads_raw else 'does not use the form-urlencoded parser'}: "
                              f"`action=send+message` is read back as `send+message`")
        else:
            ctx.ok("C11.query-codec", f"C11.query-codec:{ty}", w.where(parse), "Display does not use the form-urlencoded serializer" + (" (parse does: `+` in a written value is percent-encoded, see C11.encode)" if reads_form else ""))
    # the parsers set no length limit of their own on the percent-ENCODED text: an identifier of at most 255 bytes takes up to three times as many
    # characters once escaped, so a bound on the encoded path refuses URIs that Display has just written (the identifier validators bound the decoded bytes)
    ctx.rule("C11.no-encoded-length-limit", "no parse function of matrix_uri compares the length of (a part of) the still percent-encoded input")
    n_parse, lens = 0, []
    for g in w.all_fns():
        if "body" not in g or "identifiers::matrix_uri::" not in g["path"] or not re.search(r"::parse\w*(::\{closure#\d+\})*$", g["path"]):
            continue
        n_parse += 1
        for body in M.all_bodies(g):
            defs_ = PC.roots(body)
            for _, c in M.calls(body):
                cn = M.callee_name(c)
                if cn.rsplit("::", 1)[-1] in ("len", "count") and ("<impl str>::len" in cn or "Chars" in " ".join(c.get("fnargs") or []) or "<impl str>::chars" in json.dumps(PC.expr(body, defs_, c["args"][0]))):
                    e_ = json.dumps(PC.expr(body, defs_, c["args"][0]))
                    if "percent_decode" not in e_ and "decode_utf8" not in e_ and "matches" not in e_ and not e_.startswith('["const"'):
                        # only a length that is COMPARED is a limit (a length used to slice off a known prefix is not)
                        d_ = c.get("dest")
                        compared = isinstance(d_, int) and any(
                            st[0] == "=" and st[2][0] == "bin" and st[2][1] in ("Gt", "Lt", "Ge", "Le") and
                            any(o.get("k") in ("copy", "move") and o.get("pl") == d_ for o in st[2][2:4])
                            for b_ in body["blocks"] for st in b_["s"])
                        if compared:
                            lens.append((g, c["line"]))
    ctx.floor("parse functions of matrix_uri", n_parse, 4)
    for g, line in lens[:3]:
        ctx.violation("C11.no-encoded-length-limit", f"C11.no-encoded-length-limit:{PC.key_path(g['path']).rsplit('::', 2)[-2]}::{PC.key_path(g['path']).rsplit('::', 1)[-1]}", w.where(g, line),
                      f"{g['path']} takes the length of text that is still percent-encoded: a limit on it refuses the URI of a valid identifier that needs escaping "
                      f"(80 three-byte characters are 240 bytes but 720 encoded characters)")
    if not lens:
        ctx.ok("C11.no-encoded-length-limit", "C11.no-encoded-length-limit:scan", "", f"{n_parse} parse functions, no length taken of encoded text")
    # ---- a trailing '/' that the writer emits is not normalised away ---------------------------------------------------------------------
    ctx.rule("C11.trailing-separator", "the typed form `type/id-without-sigil` ends in '/' when the identifier is its sigil alone (RoomId `!` and EventId `$` are "
                                       "accepted by the validators): parse_with_type drops a trailing '/' only under a test of the number of '/' in the text "
                                       "before dropping, so that the separator of an empty last segment is kept")
    lone = []
    for mod, sig in (("room_id", "!"), ("event_id", "$"), ("user_id", "@"), ("room_alias_id", "#")):
        vf = w.lookup(f"ruma_identifiers_validation::{mod}::validate")
        if vf is None or "body" not in vf:
            continue
        dxv = D.Dex(w.lookup, adt_discr=w.adt_discr, inline=lambda n: n.startswith("ruma_identifiers_validation::") and "{closure" not in n)

        def holds(atom_text, sig=sig):
            """truth of a condition for the one-character text `sig`; None when the rule does not know the condition"""
            m = re.match(r"^(\d+) < str::len\(s\)$", atom_text)
            if m:
                return int(m.group(1)) < 1
            m = re.match(r"^str::len\(s\) < (\d+)$", atom_text)
            if m:
                return 1 < int(m.group(1))
            m = re.match(r"^Option::Some\((\d+)\)==slice::first\((?:str::as_bytes\()?s\)?\)$", atom_text)
            if m:
                return int(m.group(1)) == ord(sig)
            m = re.match(r"^str::(?:contains|starts_with)\(s, '(.)'\)$", atom_text)
            if m:
                return m.group(1) == sig
            m = re.match(r"^slice::contains\((?:str::as_bytes\()?s\)?, (\d+)\)$", atom_text)
            if m:
                return int(m.group(1)) == ord(sig)
            if re.match(r"^str::(?:find|rfind|split_once|rsplit_once)\(s, '[^!$@#]'\) is Some$", atom_text):
                return False
            if atom_text == "str::is_empty(s)":
                return False
            return None
        for pth in dxv.paths(vf, [D.sym("s")]):
            if pth.kind == "ret" and U.is_ok(pth.ret) and all(holds(D.show_atom(a_)) is t_ for a_, t_ in pth.conds):
                lone.append(sig)
                break
    ftyp = w.fn("ruma_common::identifiers::matrix_uri::MatrixId::parse_with_type")
    dxt = D.Dex(w.lookup, adt_discr=w.adt_discr, inline=lambda n: False)
    unguarded, n_strip = [], 0
    for pth in dxt.paths(ftyp, [D.sym("s")]):
        atoms = [(D.show_atom(a_), t_) for a_, t_ in pth.conds]
        for a_, t_ in atoms:
            m = re.match(r"^str::(?:strip_suffix|trim_end_matches)\((.*), '/'\) is Some$", a_)
            if not (m and t_ is True):
                continue
            x = m.group(1)
            stripped = a_[:-len(" is Some")] + ".Some.0"
            if not any(stripped in b_ for b_, _ in atoms):
                continue            # the stripped text is not what the decisions of this path are taken on
            n_strip += 1
            if not any(f"str::matches({x}, '/')" in b_ or f"str::ends_with({x}, \"//\")" in b_ for b_, _ in atoms):
                unguarded.append(x)
    if not lone:
        ctx.ok("C11.trailing-separator", "C11.trailing-separator:parse_with_type", w.where(ftyp), "no identifier validator accepts a lone sigil (premise not established): the written last segment is never empty")
    else:
        ctx.check(not unguarded, "C11.trailing-separator", "C11.trailing-separator:parse_with_type", w.where(ftyp),
                  ok_msg=f"{n_strip} paths drop a trailing '/', each under a test of the slash count of the unstripped text (lone sigils accepted: {lone})",
                  bad_msg=f"parse_with_type drops a trailing '/' unconditionally, and the validators accept the lone sigils {lone}: Display writes "
                          f"`matrix:roomid/` for the room id `!` (and `.../e/` for the event id `$`), whose final '/' separates the type from an empty "
                          f"identifier; it is stripped and the text is refused (InvalidPartsNumber), so format -> parse does not round-trip")
    # an event URI's room part is read back as RoomOrAliasId, a room URI's as RoomId / RoomAliasId: what one accepts the other must accept
    from . import C10 as _C10
    _C10.or_alias_dispatch_rule(ctx, w, "C11.or-alias")
    ctx.assumptions += ["percent-encoding / form_urlencoded / url crates behave as documented", "round-trip equality for all values is not decided"]
    ctx.samples += [{"id": "@a%41:example.org", "needs": "'%' in the encode set, otherwise it parses back as @aA:example.org"}]
