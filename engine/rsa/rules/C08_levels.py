"""C08 (power levels part): defaults, level getters, check_room_power_levels per-field body, check_power_level_maps per-key body."""
import itertools, re
from .. import dex as D, authmodel as A, mir as M
from . import util as U

EA = "ruma_state_res::event_auth::"
PL = "ruma_state_res::events::power_levels::"
FIELD_KEYS = {"UsersDefault": "users_default", "EventsDefault": "events_default", "StateDefault": "state_default", "Ban": "ban", "Redact": "redact",
              "Kick": "kick", "Invite": "invite"}


SIGNS = {"unsigned": {"+"}, "signed": {"+", "-"}}


def string_level_rule(ctx, w):
    """Room versions 1-9 accept a power level written as a string that is an integer: surrounding whitespace, ONE optional sign, digits.
    Rust's integer parsers accept a sign themselves (`+` for unsigned types, `+`/`-` for signed ones), so wherever the visitor strips a sign
    before parsing, the remainder must be kept from starting with a sign the parser would take again (`"++5"`, `"+-5"`)."""
    rule = "C08.string-levels"
    ctx.rule(rule, "deserialize_v1_powerlevel::visit_str: no accepting path parses a string from which a sign has already been stripped with a parser "
                   "that accepts a sign, unless the path excludes a second sign")
    from . import panic_common as PC
    import json as _json
    cands = [g for g in w.all_fns() if "deserialize_v1_powerlevel" in g["path"] and g["path"].endswith("visit_str") and "body" in g]
    if len(cands) != 1:
        ctx.missing(rule, f"{rule}:visit_str", "the string visitor of deserialize_v1_powerlevel was not found")
        return
    g = cands[0]
    body = g["body"]
    defs = PC.roots(body)
    parses = []
    for _, c in M.calls(body):
        n = M.callee_name(c)
        if n.rsplit("::", 1)[-1] in ("parse", "from_str", "from_str_radix") and c["args"]:
            ty = " ".join(c.get("fnargs") or []) + " " + n
            kind = "unsigned" if re.search(r"\b(UInt|u8|u16|u32|u64|u128|usize)\b", ty) else ("signed" if re.search(r"\b(Int|i8|i16|i32|i64|i128|isize)\b", ty) else None)
            arg = _json.dumps(PC.expr(body, defs, c["args"][0]))
            stripped = bool(re.search(r"strip_prefix|trim_start_matches|trim_left_matches|split_at|\[1\.\.|get\(", arg)) or '"local"' in arg
            parses.append((kind, stripped, c["line"]))
    ctx.floor("integer parses in deserialize_v1_powerlevel::visit_str", len(parses), 1)
    dex = D.Dex(w.lookup, adt_discr=w.adt_discr, inline=lambda n: "{closure" in n)
    okp = [p for p in dex.paths(g, [D.sym("self"), D.sym("v")]) if p.kind == "ret" and D.show(p.ret).startswith("Result::Ok(")]
    bad = []
    for kind, stripped, line in parses:
        if not stripped:
            continue
        if kind is None:
            bad.append((line, "a parser of unknown type"))
            continue
        # every accepting path through the stripped parse must exclude all of the parser's signs
        paths_with = [p for p in okp if any("strip_prefix(" in D.show_atom(a) and t and "Some" in D.show_atom(a) for a, t in p.conds)] or okp
        worst = set()
        for p in paths_with:
            excl = set()
            for a, t in p.conds:
                sa = D.show_atom(a)
                m = re.match(r"^str::starts_with\(.*(?:strip_prefix|trim_start_matches)\(.*, (.*)\)$", sa)
                if m and not t:
                    excl |= {ch for ch in "+-" if ch in m.group(1)}
                if re.match(r"^(?:\w+::)*is_ascii_digit\(", sa) and ("strip_prefix" in sa or "trim_start" in sa) and t:
                    excl |= {"+", "-"}
            worst |= SIGNS[kind] - excl
        if worst:
            bad.append((line, f"the {kind} parser takes a second {sorted(worst)}"))
    ctx.check(not bad, rule, f"{rule}:single-sign", w.where(g),
              bad_msg=f"a power level string with two signs is accepted: after a sign has been stripped, {bad} (e.g. \"++5\" or \"+-5\" is read as a number; the "
                      f"specification's string form has one optional sign)")


def run(ctx, w, spec, versions):
    string_level_rule(ctx, w)
    rule = "C08.levels"
    ctx.rule(rule, "default levels (ban/kick/redact/state_default 50, invite/events_default/users_default 0, creator 100 without a power-levels event), "
                   "field names, and the fallbacks of user_power_level / event_power_level / get_as_int_or_default equal the specification's")
    # the functions the rule states facts about stay opaque; any other helper of the power-levels module (e.g. an extracted
    # `default_for_event(state_key)`) is inlined
    ANCHORS = {"default_value", "get_as_int", "get_as_int_or_default", "user_power_level", "event_power_level", "users", "int_fields_map", "as_ref", "events",
               "notifications", "deserialized_content", "new", "creator"}
    dex = D.Dex(w.lookup, adt_discr=w.adt_discr, unroll=1,
                inline=lambda n: "{closure" in n or (n.startswith(PL) and " as " not in n and n.rsplit("::", 1)[-1] not in ANCHORS))
    # defaults and names
    f = w.fn(PL + "RoomPowerLevelsIntField::default_value")
    got = {}
    dpaths = [p for p in dex.paths(f, [D.sym("self")]) if p.kind == "ret"]
    adt_f = w.adts.get(PL + "RoomPowerLevelsIntField")
    for V_ in ([v_["name"] for v_ in adt_f["variants"]] if adt_f else []):
        # the paths a value of this variant can take: every variant test on the path has the outcome it has for V_ (a `matches!` flag or a wildcard arm
        # leaves only negative tests on the path of the other variants)
        cands = {int_of(p.ret) for p in dpaths if all((a[2] == V_) == t for a, t in p.conds if a[0] == "variant")}
        if len(cands) == 1:
            got[V_] = cands.pop()
    ctx.check(got == spec.DEFAULT_LEVELS, rule, f"{rule}:defaults", w.where(f), bad_msg=f"default levels are {got}, the specification says {spec.DEFAULT_LEVELS}")
    f = w.fn(f"<{PL}RoomPowerLevelsIntField as core::convert::AsRef<str>>::as_ref")
    names = {}
    for p in dex.paths(f, [D.sym("self")]):
        v = [a[2] for a, t in p.conds if a[0] == "variant" and t]
        if v and D.is_const(p.ret):
            names[v[0]] = p.ret[1]
    ctx.check(names == FIELD_KEYS, rule, f"{rule}:field-names", w.where(f), bad_msg=f"content keys are {names}")
    allv = w.value(PL + "RoomPowerLevelsIntField::ALL")
    ctx.check(isinstance(allv, list) and sorted(x["variant"] for x in allv) == sorted(FIELD_KEYS), rule, f"{rule}:ALL", w.where_value(PL + "RoomPowerLevelsIntField::ALL"),
              bad_msg=f"RoomPowerLevelsIntField::ALL = {allv}: every scalar field must be compared when power levels change")
    ctx.check(w.value(PL + "DEFAULT_CREATOR_POWER_LEVEL") == spec.DEFAULT_CREATOR_LEVEL, rule, f"{rule}:creator", w.where_value(PL + "DEFAULT_CREATOR_POWER_LEVEL"),
              bad_msg="creator default level is not 100")

    OPT = f"<core::option::Option<{PL}RoomPowerLevelsEvent<E>> as {PL}RoomPowerLevelsEventOptionExt>::"
    # Option<..>::user_power_level
    f = w.fn(OPT + "user_power_level")
    paths = dex.paths(f, [D.sym("self"), D.sym("user"), D.sym("creator"), D.sym("rules")])
    res = {}
    for p in paths:
        tv = U.true_variants(p)
        iscreator = [t for a, t in p.conds if a[0] == "eq"]
        res[(tv.get("self"), iscreator[0] if iscreator else None)] = D.show(p.ret)
    good = res.get(("Some", None)) == "RoomPowerLevelsEvent::user_power_level(self.Some.0, user, rules)" and \
        "100" in res.get(("None", True), "") and res.get(("None", False)) == "Result::Ok(RoomPowerLevelsIntField::default_value(RoomPowerLevelsIntField::UsersDefault))"
    ctx.check(good, rule, f"{rule}:user_power_level:no-event", w.where(f), bad_msg=f"{res}")
    f = w.fn(PL + "RoomPowerLevelsEvent::<E>::user_power_level")
    paths = dex.paths(f, [D.sym("self"), D.sym("user"), D.sym("rules")])
    rets = {D.show(p.ret)[:140] for p in paths if p.kind == "ret" and not U.is_err(p.ret)}
    good = any(r.startswith("Result::Ok(BTreeMap::get(") and "user)" in r for r in rets) and \
        "RoomPowerLevelsEvent::get_as_int_or_default(self, RoomPowerLevelsIntField::UsersDefault, rules)" in rets and len(rets) == 2
    ctx.check(good, rule, f"{rule}:user_power_level:event", w.where(f), bad_msg=f"{sorted(map(str, rets))}")
    # event_power_level
    for name, selfexpr in ((PL + "RoomPowerLevelsEvent::<E>::event_power_level", "self"),):
        f = w.fn(name)
        paths = dex.paths(f, [D.sym("self"), D.sym("ty"), D.sym("state_key"), D.sym("rules")])
        rets = {}
        for p in paths:
            if p.kind != "ret" or U.is_err(p.ret):
                continue
            tv = U.true_variants(p)
            rets[(tv.get("state_key"), "map" if D.show(p.ret).startswith("Result::Ok(BTreeMap::get(") else D.show(p.ret))] = True
        want = {("Some", "RoomPowerLevelsEvent::get_as_int_or_default(self, RoomPowerLevelsIntField::StateDefault, rules)"),
                ("None", "RoomPowerLevelsEvent::get_as_int_or_default(self, RoomPowerLevelsIntField::EventsDefault, rules)")}
        have_defaults = {k for k in rets if k[1] != "map"}
        ctx.check(have_defaults == want and any(k[1] == "map" for k in rets), rule, f"{rule}:event_power_level:event", w.where(f), bad_msg=f"{sorted(map(str, rets))}")
    f = w.fn(OPT + "event_power_level")
    paths = dex.paths(f, [D.sym("self"), D.sym("ty"), D.sym("state_key"), D.sym("rules")])
    rets = {(U.true_variants(p).get("self"), U.true_variants(p).get("state_key")): D.show(p.ret) for p in paths}
    good = rets.get(("None", "Some")) == "Result::Ok(RoomPowerLevelsIntField::default_value(RoomPowerLevelsIntField::StateDefault))" and \
        rets.get(("None", "None")) == "Result::Ok(RoomPowerLevelsIntField::default_value(RoomPowerLevelsIntField::EventsDefault))" and \
        rets.get(("Some", None)) == "RoomPowerLevelsEvent::event_power_level(self.Some.0, ty, state_key, rules)"
    ctx.check(good, rule, f"{rule}:event_power_level:no-event", w.where(f), bad_msg=f"{rets}")
    for name in (PL + "RoomPowerLevelsEvent::<E>::get_as_int_or_default",):
        f = w.fn(name)
        paths = dex.paths(f, [D.sym("self"), D.sym("field"), D.sym("rules")])
        rets = {D.show(p.ret) for p in paths if p.kind == "ret" and not U.is_err(p.ret)}
        ctx.check(rets == {"Result::Ok(RoomPowerLevelsEvent::get_as_int(self, field, rules).Ok.0.Some.0)", "Result::Ok(RoomPowerLevelsIntField::default_value(field))"},
                  rule, f"{rule}:get_as_int_or_default", w.where(f), bad_msg=f"{sorted(map(str, rets))}")
    f = w.fn(OPT + "get_as_int_or_default")
    rets = {U.true_variants(p).get("self"): D.show(p.ret) for p in dex.paths(f, [D.sym("self"), D.sym("field"), D.sym("rules")])}
    ctx.check(rets == {"Some": "RoomPowerLevelsEvent::get_as_int_or_default(self.Some.0, field, rules)", "None": "Result::Ok(RoomPowerLevelsIntField::default_value(field))"},
              rule, f"{rule}:get_as_int_or_default:no-event", w.where(f), bad_msg=f"{rets}")

    # ---- check_room_power_levels: one scalar field ------------------------------------------------------
    rule = "C08.power_levels"
    ctx.rule(rule, "m.room.power_levels: for a scalar field that changed, reject iff current (absent = default) or new (absent = default) exceeds the sender's level; "
                   "map entries (events, notifications from v6, users) per the specification; no current power-levels event = allow")
    dexe = D.Dex(w.lookup, adt_discr=w.adt_discr, unroll=1, inline=lambda n: "{closure" in n, effects=lambda n: n.endswith("check_power_level_maps"))
    f = w.fn(EA + "check_room_power_levels")
    paths = dexe.paths(f, [D.sym("new_ev"), D.sym("cur_ev"), D.sym("rules"), D.sym("sender_pl")])
    FIRST = r"Iterator::next\(iter::into_iter\(const:[\w:]*ALL\)\)\.Some\.0"
    vals = (None, 0, 1, 2)
    n, bad = 0, []
    atoms = sorted({a for a in D.all_atoms(paths)}, key=repr)
    for cur, new, d, s, lim in itertools.product(vals, vals, (0, 1, 2), (0, 1, 2), (True, False)):
        sc = A.Scenario(
            bools=[(r"^rules\.limit_notifications_power_levels$", lim)],
            ints=[(r"^sender_pl$", s), (r"default_value\(" + FIRST + r"\)$", d),
                  (r"BTreeMap::get\(RoomPowerLevelsEvent::int_fields_map\(new_ev, rules\)\.Ok\.0, " + FIRST + r"\)\.Some\.0$", new if new is not None else 0),
                  (r"get_as_int\(cur_ev\.Some\.0, " + FIRST + r", rules\)\.Ok\.0\.Some\.0$", cur if cur is not None else 0)],
            eqs=[(r"BTreeMap::get\(RoomPowerLevelsEvent::int_fields_map.*==RoomPowerLevelsEvent::get_as_int|get_as_int.*==BTreeMap::get", cur == new)],
            wrappers=[(r"^cur_ev$", "Some"), (r"ALL\)\)$", "Some"), (r"ALL\)\)#2$", "None"),
                      (r"get_as_int\(cur_ev\.Some\.0, " + FIRST + r", rules\)\.Ok\.0$", "Some" if cur is not None else "None"),
                      (r"BTreeMap::get\(RoomPowerLevelsEvent::int_fields_map\(new_ev, rules\)\.Ok\.0, " + FIRST + r"\)$", "Some" if new is not None else "None")])
        cache = {a: sc(a) for a in atoms}
        sel = [p for p in paths if all(cache.get(a) is None or cache[a] == t for a, t in p.conds)]
        outs = {A.outcome(p) for p in sel}
        curv, newv = (cur if cur is not None else d), (new if new is not None else d)
        want = "allow" if cur == new or spec.scalar_field_change({"current": curv, "new": newv, "sender_pl": s}, {}) == "ok" else "reject"
        n += 1
        if outs != {want}:
            bad.append((f"current={cur},new={new},default={d},sender={s}", sorted(outs), want))
    ctx.check(not bad, rule, f"{rule}:scalar-field", w.where(f), ok_msg=f"{n} scenarios agree", bad_msg=f"{len(bad)} disagreements, first {bad[:2]}")
    ctx.count("scenarios", n)
    none_paths = [p for p in paths if U.true_variants(p).get("cur_ev") == "None" and p.kind == "ret"]
    ctx.check(bool(none_paths) and all(A.outcome(p) in ("allow",) or any(a[2] == "Err" and t for a, t in p.conds if a[0] == "variant") for p in none_paths), rule,
              f"{rule}:no-current-event", w.where(f), bad_msg="initial power levels event is not simply allowed")
    # wiring of the three map checks
    for lim in (True, False):
        okp = [p for p in paths if A.outcome(p) == "allow" and U.true_variants(p).get("cur_ev") == "Some" and
               (("rules.limit_notifications_power_levels", lim) in [(D.show_atom(a), t) for a, t in p.conds])]
        good = bool(okp)
        for p in okp:
            calls = [U.shows(e[1]) for e in p.effects]
            kinds = [("events" if "::events(" in c[0] else "notifications" if "::notifications(" in c[0] else "users" if "::users(" in c[0] else "?") for c in calls]
            good = good and kinds == (["events", "notifications", "users"] if lim else ["events", "users"])
            for c, k in zip(calls, kinds):
                good = good and f"::{k}(cur_ev.Some.0, rules).Ok.0" in c[0] and f"::{k}(new_ev, rules).Ok.0" in c[1] and c[2] == "sender_pl" and c[3].startswith("closure[")
        ctx.check(good, rule, f"{rule}:wiring:limit_notifications={lim}", w.where(f), bad_msg="the map checks are not (events[, notifications], users) over (current, new, sender level)")
    # the closures: events/notifications reject iff current > sender; users iff other user and current >= sender
    clos = {}
    for p in paths:
        for e in p.effects:
            kind = "events" if "::events(" in D.show(e[1][0]) else "notifications" if "::notifications(" in D.show(e[1][0]) else "users"
            clos[kind] = e[1][3]
    for kind, clo in sorted(clos.items()):
        cf = w.fn(clo[1])
        cps = dex.paths(cf, [clo, D.sym("key"), D.sym("cur")])
        bad = []
        for c, s, same in itertools.product((0, 1, 2), (0, 1, 2), (True, False)):
            sc = A.Scenario(ints=[(r"^cur$", c), (r"^sender_pl$", s)], eqs=[(r"key==|==key", same)])
            vals_ = set()
            for p in D.evaluate(cps, sc):
                vals_.add(D.eval_bool(p.ret, sc))
            want = (c > s) if kind != "users" else ((not same) and c >= s)
            if vals_ != {want}:
                bad.append((c, s, same, vals_, want))
        ctx.check(not bad, rule, f"{rule}:reject-current:{kind}", w.where(cf), bad_msg=f"closure decides {bad[:2]}")
    ctx.floor("map-check closures", len(clos), 3)

    # ---- check_power_level_maps: one key ----------------------------------------------------------------------
    f = w.fn(EA + "check_power_level_maps")
    paths = dex.paths(f, [D.sym("current"), D.sym("new"), D.sym("sender_pl"), D.sym("reject_fn"), D.sym("error_fn")])
    atoms = sorted({a for a in D.all_atoms(paths)}, key=repr)
    KEY = r"Iterator::next\(IntoIterator::into_iter\(Iterator::collect\(.*\)\)\)\.Some\.0"
    n, bad = 0, []
    for cm, nm, s, F in itertools.product(("nomap", None, 0, 1, 2), ("nomap", None, 0, 1, 2), (0, 1, 2), (True, False)):
        c = None if cm in ("nomap", None) else cm
        nw = None if nm in ("nomap", None) else nm
        if c is None and nw is None:
            continue  # the key would not be iterated
        sc = A.Scenario(
            bools=[(r"^apply\(reject_fn; ", F)],
            ints=[(r"^sender_pl$", s), (r"^BTreeMap::get\(new\.Some\.0, .*\)$", nw if nw is not None else -1), (r"^BTreeMap::get\(new\.Some\.0, .*\)\.Some\.0$", nw if nw is not None else 0),
                  (r"^BTreeMap::get\(current\.Some\.0, .*\)$", c if c is not None else -1), (r"^BTreeMap::get\(current\.Some\.0, .*\)\.Some\.0$", c if c is not None else 0)],
            eqs=[(r"BTreeMap::get\(current.*==BTreeMap::get\(new|BTreeMap::get\(new.*==BTreeMap::get\(current", c == nw)],
            wrappers=[(r"^current$", "None" if cm == "nomap" else "Some"), (r"^new$", "None" if nm == "nomap" else "Some"),
                      (r"^BTreeMap::get\(current\.Some\.0, ", "Some" if c is not None else "None"), (r"^BTreeMap::get\(new\.Some\.0, ", "Some" if nw is not None else "None"),
                      (r"^Iterator::next\(IntoIterator::into_iter\(Iterator::collect\(.*\)\)\)$", "Some"), (r"^Iterator::next\(IntoIterator::into_iter\(Iterator::collect\(.*\)\)\)#2$", "None")])
        cache = {a: sc(a) for a in atoms}
        sel = [p for p in paths if all(cache.get(a) is None or cache[a] == t for a, t in p.conds)]
        outs = {A.outcome(p) for p in sel}
        if c == nw:
            want = "allow"
        else:
            want = "reject" if (c is not None and F) or (nw is not None and nw > s) else "allow"
        n += 1
        if outs != {want}:
            bad.append((f"current={cm},new={nm},sender={s},reject_current={F}", sorted(outs), want))
    ctx.check(not bad, rule, f"{rule}:map-entry", w.where(f), ok_msg=f"{n} scenarios agree", bad_msg=f"{len(bad)} disagreements, first {bad[:2]}")
    ctx.count("scenarios", n)
    # the generic formula instantiated with the closures equals the spec's per-entry rules
    mism = []
    for c, nw, s, same in itertools.product((None, 0, 1, 2), (None, 0, 1, 2), (0, 1, 2), (True, False)):
        for kind, Ff, model in (("events", lambda: c is not None and c > s, spec.map_entry_change), ("users", lambda: c is not None and (not same) and c >= s, spec.users_entry_change)):
            impl = "ok" if c == nw else ("reject" if (c is not None and Ff()) or (nw is not None and nw > s) else "ok")
            if impl != model({"current": c, "new": nw, "sender_pl": s, "user_is_sender": same}, {}):
                mism.append((kind, c, nw, s, same))
    ctx.check(not mism, rule, f"{rule}:composition", w.where(f), bad_msg=f"{mism[:3]}")


def int_of(v):
    """js_int constants print as Int(n) structs"""
    if D.is_const(v):
        return v[1]
    if v is not None and v[0] == "adt" and v[3]:
        return int_of(v[3][0][1])
    return None
