"""C01 — canonical JSON: structural necessary conditions (sorted map type, integer admission, plain serializer, no pretty printing)."""
import json, os, subprocess
import re
from .. import dex as D, world as W, mir as M, facts as F
from . import util as U

LEVEL = "other"
EXPLANATION = (
    "Decides the clauses whose truth is in the shape of the code: CanonicalJsonObject is BTreeMap<String, _> (byte order of UTF-8 keys = "
    "code-point order, duplicates collapse); the only path of TryFrom<serde_json::Value> that yields Integer goes as_i64 -> Some -> "
    "js_int::Int::try_from -> Ok and every other number is an IntConvert error (no float, unsigned, saturating or wrapping conversion "
    "anywhere in the module); Serialize emits the map's own iteration order entry by entry; Display is serde_json::to_string and "
    "ignores formatter flags; nothing in canonical_json or ruma-signatures uses a pretty serializer; serde_json is built without "
    "arbitrary_precision/preserve_order-dependent number handling. Byte-exact escaping and integer printing are serde_json's and are trusted.")
V = "ruma_common::canonical_json::value::CanonicalJsonValue"
DENY_CALLEES = ("as_f64", "as_u64", "as_u128", "as_i128", "new_saturating", "new_wrapping", "from_f64", "saturating_from", "wrapping_from",
                "to_string_pretty", "to_vec_pretty", "to_writer_pretty", "PrettyFormatter", "with_formatter")


def run(ctx):
    fx = ctx.facts("A")
    w = W.World(fx, ["ruma_common", "ruma_signatures"])
    rc = w.crates["ruma_common"]

    ctx.rule("C01.map", "CanonicalJsonObject = BTreeMap<String, CanonicalJsonValue>; the Object variant holds that type")
    al = rc.aliases.get("ruma_common::canonical_json::value::CanonicalJsonObject")
    ctx.check(al == f"alloc::collections::btree::map::BTreeMap<alloc::string::String, {V}>", "C01.map", "C01.map:alias",
              "crates/ruma-common/src/canonical_json/value.rs", bad_msg=f"CanonicalJsonObject is {al}")
    a = w.adts[V]
    obj = [v for v in a["variants"] if v["name"] == "Object"]
    ctx.check(bool(obj) and obj[0]["fields"][0]["ty"].startswith("alloc::collections::btree::map::BTreeMap<alloc::string::String,"), "C01.map",
              "C01.map:variant", f"{a['span'][0]}:{a['span'][1]}", bad_msg=f"Object variant holds {obj and obj[0]['fields'][0]['ty']}")
    ints = [v for v in a["variants"] if v["name"] == "Integer"]
    ctx.check(bool(ints) and ints[0]["fields"][0]["ty"] == "js_int::int::Int", "C01.map", "C01.map:integer-type", f"{a['span'][0]}:{a['span'][1]}",
              bad_msg="Integer variant is not js_int::Int (range +-(2^53-1))")
    names = [v["name"] for v in a["variants"]]
    ctx.check(set(names) == {"Null", "Bool", "Integer", "String", "Array", "Object"}, "C01.map", "C01.map:variants", f"{a['span'][0]}:{a['span'][1]}",
              bad_msg=f"value kinds are {names} (a float/number variant would make non-integers representable)")

    # ---- number admission -------------------------------------------------------------------------
    ctx.rule("C01.numbers", "TryFrom<serde_json::Value>: Integer(x) is produced only with x = Int::try_from(num.as_i64()?)?; as_i64 = None or "
                            "try_from = Err give CanonicalJsonError::IntConvert; strings/bools/null pass through unchanged; arrays and objects "
                            "convert every element with the same fallible conversion")
    # free helper functions of the module are inlined: moving the number conversion into a helper must look the same
    HELPERS = "ruma_common::canonical_json::"
    def is_helper(n):
        rest = n[len(HELPERS):] if n.startswith(HELPERS) else None
        return rest is not None and "{closure" not in rest and "<" not in rest and rest.count("::") <= 1 and \
            rest.rsplit("::", 1)[-1] not in ("redact", "redact_in_place", "redact_content_in_place", "to_canonical_value")
    dex = D.Dex(w.lookup, adt_discr=w.adt_discr, effects=lambda n: True, unroll=1, inline=is_helper)
    f = w.fn(f"<{V} as core::convert::TryFrom<serde_json::value::Value>>::try_from")
    paths = dex.paths(f, [D.sym("val")])
    int_ok = [p for p in paths if p.kind == "ret" and U.is_ok(p.ret) and D.show(U.payload(p.ret)).startswith("CanonicalJsonValue::Integer(")]
    ctx.floor("integer-producing paths", len(int_ok), 1)
    for p in int_ok:
        tv = U.true_variants(p)
        good = D.show(p.ret) == "Result::Ok(CanonicalJsonValue::Integer(TryFrom::try_from(Number::as_i64(val.Number.0).Some.0).Ok.0))" and \
            tv.get("Number::as_i64(val.Number.0)") == "Some" and tv.get("TryFrom::try_from(Number::as_i64(val.Number.0).Some.0)") == "Ok"
        ctx.check(good, "C01.numbers", "C01.numbers:integer-path", w.where(f), bad_msg=f"Integer produced as {D.show(p.ret)[:200]}")
    cs = [c for g in [f] + [h for h in w.all_fns() if is_helper(h["path"]) and "body" in h] for _, c in M.calls(g["body"]) if c.get("fn") == "core::convert::TryFrom::try_from"]
    ctx.check(any(c["fnargs"][:2] == ["js_int::int::Int", "i64"] for c in cs), "C01.numbers", "C01.numbers:int-type", w.where(f),
              bad_msg=f"the range check is not js_int::Int::try_from(i64): {[c['fnargs'] for c in cs]}")
    num_paths = [p for p in paths if any("val.Number.0" in D.show_atom(a) for a, _ in p.conds)]
    bad = [p for p in num_paths if p.kind == "ret" and not (p in int_ok or D.show(p.ret) == "Result::Err(CanonicalJsonError::IntConvert)")]
    ctx.check(not bad and len(num_paths) >= 3, "C01.numbers", "C01.numbers:rejections", w.where(f),
              bad_msg=f"number outcomes: {[D.show(p.ret)[:80] for p in num_paths]}")
    for kind, want in (("String", "Result::Ok(CanonicalJsonValue::String(val.String.0))"), ("Bool", "Result::Ok(CanonicalJsonValue::Bool(val.Bool.0))")):
        ctx.check(any(D.show(p.ret) == want for p in paths), "C01.numbers", f"C01.numbers:passthrough:{kind}", w.where(f), bad_msg=f"{kind} is not passed through unchanged")
    arr = [p for p in paths if p.kind == "ret" and U.is_ok(p.ret) and "Array(" in D.show(p.ret)]
    # every element goes through the fallible conversion (TryInto::try_into / TryFrom::try_from / Self::try_from, or a closure around it) and the
    # FIRST failure fails the whole array: the collected value is a Result whose Ok payload becomes the array (no filter/flat_map that drops items)
    ARR = re.compile(r"Result::Ok\(CanonicalJsonValue::Array\(Iterator::collect\(Iterator::map\(IntoIterator::into_iter\(val\.Array\.0\), "
                     r"(?:fn\[(?:core::convert::TryInto::try_into|core::convert::TryFrom::try_from|[^\]]*CanonicalJsonValue[^\]]*::try_from)\]|closure\[[^\]]+\](?:\{.*\})?)\)\)\.Ok\.0\)\)")
    def loop_form(p):
        """`for item in vec { items.push(Self::try_from(item)?) }`: every element yielded on the path is pushed as the Ok payload of its conversion."""
        if not re.fullmatch(r"Result::Ok\(CanonicalJsonValue::Array\(Vec::(?:new\(\)|with_capacity\(.*\))\)\)", D.show(p.ret)):
            return False
        tv = U.true_variants(p)
        elems = sorted(s_ + ".Some.0" for s_, v in tv.items() if re.match(r"^Iterator::next\(IntoIterator::into_iter\(val\.Array\.0\)\)", s_) and v == "Some")
        pushed = [U.shows(e[1])[1] for e in p.effects if e[0].endswith("Vec::<T, A>::push") or e[0].endswith("::push")]
        conv = [rf"(?:TryInto::try_into|TryFrom::try_from|(?:\w+::)*try_from)\({re.escape(x)}\)" for x in elems]
        if len(pushed) != len(elems) or not all(re.fullmatch(c_ + r"\.Ok\.0", v_) for c_, v_ in zip(conv, sorted(pushed))):
            return False
        return all(any(re.fullmatch(c_, k) and v == "Ok" for k, v in tv.items()) for c_ in conv)
    loop_arr = [p for p in arr if loop_form(p)]
    # ... and in the loop form a failed conversion ends the function with that error (no path carries on after an Err)
    conv_err = [p for p in paths if any(re.search(r"try_(?:from|into)\(Iterator::next\(IntoIterator::into_iter\(val\.Array\.0\)\)", k) and v == "Err" for k, v in U.true_variants(p).items())]
    loop_ok = not loop_arr or (bool(conv_err) and all(p.kind == "ret" and U.is_err(p.ret) for p in conv_err))
    ctx.check(bool(arr) and loop_ok and all(ARR.fullmatch(D.show(p.ret)) is not None or p in loop_arr for p in arr),
              "C01.numbers", "C01.numbers:array-elements", w.where(f),
              bad_msg=f"array elements are not all converted with the fallible conversion, failing the array on the first error: {[D.show(p.ret)[:160] for p in arr][:1]}")
    objp = [p for p in paths if p.kind == "ret" and U.is_ok(p.ret) and "CanonicalJsonValue::Object(" in D.show(p.ret)]
    good = bool(objp)
    if good:
        # the member-conversion closure is the one the Object result is built with (named in the result, whatever function it lives in)
        names = set()
        for p in objp:
            names |= set(re.findall(r"closure\[([^\]]+)\]", D.show(p.ret)))
        cands = [g for g in (w.lookup(n) for n in names) if g is not None and "body" in g and g["body"]["argc"] == 2 and g["body"]["locals"][2].startswith("(")]
        if len(cands) != 1:
            raise F.MissingAnchor(f"object member closure of TryFrom<Value> not identified ({len(cands)} candidates among {sorted(names)})")
        clo = cands[0]
        cps = dex.paths(clo, [D.sym("env"), ("tup", (D.sym("k"), D.sym("v")))])
        oks = [p for p in cps if p.kind == "ret" and U.is_ok(p.ret)]
        # v.try_into() and CanonicalJsonValue::try_from(v) are the same conversion (TryInto's blanket impl)
        norm = lambda t: t.replace("TryFrom::try_from(", "TryInto::try_into(")
        good = len(oks) == 1 and norm(D.show(oks[0].ret)) == "Result::Ok((k, TryInto::try_into(v).Ok.0))" and \
            all(norm(D.show(p.ret)).startswith("Result::Err(TryInto::try_into(v).Err.0") for p in cps if p.kind == "ret" and U.is_err(p.ret))
    ctx.check(good, "C01.numbers", "C01.numbers:object-members", w.where(f), bad_msg="object members are not (same key, fallibly converted value)")
    # try_from_json_map is the second way into canonical values (serde_json::Map -> CanonicalJsonObject): it must convert every member with the
    # same fallible conversion and fail on the first error - an entry that cannot be represented is never dropped
    fm = w.fn("ruma_common::canonical_json::try_from_json_map")
    mps = dex.paths(fm, [D.sym("json")])
    CONV = r"(?:TryInto::try_into|TryFrom::try_from|(?:\w+::)*try_from)"
    good_m, why_m = bool(mps), ""
    for p in mps:
        if p.kind == "loop":
            continue                                   # cut off by the unrolling bound
        if p.kind != "ret":
            good_m, why_m = False, f"{p.kind} path"
            break
        r = D.show(p.ret)
        m_ = re.fullmatch(r"(?:Result::Ok\()?Iterator::collect\(Iterator::map\(IntoIterator::into_iter\(json\), closure\[([^\]]+)\](?:\{.*\})?\)\)(?:\.Ok\.0\))?", r)
        if m_:
            cps = dex.paths(w.fn(m_.group(1)), [D.sym("env"), ("tup", (D.sym("k"), D.sym("v")))])
            oks = [q for q in cps if q.kind == "ret" and U.is_ok(q.ret)]
            ok_c = len(oks) == 1 and re.fullmatch(r"Result::Ok\(\(k, " + CONV + r"\(v\)\.Ok\.0\)\)", D.show(oks[0].ret)) is not None and \
                all(q.kind == "ret" and (U.is_ok(q.ret) or re.match(r"Result::Err\(.*" + CONV + r"\(v\)\.Err\.0", D.show(q.ret))) for q in cps)
            if not ok_c:
                good_m, why_m = False, f"member closure returns {[D.show(q.ret)[:80] for q in cps]}"
            continue
        if U.is_err(p.ret) and re.search(CONV + r"\(.*\)\.Err\.0", r):
            continue                                   # propagated conversion error (`?` / loop form)
        if re.search(CONV + r"\((?:Value|JsonValue)::Object\(json\)\)", r):
            continue                                   # delegates to TryFrom<Value> (checked above)
        tv = U.true_variants(p)
        elems = sorted(k_ + ".Some.0" for k_, v_ in tv.items() if re.match(r"^Iterator::next\(IntoIterator::into_iter\(json\)\)", k_) and v_ == "Some")
        ins = [U.shows(e[1]) for e in p.effects if e[0].rsplit("::", 1)[-1] == "insert" and len(e[1]) == 3]
        loop_ok = U.is_ok(p.ret) and re.fullmatch(r"Result::Ok\((?:BTreeMap::new\(\)|Default::default\(\)|BTreeMap::default\(\))\)", r) is not None and \
            len(ins) == len(elems) and all(
            any(a_[1] == f"{el}.0" and re.fullmatch(CONV + r"\(" + re.escape(el) + r"\.1\)\.Ok\.0", a_[2]) for a_ in ins) for el in elems) and \
            not any(v_ == "Err" and re.match(CONV, k_) for k_, v_ in tv.items())
        if not loop_ok:
            good_m, why_m = False, f"result {r[:160]}"
    ctx.check(good_m, "C01.numbers", "C01.numbers:json-map-members", w.where(fm),
              bad_msg=f"try_from_json_map does not convert every member fallibly and fail on the first error ({why_m}): a member that cannot be represented is dropped or altered")
    # Deserialize goes through the same conversion
    fde = w.fn(f"<{V} as serde_core::de::Deserialize<'de>>::deserialize")
    pde = [p for p in dex.paths(fde, [D.sym("de")]) if p.kind == "ret" and U.is_ok(p.ret)]
    ctx.check(len(pde) == 1 and ("::try_into(" in D.show(pde[0].ret) or "TryFrom::try_from(" in D.show(pde[0].ret)) and "::deserialize(de).Ok.0)" in D.show(pde[0].ret), "C01.numbers", "C01.numbers:deserialize",
              w.where(fde), bad_msg=f"Deserialize does not go through TryFrom<Value>: {[D.show(p.ret)[:100] for p in pde]}")

    # ---- deny list over the module + ruma-signatures -------------------------------------------------
    ctx.rule("C01.deny", "no function of ruma_common::canonical_json or ruma_signatures calls a float/unsigned/saturating/wrapping number "
                         "conversion or a pretty serializer, and none contains a float->int cast")
    scanned = 0
    for fn in w.all_fns():
        p = fn["path"]
        if not ("ruma_common::canonical_json" in p or p.startswith("ruma_signatures::") or "ruma_signatures::" in p.split(" as ")[0]):
            continue
        for body in M.all_bodies(fn):
            scanned += 1
            for bi, c in M.calls(body):
                name = M.callee_name(c)
                last = name.rsplit("::", 1)[-1]
                if last in DENY_CALLEES or any(d in name for d in ("PrettyFormatter", "to_string_pretty", "to_vec_pretty")):
                    ctx.violation("C01.deny", f"C01.deny:{p}:{last}", w.where(fn, c["line"]), f"{p} calls {name}")
            for b in body["blocks"]:
                for st in b["s"]:
                    if st[0] == "=" and st[2][0] == "cast" and st[2][1] in ("FloatToInt", "IntToFloat") and "canonical_json" in p:
                        ctx.violation("C01.deny", f"C01.deny:{p}:cast:{st[2][1]}", w.where(fn, st[3]), f"{p} contains a {st[2][1]} cast")
    ctx.floor("bodies scanned for denied conversions", scanned, 150)
    ctx.ok("C01.deny", "C01.deny:scan", "", f"{scanned} bodies scanned")

    # ---- serializer ------------------------------------------------------------------------------------
    ctx.rule("C01.serialize", "Serialize for CanonicalJsonValue: Object -> serialize_map(len), then serialize_entry(k, v) for the entries of "
                              "the BTreeMap's own iterator in order, then end; no collect/sort/dedup; scalars use serialize_unit/bool/str and Int's own impl; "
                              "Display = serde_json::to_string(self) written with `{}`; no formatter flag is read")
    f = w.fn(f"<{V} as serde_core::ser::Serialize>::serialize")
    paths = dex.paths(f, [D.sym("self"), D.sym("ser")])
    by_var = {}
    for p in paths:
        v = [a[2] for a, t in p.conds if a[0] == "variant" and t and D.show(a[1]) == "self"]
        if v:
            by_var.setdefault(v[0], []).append(p)
    want = {"Null": "Serializer::serialize_unit(ser)", "Bool": "Serializer::serialize_bool(ser, self.Bool.0)", "String": "Serializer::serialize_str(ser, self.String.0)",
            "Integer": "::serialize(self.Integer.0, ser)", "Array": "::serialize(self.Array.0, ser)"}
    for var, expr in want.items():
        ps = by_var.get(var, [])
        ctx.check(len(ps) == 1 and D.show(ps[0].ret).endswith(expr), "C01.serialize", f"C01.serialize:{var}", w.where(f),
                  bad_msg=f"{var} serializes as {[D.show(p.ret)[:100] for p in ps]}")
    ops = by_var.get("Object", [])
    done = [p for p in ops if p.kind == "ret" and D.show(p.ret).startswith("SerializeMap::end(")]
    ctx.floor("object serialization paths", len(done), 2)
    for p in done:
        eff = [(e[0].rsplit("::", 1)[-1], U.shows(e[1])) for e in p.effects]
        names = [n for n, _ in eff]
        body_names = [n for n in names if n not in ("branch", "from_residual")]
        n_entries = names.count("serialize_entry")
        # `for (k, v) in map` and `map.iter().try_for_each(..)` walk the same BTreeMap iterator
        good = body_names[:2] == ["len", "serialize_map"] and body_names[2] in ("into_iter", "iter") and body_names[-1] == "end" and \
            set(body_names[3:-1]) <= {"next", "serialize_entry"} and names.count("next") == n_entries + 1
        it = [a for n, a in eff if n in ("into_iter", "iter")]
        good = good and it and it[0] == ["self.Object.0"]
        for n, a in eff:
            if n == "serialize_entry":
                good = good and a[1].endswith(".Some.0.0") and a[2].endswith(".Some.0.1") and a[1][:-2] == a[2][:-2] and \
                    ("into_iter(self.Object.0)" in a[1] or "into_iter(BTreeMap::iter(self.Object.0))" in a[1])
        ctx.check(bool(good), "C01.serialize", f"C01.serialize:Object:entries={n_entries}", w.where(f), bad_msg=f"effects {names}")
    fd = w.fn(f"<{V} as core::fmt::Display>::fmt")
    calls = [M.callee_name(c) for _, c in M.calls(fd["body"])]
    fmt_reads = [c for c in calls if "Formatter" in c and c.rsplit("::", 1)[-1] not in ("write_fmt", "write_str")]
    ctx.check("serde_json::ser::to_string" in calls and not fmt_reads, "C01.serialize", "C01.serialize:Display", w.where(fd),
              bad_msg=f"Display calls {calls}")

    # the canonical string that is signed / hashed (ruma-signatures) is serde_json::to_string of a CanonicalJsonObject as a whole: no second,
    # hand-written writer whose quoting or separators could differ from the serializer checked above
    SF = "ruma_signatures::functions::"
    WRITERS = ("alloc::fmt::format", "String::push_str", "String::push", "Arguments::<'a>::new", "fmt::Write>::write_str", "fmt::Write>::write_char", "::join", "::concat")
    for name in ("canonical_json", "canonical_json_with_fields_to_remove"):
        fs_ = w.lookup(SF + name)
        if fs_ is None or "body" not in fs_:
            ctx.missing("C01.serialize", f"C01.serialize:signatures:{name}", f"{SF}{name} not found")
            continue
        fam_ = [fs_] + [g for g in w.crates["ruma_signatures"].all_fns() if "body" in g and g["path"].startswith(fs_["path"] + "::{closure")]
        calls_ = [M.callee_name(c) for g in fam_ for b_ in M.all_bodies(g) for _, c in M.calls(b_)]
        writers = sorted({c.rsplit("::", 2)[-2] + "::" + c.rsplit("::", 1)[-1] for c in calls_ if any(c.endswith(x) or x in c for x in WRITERS)})
        delegates = any(c == "serde_json::ser::to_string" or c == SF + "canonical_json_with_fields_to_remove" for c in calls_)
        ctx.check(delegates and not writers, "C01.serialize", f"C01.serialize:signatures:{name}", w.where(fs_),
                  bad_msg=f"{name} builds (part of) the canonical string itself ({writers or 'no serde_json::to_string call'}): keys or separators written by hand "
                          f"need not agree with serde_json's escaping (e.g. `{{key:?}}` writes \\u{{1}} for a control character where JSON requires \\u0001)")

    # ---- build configuration -----------------------------------------------------------------------
    ctx.rule("C01.features", "serde_json is resolved without `arbitrary_precision` (Number::as_i64 would otherwise parse text) and "
                             "`float_roundtrip`/`preserve_order` do not matter because keys are re-sorted by the BTreeMap (informational except arbitrary_precision)")
    feats = serde_json_features()
    if feats is None:
        ctx.unrecognised("C01.features", "C01.features:metadata", "", "cargo metadata did not resolve serde_json")
    else:
        ctx.check("arbitrary_precision" not in feats, "C01.features", "C01.features:arbitrary_precision", "Cargo.lock",
                  bad_msg=f"serde_json features: {sorted(feats)}")
    if ctx.tier == "thorough":
        from .. import witness
        witness.check(ctx, "C01.witness", {"C01NoFloat": "CanonicalJsonValue has a Float variant: a non-integer number can enter canonical JSON"})
    ctx.assumptions += ["serde_json's compact serializer: minimal escapes, no whitespace, shortest integer form (dependency, trusted)",
                        "String's Ord is byte order, which for UTF-8 equals code-point order"]
    ctx.samples += [{"input": "1.5 / 1e3 / -0 / 2^53", "expected": "IntConvert via as_i64=None or Int::try_from=Err"}]


def serde_json_features():
    env = dict(os.environ, CARGO_NET_OFFLINE="true")
    env.pop("RUSTFLAGS", None)
    try:
        out = subprocess.run(["cargo", "+nightly", "metadata", "--format-version", "1", "--offline"], cwd=F.REPO, env=env,
                             stdout=subprocess.PIPE, stderr=subprocess.PIPE, text=True, timeout=120)
        md = json.loads(out.stdout)
    except Exception:
        return None
    feats = None
    for n in md.get("resolve", {}).get("nodes", []):
        if n["id"].split("#")[-1].startswith("serde_json@") or "/serde_json-" in n["id"] or " serde_json " in n["id"] or n["id"].startswith("serde_json "):
            feats = set(n.get("features", []))
    return feats
