"""C06 — determinism of state resolution: unordered-iteration inventory (A5), discharging total orders, purity, identity on unconflicted input."""
import json, os, re
from .. import dex as D, world as W, mir as M
from . import tables as T, util as U, panic_common as PC

LEVEL = "other"
EXPLANATION = (
    "A5 (order taint, type-directed): every call in ruma-state-res whose receiver's revealed type is a hash-map/hash-set iterator (or an "
    "adaptor chain / flatten over hash containers) is inventoried from MIR. Order-preserving adaptors propagate; consumers that are "
    "insensitive to order (collect/extend into Hash*/BTree* containers, count/any/all/sum/max/min) are discharged automatically; every "
    "other consumer (for-loops, collect into Vec, next/find/...) must be a reviewed site of spec/order_allow.json whose reason names how "
    "the order is discharged (commutative inserts, later total sort). The two discharging orders are decided: TieBreaker::cmp compares "
    "power level, origin_server_ts and finally event_id; mainline_sort's key is (depth, timestamp, id) with the element's own id last. "
    "Purity: no function of the crate calls a clock, thread id, environment or RNG, and there are no writable statics (C17.statics). "
    "Identity: with no conflicting entries resolve returns the unconflicted map itself. That the commutative-listed effects commute for "
    "the data at hand is argued per reviewed site, not proved.")
UNORD = re.compile(r"(std::collections::hash|hashbrown)::(map|set)::(Iter|IterMut|Keys|Values|ValuesMut|IntoIter|IntoKeys|IntoValues|Drain|Difference|Union|Intersection|SymmetricDifference)\b")
HCOLL = re.compile(r"(HashMap|HashSet)<")
ADAPTORS = {"flatten", "chain", "filter", "cloned", "copied", "map", "filter_map", "into_iter", "inspect", "by_ref", "peekable", "flat_map", "fuse"}
INSENSITIVE = {"count", "any", "all", "sum", "max", "min", "for_each_insensitive"}
ORDERED_TARGET = re.compile(r"^(std::collections::hash::(set::HashSet|map::HashMap)|alloc::collections::btree::(set::BTreeSet|map::BTreeMap))<")
DENY = re.compile(r"(std::time::(SystemTime|Instant)::now|std::thread::current|std::env::|rand::|getrandom::|RandomState::new|web_time::.*::now)")
SR = "ruma_state_res::"


def unordered(ty):
    return bool(UNORD.search(ty)) or (("Flatten<" in ty or "FlatMap<" in ty) and bool(HCOLL.search(ty)))


def run(ctx):
    fx = ctx.facts("A")
    w = W.World(fx, ["ruma_state_res", "ruma_common", "ruma_events"])
    with open(os.path.join(T.SPEC, "order_allow.json")) as fh:
        table = {e["key"]: e for e in json.load(fh)["entries"]}

    ctx.rule("C06.sites", "every consumer of an unordered (hash) iteration in ruma-state-res is order-insensitive by construction or a reviewed site (exact key + how the order is discharged)")
    seen, n_sites = set(), 0
    for fn, c, key, status, why in order_sites(w, "ruma_state_res", table):
        n_sites += 1
        seen.add(key)
        where = w.where(fn, c["line"])
        if status == "violation":
            ctx.violation("C06.sites", f"C06.sites:{key}", where, why)
        else:
            ctx.ok("C06.sites", f"C06.sites:{key}", where, why, nontrivial=(status != "adaptor"))
    ctx.floor("unordered iteration sites", n_sites, 20)
    for k in table:
        if k not in seen:
            print(f"note: reviewed order site `{k}` no longer exists (stale table entry)")

    # ---- discharging orders -------------------------------------------------------------------------------------
    ctx.rule("C06.orders", "TieBreaker::cmp = power level (descending), then origin_server_ts, then event_id - total on distinct events; PartialOrd defers to it; "
                           "mainline_sort sorts by the (depth, timestamp, id) tuple whose last component is the element's own id")
    dex = D.Dex(w.lookup, adt_discr=w.adt_discr, ctors=w.ctors, inline=lambda n: "{closure" in n)
    cmpf = [p for p in w.fn_index if p.startswith("<" + SR + "lexicographical_topological_sort::TieBreaker<") and p.endswith(" as core::cmp::Ord>::cmp")]
    ctx.check(len(cmpf) == 1, "C06.orders", "C06.orders:TieBreaker::cmp:found", "", bad_msg=f"{cmpf}")
    if cmpf:
        f = w.fn(cmpf[0])
        ps = dex.paths(f, [D.sym("self"), D.sym("other")])
        r = D.show(ps[0].ret) if len(ps) == 1 else ""
        want = "Ordering::then(Ordering::then(Ord::cmp(other.power_level, self.power_level), Ord::cmp(self.origin_server_ts, other.origin_server_ts)), " \
               "Ord::cmp(self.event_id, other.event_id))"
        norm = re.sub(r"\b\w+::cmp\(", "Ord::cmp(", r)
        ctx.check(norm == want, "C06.orders", "C06.orders:TieBreaker::cmp", w.where(f), bad_msg=f"comparator is {r[:240]}")
    pcf = [p for p in w.fn_index if p.startswith("<" + SR + "lexicographical_topological_sort::TieBreaker<") and p.endswith(" as core::cmp::PartialOrd>::partial_cmp")]
    if pcf:
        f = w.fn(pcf[0])
        ps = dex.paths(f, [D.sym("self"), D.sym("other")])
        ctx.check(len(ps) == 1 and re.fullmatch(r"Option::Some\(\w+::cmp\(self, other\)\)", D.show(ps[0].ret) or "") is not None, "C06.orders", "C06.orders:TieBreaker::partial_cmp",
                  w.where(f), bad_msg=f"{[D.show(p.ret)[:100] for p in ps]}")
    else:
        ctx.missing("C06.orders", "C06.orders:TieBreaker::partial_cmp", "PartialOrd impl of TieBreaker not found")
    f = w.fn(SR + "mainline_sort")
    body = f["body"]
    defs = PC.roots(body)
    ins = [c for _, c in M.calls(body) if re.search(r"HashMap::<[^>]*>::insert$", M.callee_name(c))]
    good = len(ins) == 1
    if good:
        keyx = PC.expr(body, defs, ins[0]["args"][1])
        valx = PC.expr(body, defs, ins[0]["args"][2])
        good = valx[0] == "agg" and len(valx[2]) == 3 and json.dumps(valx[2][2]) == json.dumps(keyx) and "Iterator>::next" in json.dumps(keyx) and "get_mainline_depth" in json.dumps(valx[2][0]) and "Option::<T>::map" in json.dumps(valx[2][1]) and \
            any(any(M.callee_name(c2).endswith("Event::origin_server_ts") for _, c2 in M.calls(cf["body"])) for cf in w.all_fns()
                if cf["path"].startswith(SR + "mainline_sort::{closure") and "body" in cf)
    ctx.check(good, "C06.orders", "C06.orders:mainline-key", w.where(f), bad_msg="order_map values are not (depth, timestamp, the element's own id)")
    sk = [c for _, c in M.calls(body) if M.callee_name(c).rsplit("::", 1)[-1] in ("sort_by_key", "sort_by", "sort_unstable_by_key", "sort_unstable_by", "sort_by_cached_key")]
    vty = [t for t in body["locals"] if t.startswith("(usize, core::option::Option<ruma_common::time::MilliSecondsSinceUnixEpoch>, &")]
    ctx.check(len(sk) == 1 and bool(vty), "C06.orders", "C06.orders:mainline-sort", w.where(f), bad_msg="mainline_sort does not sort_by_key on the (usize, Option<ts>, &Id) tuple")
    # the key of every sorted element is that tuple itself: an optional key (`order_map.get(id)` without the unwrap) makes all elements without an
    # entry compare equal, and a stable sort then leaves them in the hash order they arrived in
    by_key = [c for c in sk if "key" in M.callee_name(c).rsplit("::", 1)[-1]]
    kty = [a for c in by_key for a in (c.get("fnargs") or [])[1:2]]
    total = len(kty) == 1 and re.match(r"^&?\(usize, core::option::Option<ruma_common::time::MilliSecondsSinceUnixEpoch>, &", kty[0]) is not None
    if len(sk) == 1 and not by_key:
        # `sort_by(|a, b| key(a).cmp(key(b)))`: the comparator compares the unwrapped order_map tuples of its two arguments, in that order
        fa = (sk[0].get("fnargs") or [""])[-1]
        m_ = re.search(r"\{closure@[^:]+:(\d+):\d+", fa)
        clo = [g for g in w.all_fns() if m_ and g["path"].startswith(SR + "mainline_sort::{closure") and "body" in g and g["span"][1] == int(m_.group(1))
               and g["body"]["argc"] == 3]
        if len(clo) == 1:
            dxc = D.Dex(w.lookup, adt_discr=w.adt_discr, inline=lambda n: "{closure" in n, ctors=w.ctors)
            rets = [D.show(p_.ret) for p_ in dxc.paths(clo[0], [D.sym("env"), D.sym("a"), D.sym("b")]) if p_.kind == "ret"]
            mm = re.fullmatch(r"(?:\w+::)*cmp\(HashMap::get\((env\.[\w.]+), a\)\.Some\.0, HashMap::get\((env\.[\w.]+), b\)\.Some\.0\)", rets[0]) if len(rets) == 1 else None
            total = mm is not None and mm.group(1) == mm.group(2)
            kty = [rets[0][:120] if rets else "?"]
    ctx.check(total, "C06.orders", "C06.orders:mainline-sort:total-key", w.where(f),
              bad_msg=f"the sort key of mainline_sort is `{kty[0] if kty else '?'}`, not the (depth, timestamp, id) tuple of the element: elements whose key is absent "
                      f"tie with each other and keep the iteration order of the HashSet they came from")
    # ... and every successful return goes through that sort (the input comes from a HashSet): the only shortcut is the empty input
    try:
        dxs = D.Dex(w.lookup, adt_discr=w.adt_discr, unroll=1, inline=lambda n: False, effects=lambda n: "sort" in n.rsplit("::", 1)[-1], max_paths=200000)
        sp = [p for p in dxs.paths(f, [D.sym("to_sort"), D.sym("resolved_pl"), D.sym("fetch")]) if p.kind == "ret" and U.is_ok(p.ret)]
        unsorted = [p for p in sp if not p.effects and not any(t and re.fullmatch(r"(?:\w+::)*is_empty\(to_sort\)", D.show_atom(a)) for a, t in p.conds)]
        ctx.check(bool(sp) and not unsorted, "C06.orders", "C06.orders:mainline-sort:every-return", w.where(f),
                  bad_msg=f"mainline_sort has a successful return that skips the sort although the input is not empty (under {[(D.show_atom(a)[:60], t) for a, t in unsorted[0].conds][:3] if unsorted else ''}): "
                          f"the events keep the hash order they arrived in")
    except D.Unrecognised as e:
        ctx.unrecognised("C06.orders", "C06.orders:mainline-sort:every-return", w.where(f), str(e))
    # the heap of the Kahn sort holds Reverse<TieBreaker>
    fl = w.fn(SR + "lexicographical_topological_sort")
    heap = [t for t in fl["body"]["locals"] if t.startswith("alloc::collections::binary_heap::BinaryHeap<core::cmp::Reverse<")]
    ctx.check(bool(heap) and all("TieBreaker" in t for t in heap), "C06.orders", "C06.orders:heap", w.where(fl), bad_msg="ready nodes are not kept in a BinaryHeap<Reverse<TieBreaker>>")

    # ---- purity ---------------------------------------------------------------------------------------------------
    ctx.rule("C06.pure", "no function of ruma-state-res (outside tests) calls a clock, thread identity, environment, RNG or explicit hasher state")
    n = 0
    for fn in w.crates["ruma_state_res"].all_fns():
        if "body" not in fn or "::tests" in fn["path"] or "test_utils" in fn["path"]:
            continue
        n += 1
        for body in M.all_bodies(fn):
            for _, c in M.calls(body):
                name = M.callee_name(c)
                if DENY.search(name) or DENY.search(c.get("fn", "")):
                    ctx.violation("C06.pure", f"C06.pure:{fn['path']}:{name.rsplit('::', 2)[-2]}::{name.rsplit('::', 1)[-1]}", w.where(fn, c["line"]),
                                  f"{fn['path']} calls {name}: the result of resolution would depend on it")
    ctx.ok("C06.pure", "C06.pure:scan", "", f"{n} functions scanned")
    ctx.floor("state-res functions scanned", n, 150)

    # ---- identity ---------------------------------------------------------------------------------------------------
    ctx.rule("C06.identity", "resolve: when separate() finds no conflicting entry the unconflicted map is returned as is")
    f = w.fn(SR + "resolve")
    dexr = D.Dex(w.lookup, adt_discr=w.adt_discr, ctors=w.ctors, unroll=0, inline=lambda n_: False, max_paths=100000)
    try:
        ps = dexr.paths(f, [D.sym("rules"), D.sym("state_sets"), D.sym("auth_chain_sets"), D.sym("fetch_event")])
        empt = [p for p in ps if any(a[0] == "bool" and t and "is_empty(" in D.show(a[1]) and "separate(" in D.show(a[1]) and D.show(a[1]).endswith(".1)") for a, t in p.conds)]
        good = bool(empt) and all(p.kind == "ret" and re.fullmatch(r"Result::Ok\((ruma_state_res::)?separate\(.*\)\.0\)", D.show(p.ret) or "") is not None for p in empt)
        ctx.check(good, "C06.identity", "C06.identity:no-conflict", w.where(f), bad_msg=f"{[D.show(p.ret)[:100] for p in empt][:2]}")
        # no success path that bypasses the symmetric split: a shortcut taken from a property of ONE state set (e.g. "the others agree with the
        # first") makes the result depend on which set comes first
        oks = [p for p in ps if p.kind == "ret" and D.show(p.ret).startswith("Result::Ok(")]
        short = [p for p in oks if not any("separate(" in D.show_atom(a) for a, t in p.conds) and "separate(" not in D.show(p.ret)]
        ctx.check(bool(oks) and not short, "C06.identity", "C06.identity:no-shortcut", w.where(f),
                  bad_msg=f"resolve can return {[D.show(p.ret)[:80] for p in short][:2]} without having split ALL state sets into unconflicted/conflicted "
                          f"(conditions: {[D.show_atom(a)[:90] for a, t in short[0].conds][:3] if short else ''}): the result depends on the order of the state sets")
    except D.Unrecognised as e:
        ctx.unrecognised("C06.identity", "C06.identity:no-conflict", w.where(f), str(e))
    from . import C07 as _C07
    _C07.auth_diff_operand(ctx, w, "C06.orders", "C06.orders:auth-diff-operand")
    # the creator cache is shared by all keys of the graph, which are visited in hash order: the sort key of an event must not depend on
    # whether the cache happened to be filled before it was computed
    _C07.power_level_scan(ctx, w, "C06.creator-cache")
    power_of_each_event(ctx, w)
    from . import controls
    controls.order(ctx, "C06.sites")
    ctx.assumptions += ["HashMap/HashSet/BinaryHeap semantics; Ord of Int, MilliSecondsSinceUnixEpoch and event ids is total",
                        "reviewed reasons in spec/order_allow.json (one per order-sensitive consumer)",
                        "resolve's precondition that all events belong to one room (one m.room.create) - see the creator cache entry",
                        "every event whose sender level is looked up lists the room's m.room.create among its auth_events (an event that does not is rejected on "
                        "receipt and never part of a state set): for such an event get_power_level_for_sender answers users_default or the user's level depending "
                        "on whether the shared creator cache was filled before - read, not decided (pointed out by a seeding sub-agent)"]
    ctx.samples += [{"site": "resolve: all_conflicted.iter().filter(..).cloned().collect::<Vec<_>>() (control_events)", "discharge": "only fed into the graph (HashMap) of the Kahn sort"}]


VIEW = re.compile(r"^(?:\\w+::)*(?:borrow|clone|deref|as_ref|to_owned)\\((.*)\\)$")


def _strip_views(x):
    while True:
        m = VIEW.match(x)
        if not m:
            return x
        x = m.group(1)


def power_of_each_event(ctx, w):
    """The loop over graph.keys() runs in hash order: the level recorded for a graph event must be a function of that event alone."""
    ctx.rule("C06.power-of-each-event", "reverse_topological_power_sort: on every path, the value stored for a key of the graph (visited in hash order) is "
                                        "get_power_level_for_sender(that same key, ..).Ok.0 computed in the same iteration - never a value remembered from another "
                                        "event (a per-sender / per-anything cache filled in visiting order makes the sort key depend on the hash seed)")
    f = w.fn(SR + "reverse_topological_power_sort")
    dex = D.Dex(w.lookup, adt_discr=w.adt_discr, unroll=2, inline=lambda n: False,
                effects=lambda n: n.endswith("::insert") or n.endswith("::entry") or n.endswith("::extend") or "get_power_level_for_sender" in n)
    paths = dex.paths(f, [D.sym("events"), D.sym("auth_diff"), D.sym("rules"), D.sym("fetch")])
    n_ins, bad, others = 0, [], set()
    for p in paths:
        for e in p.effects:
            name = e[0].rsplit("::", 1)[-1]
            a = U.shows(e[1])
            if "get_power_level_for_sender" in e[0]:
                continue
            if name == "insert" and len(a) == 3 and re.match(r"^Iterator::next\(IntoIterator::into_iter\(HashMap::keys\(", _strip_views(a[1])):
                n_ins += 1
                key = _strip_views(a[1])
                m = re.fullmatch(r"ruma_state_res::get_power_level_for_sender\((.*)\)\.Ok\.0", _strip_views(a[2]))
                arg0 = None
                if m:
                    # first argument = text up to the top-level comma
                    depth, arg0 = 0, m.group(1)
                    for i, ch in enumerate(m.group(1)):
                        depth += ch in "([" ; depth -= ch in ")]"
                        if ch == "," and depth == 0:
                            arg0 = m.group(1)[:i]
                            break
                if not m or _strip_views(arg0) != key:
                    bad.append((key[-40:], a[2][:160]))
            elif name in ("insert", "entry", "extend") and ("HashMap" in e[0] or "BTreeMap" in e[0]) and len(a) >= 2 and "get_power_level_for_sender" in " ".join(a[1:]):
                others.add((e[0].rsplit("::", 2)[-2] + "::" + name, a[1][:80]))
    if n_ins == 0:
        # `graph.keys().map(|id| Ok((id.clone(), level_of(id)?))).collect::<Result<HashMap<_, _>>>()`: the same obligation on the mapping closure -
        # a pure function of the key it is called with (its captures are the loop-invariant inputs)
        done = False
        for g in w.all_fns():
            if not g["path"].startswith(SR + "reverse_topological_power_sort::{closure") or "body" not in g:
                continue
            if not any("get_power_level_for_sender" in M.callee_name(c) for _, c in M.calls(g["body"])):
                continue
            used = any(re.search(r"Iterator::collect\(Iterator::map\(HashMap::keys\(.*closure\[" + re.escape(g["path"]) + r"\]", D.show_atom(a))
                       for p in paths for a, _ in p.conds)
            cps = D.Dex(w.lookup, adt_discr=w.adt_discr, inline=lambda n: False).paths(g, [D.sym("env"), D.sym("x")])
            oks = [p for p in cps if p.kind == "ret" and U.is_ok(p.ret)]
            good = used and bool(oks) and all(p.kind == "ret" for p in cps)
            for p in oks:
                m = re.fullmatch(r"Result::Ok\(\((.*?), ruma_state_res::get_power_level_for_sender\((.*)\)\.Ok\.0\)\)", D.show(p.ret))
                good = good and m is not None and _strip_views(m.group(1)) == "x" and _strip_views(m.group(2).split(",")[0]) == "x"
            if good:
                n_ins += 10
                done = True
            else:
                bad.append((g["path"][-30:], [D.show(p.ret)[:160] for p in oks][:2]))
        if not done and not bad:
            bad.append(("?", "no per-key insert and no mapping closure over graph.keys() was recognised"))
    ctx.floor("power level inserts seen on paths of reverse_topological_power_sort", n_ins, 10)
    if bad:
        ctx.violation("C06.power-of-each-event", "C06.power-of-each-event:value", w.where(f),
                      f"the level stored for a graph event is not get_power_level_for_sender(<that event>): {sorted(set(bad))[:3]}")
    elif others:
        ctx.violation("C06.power-of-each-event", "C06.power-of-each-event:value", w.where(f),
                      f"a sender power level is remembered under another key than the graph event it was computed for: {sorted(others)[:3]}")
    else:
        ctx.ok("C06.power-of-each-event", "C06.power-of-each-event:value", w.where(f), f"{n_ins} inserts on {len(paths)} paths")


def order_sites(w, crate, table):
    """Yield (fn, call, key, status in {adaptor, insensitive, reviewed, violation}, message) for every consumer of an unordered iteration."""
    for fn in sorted(w.crates[crate].all_fns(), key=lambda f: f["path"]):
        if "body" not in fn or "::tests" in fn["path"] or "test_utils" in fn["path"]:
            continue
        counter = {}
        for body in M.all_bodies(fn):
            for bi, c in M.calls(body):
                name = M.callee_name(c)
                meth = name.rsplit("::", 1)[-1]
                for ai, a in enumerate(c["args"]):
                    if a.get("k") not in ("copy", "move"):
                        continue
                    ty = body["locals"][M.pl_local(a["pl"])]
                    if not unordered(ty):
                        continue
                    kind = "set" if "hash::set" in ty else "map"
                    target = (c.get("fnargs") or [""])[-1]
                    order_free = meth in ("collect", "extend", "from_iter") and ORDERED_TARGET.match(target if meth == "collect" else body["locals"][M.pl_local(c["args"][0]["pl"])].lstrip("&mut ").lstrip("&"))
                    # order-sensitive consumers share one label: `.collect::<Vec<_>>()` and `for x in .. { v.push(x) }` are the same site
                    label = meth if (meth in ADAPTORS or meth in INSENSITIVE or order_free) else "seq"
                    base = f"{fn['path']}|{label}|{kind}"
                    k = counter.get(base, 0)
                    counter[base] = k + 1
                    key = base if k == 0 else f"{base}#{k + 1}"
                    if meth in ADAPTORS:
                        yield fn, c, key, "adaptor", "order-preserving adaptor (taint propagates to its consumer)"
                    elif meth in ("collect", "extend", "from_iter") and ORDERED_TARGET.match(target if meth == "collect" else body["locals"][M.pl_local(c["args"][0]["pl"])].lstrip("&mut ").lstrip("&")):
                        yield fn, c, key, "insensitive", f"collected into an order-free container ({target.split('<')[0].rsplit('::', 1)[-1]})"
                    elif meth in INSENSITIVE:
                        yield fn, c, key, "insensitive", "order-insensitive consumer"
                    elif key in table:
                        yield fn, c, key, "reviewed", "reviewed: " + table[key]["reason"]
                    else:
                        yield fn, c, key, "violation", (f"`{meth}` consumes a hash-ordered iteration ({ty[:80]}...) in an order-sensitive way and the site is not reviewed "
                                                        f"(its result may depend on hash seeds)")
