"""C05 — content hash, reference hash, event-id format: tables, size-limit atom, pipeline order by data provenance."""
import re
from .. import dex as D, world as W, mir as M
from . import tables as T, util as U

LEVEL = "other"
EXPLANATION = (
    "Const-evaluated tables (fields removed before hashing, 65 535-byte limit, event-id format per room version, base64 "
    "alphabets and padding) are compared with the specification; DEX over the MIR of content_hash / reference_hash / "
    "canonical_json_with_fields_to_remove decides the pipeline by operand provenance: what is hashed is the compact "
    "serialization of (the redacted copy of) the object minus exactly the listed fields, refused iff its length exceeds "
    "65 535, digested once, and encoded with the alphabet the room version prescribes, unpadded. SHA-256 / base64 / "
    "serde_json themselves are trusted dependencies.")
FN = "ruma_signatures::functions"
STD = "ABCDEFGHIJKLMNOPQRSTUVWXYZabcdefghijklmnopqrstuvwxyz0123456789+/"
URL = "ABCDEFGHIJKLMNOPQRSTUVWXYZabcdefghijklmnopqrstuvwxyz0123456789-_"


def alphabet_of(v):
    """Alphabet(symbols=(..)) abstract value -> string"""
    if v is None or v[0] != "adt" or not v[1].endswith("Alphabet"):
        return None
    syms = v[3][0][1]
    if syms is None or syms[0] != "tup":
        return None
    return "".join(chr(x[1]) for x in syms[1])


def field(v, name):
    if v is None or v[0] != "adt":
        return None
    for n, x in v[3]:
        if n == name:
            return x
    return None


def check_limit(ctx, w, f, paths, rule, key, json_marker):
    """refuse iff len > 65535, and the length compared is that of the string that gets hashed."""
    ok_paths = [p for p in paths if p.kind == "ret" and U.is_ok(p.ret)]
    size_err = [p for p in paths if p.kind == "ret" and U.is_err(p.ret) and D.show(p.ret).endswith("Error::PduSize)")]
    ctx.check(bool(size_err), rule, key + ":refusal-exists", w.where(f), bad_msg="no path returns Error::PduSize")
    for n, expect_ok in ((65535, True), (65536, False), (0, True), (1 << 20, False)):
        val = U.int_valuation({"re:^(String::|str::)?len\\(": n})   # the length of the String itself or of a &str view of it
        got_ok = [p for p in D.evaluate(ok_paths, val)]
        got_err = [p for p in D.evaluate(size_err, val)]
        good = bool(got_ok) == expect_ok and bool(got_err) == (not expect_ok)
        ctx.check(good, rule, f"{key}:len={n}", w.where(f),
                  bad_msg=f"canonical form of {n} bytes is {'accepted' if got_ok else 'refused'}; the limit is 65 535 (accept iff len <= 65535)")
    # the compared length is the length of the hashed string
    for p in ok_paths:
        cmps = [a for a, _ in p.conds if a[0] == "cmp"]
        good = len(cmps) >= 1 and all(json_marker in D.show(a[2]) + D.show(a[3]) for a in cmps)
        ctx.check(good, rule, key + ":subject", w.where(f), bad_msg=f"size test is not on the serialized event: {[D.show_atom(a) for a in cmps]}")


def run(ctx):
    fx = ctx.facts("A")
    w = W.World(fx, ["ruma_common", "ruma_signatures"])
    versions = T.version_rules(ctx, w, ["event_id_format"])

    ctx.rule("C05.tables", "CONTENT_HASH_FIELDS_TO_REMOVE = {hashes, signatures, unsigned}; REFERENCE_HASH_FIELDS_TO_REMOVE = "
                           "{signatures, unsigned}; MAX_PDU_BYTES = 65535; Standard/UrlSafe alphabets are RFC 4648's")
    for name, want in (("CONTENT_HASH_FIELDS_TO_REMOVE", {"hashes", "signatures", "unsigned"}),
                       ("REFERENCE_HASH_FIELDS_TO_REMOVE", {"signatures", "unsigned"})):
        got = w.value(f"{FN}::{name}")
        ctx.check(isinstance(got, list) and set(got) == want, "C05.tables", f"C05.tables:{name}", w.where_value(f"{FN}::{name}"),
                  bad_msg=f"{name} is {got}, the specification removes {sorted(want)}")
    ctx.check(w.value(f"{FN}::MAX_PDU_BYTES") == 65535, "C05.tables", "C05.tables:MAX_PDU_BYTES", w.where_value(f"{FN}::MAX_PDU_BYTES"),
              bad_msg=f"MAX_PDU_BYTES is {w.value(f'{FN}::MAX_PDU_BYTES')}, must be 65535")
    for cfg, alpha in (("Standard", STD), ("UrlSafe", URL)):
        p = f"<ruma_common::serde::base64::{cfg} as ruma_common::serde::base64::Base64Config>::CONF"
        a = alphabet_of(field(D.from_json(w.value(p)), "0"))
        ctx.check(a == alpha, "C05.tables", f"C05.tables:{cfg}::CONF", w.where_value(p), bad_msg=f"{cfg} alphabet is {a!r}")

    # Base64::<C,B>::CONFIG: starts from NO_PAD and never re-enables encode padding
    ctx.rule("C05.nopad", "Base64::CONFIG is derived from general_purpose::NO_PAD (encode_padding = false) only through decode-side "
                          "modifiers; Base64::encode uses that engine; Base64::ENGINE is built from C::CONF's alphabet and CONFIG")
    dex = D.Dex(w.lookup, adt_discr=w.adt_discr, effects=lambda n: True, inline=U.sig_inline)
    f = w.fn("ruma_common::serde::base64::Base64::<C, B>::CONFIG")
    ps = dex.paths(f, [])
    good = len(ps) == 1
    if good:
        calls = [e[0].rsplit("::", 1)[-1] for e in ps[0].effects]
        start = [e for e in ps[0].effects if e[1] and e[1][0] is not None and e[1][0][0] == "adt"]
        base = start[0][1][0] if start else None
        good = set(calls) <= {"with_decode_allow_trailing_bits", "with_decode_padding_mode"} and base is not None and \
            field(base, "encode_padding") == D.FALSE
    ctx.check(good, "C05.nopad", "C05.nopad:CONFIG", w.where(f), bad_msg=f"Base64::CONFIG is not NO_PAD + decode modifiers: {ps!r}"[:300])
    f = w.fn("ruma_common::serde::base64::Base64::<C, B>::ENGINE")
    ps = dex.paths(f, [])
    good = len(ps) == 1 and len(ps[0].effects) == 1 and ps[0].effects[0][0].endswith("GeneralPurpose::new") and \
        "Base64Config::CONF.0" in D.show(ps[0].effects[0][1][0]) and field(ps[0].effects[0][1][1], "encode_padding") == D.FALSE
    ctx.check(good, "C05.nopad", "C05.nopad:ENGINE", w.where(f), bad_msg=f"Base64::ENGINE is not GeneralPurpose::new(&C::CONF.0, CONFIG): {ps!r}"[:300])
    f = w.fn("ruma_common::serde::base64::Base64::<C, B>::encode")
    ps = dex.paths(f, [D.sym("self")])
    good = len(ps) == 1 and D.show(ps[0].ret).startswith("Engine::encode(const:ruma_common::serde::base64::Base64::<C, B>::ENGINE, ") \
        and "self" in D.show(ps[0].ret)
    ctx.check(good, "C05.nopad", "C05.nopad:encode", w.where(f), bad_msg=f"Base64::encode is not ENGINE.encode(self.bytes): {ps!r}"[:300])

    # ---- canonical_json_with_fields_to_remove ---------------------------------------------------
    ctx.rule("C05.remove", "canonical_json_with_fields_to_remove serializes (compact serde_json::to_string) a clone of the object from which "
                           "every element of `fields`, and nothing else, was removed")
    dexc = D.Dex(w.lookup, adt_discr=w.adt_discr, effects=lambda n: True, inline=U.sig_inline, models={
        "<alloc::collections::btree::map::BTreeMap<K, V, A> as core::clone::Clone>::clone": m_clone})
    f = w.fn(f"{FN}::canonical_json_with_fields_to_remove")
    ps = dexc.paths(f, [D.sym("object"), D.sym("fields")])
    okp = [p for p in ps if p.kind == "ret" and U.is_ok(p.ret)]
    ctx.floor("serialize paths", len(okp), 1)
    for p in okp:
        iters = len([e for e in p.effects if e[0].endswith("Iterator>::next")])
        removes = [e for e in p.effects if e[0].endswith("BTreeMap::<K, V, A>::remove")]
        ser = [e for e in p.effects if "to_string" in e[0] or "to_vec" in e[0] or "to_writer" in e[0]]
        muts = [e for e in p.effects if e[0].rsplit("::", 1)[-1] in ("insert", "clear", "retain", "append", "extend", "entry", "pop_first", "pop_last")]
        good = len(ser) == 1 and ser[0][0] == "serde_json::ser::to_string" and D.show(ser[0][1][0]) == "clone(object)"
        if len(muts) == 1 and muts[0][0].endswith("::retain") and not removes:
            # iterator form: clone.retain(|key, _| !fields.contains(&key))
            a = U.shows(muts[0][1])
            m = re.match(r"^closure\[([^\]]+)\]\{_ref__fields=fields\}$", a[1]) if len(a) == 2 and a[0] == "clone(object)" else None
            clo = w.lookup(m.group(1)) if m else None
            cps = dexc.paths(clo, [D.sym("env"), D.sym("k"), D.sym("v")]) if clo is not None and "body" in clo else []
            good &= len(cps) == 1 and cps[0].kind == "ret" and D.show(cps[0].ret) == "!(slice::contains(env._ref__fields, k))"
            good &= D.show(p.ret) == "Result::Ok(ser::to_string(clone(object)).Ok.0)"
            ctx.check(good, "C05.remove", "C05.remove:retain-form", w.where(f),
                      bad_msg=f"unexpected effects {[(e[0].rsplit('::', 1)[-1], U.shows(e[1])) for e in p.effects]}"[:400])
            continue
        good &= not muts
        good &= len(removes) == iters - 1
        for e in removes:
            a = U.shows(e[1])
            good &= a[0] == "clone(object)" and a[1].startswith("Iterator::next(") and "into_iter(fields)" in a[1] and a[1].endswith(".Some.0")
        good &= D.show(p.ret) == "Result::Ok(ser::to_string(clone(object)).Ok.0)"
        ctx.check(good, "C05.remove", f"C05.remove:iterations={iters - 1}", w.where(f),
                  bad_msg=f"unexpected effects {[(e[0].rsplit('::', 1)[-1], U.shows(e[1])) for e in p.effects]}"[:400])
    loopp = [p for p in ps if p.kind == "loop"]
    ctx.check(all(not [e for e in p.effects if e[0] == "serde_json::ser::to_string"] for p in loopp), "C05.remove", "C05.remove:serialize-after-loop",
              w.where(f), bad_msg="serialization happens before all fields are removed")

    # ---- content_hash -----------------------------------------------------------------------------
    ctx.rule("C05.content_hash", "content_hash = Base64<Standard>(Sha256::digest(bytes of canonical_json_with_fields_to_remove(object, "
                                 "CONTENT_HASH_FIELDS_TO_REMOVE))), refused iff that string is longer than 65 535 bytes")
    f = w.fn(f"{FN}::content_hash")
    ps = dex.paths(f, [D.sym("object")])
    J = f"functions::canonical_json_with_fields_to_remove(object, static:{FN}::CONTENT_HASH_FIELDS_TO_REMOVE).Ok.0"
    check_limit(ctx, w, f, ps, "C05.content_hash", "C05.content_hash:limit", J)
    for p in [p for p in ps if p.kind == "ret" and U.is_ok(p.ret)]:
        dig = [e for e in p.effects if "Digest>::digest" in e[0] or e[0].endswith("::digest")]
        good = len(dig) == 1
        good = good and U.strip_views(D.show(dig[0][1][0])) == J
        mret = re.fullmatch(r"Result::Ok\(Base64::new\((.*)\)\)", D.show(p.ret))
        good = good and mret is not None and U.strip_views(mret.group(1)) in (D.show(dex_ret(dig[0])), f"Digest::digest({D.show(dig[0][1][0])})")
        ctx.check(good, "C05.content_hash", "C05.content_hash:pipeline", w.where(f), bad_msg=f"hash input / result is {D.show(p.ret)}"[:300])
    sig = f["sig"]
    ctx.check("Base64<ruma_common::serde::base64::Standard, [u8; 32]>" in sig, "C05.content_hash", "C05.content_hash:encoding", w.where(f),
              bad_msg=f"content_hash must return Base64<Standard,[u8;32]> (unpadded standard alphabet, 32-byte digest); signature is {sig}")
    sha256_only(ctx, w, f, "C05.content_hash")

    # ---- reference_hash ---------------------------------------------------------------------------
    ctx.rule("C05.reference_hash", "reference_hash = base64(alphabet by event-id format: V1,V2 standard / V3 URL-safe, NO_PAD)(Sha256(bytes of "
                                   "canonical_json_with_fields_to_remove(redact(copy of object, rules.redaction, None), "
                                   "REFERENCE_HASH_FIELDS_TO_REMOVE))), refused iff longer than 65 535 bytes")
    f = w.fn(f"{FN}::reference_hash")
    ps = dexc.paths(f, [D.sym("object"), D.sym("rules")])
    R = "canonical_json::redact(clone(object), rules.redaction, Option::None).Ok.0"
    J = f"functions::canonical_json_with_fields_to_remove({R}, static:{FN}::REFERENCE_HASH_FIELDS_TO_REMOVE).Ok.0"
    check_limit(ctx, w, f, ps, "C05.reference_hash", "C05.reference_hash:limit", J)
    seen = {}
    for p in [p for p in ps if p.kind == "ret" and U.is_ok(p.ret)]:
        fmt = [a[2] for a, t in p.conds if a[0] == "variant" and t and D.show(a[1]) == "rules.event_id_format"]
        notfmt = [a[2] for a, t in p.conds if a[0] == "variant" and not t and D.show(a[1]) == "rules.event_id_format"]
        dig = [e for e in p.effects if e[0].endswith("Digest>::digest")]
        eng = [e for e in p.effects if e[0].endswith("GeneralPurpose::new")]
        enc = [e for e in p.effects if e[0].endswith("Engine::encode")]
        good = len(dig) == 1 and U.strip_views(D.show(dig[0][1][0])) == J and len(eng) == 1 and len(enc) == 1
        if not good:
            ctx.violation("C05.reference_hash", "C05.reference_hash:pipeline", w.where(f), f"unexpected pipeline: {D.show(p.ret)}"[:300])
            continue
        alpha = alphabet_of(eng[0][1][0])
        cfg = eng[0][1][1]
        pad_ok = field(cfg, "encode_padding") == D.FALSE
        flow = D.show(enc[0][1][0]) == D.show(dex_ret(eng[0])) and D.show(enc[0][1][1]) == D.show(dex_ret(dig[0])) and \
            D.show(p.ret) == f"Result::Ok({D.show(dex_ret(enc[0]))})"
        ctx.check(pad_ok and flow, "C05.reference_hash", f"C05.reference_hash:pipeline:{fmt or notfmt}", w.where(f),
                  bad_msg=f"padding off={pad_ok}, data flow digest->encode->result={flow}")
        for v in (fmt or ["<other>"]):
            seen[v] = alpha
    sha256_only(ctx, w, f, "C05.reference_hash")
    efv = w.adts["ruma_common::room_version_rules::EventIdFormatVersion"]
    for var in [v["name"] for v in efv["variants"]]:
        alpha = seen.get(var, seen.get("<other>"))
        want = STD if var in ("V1", "V2") else URL
        ctx.check(alpha == want, "C05.reference_hash", f"C05.reference_hash:alphabet:{var}", w.where(f),
                  bad_msg=f"event-id format {var} is encoded with alphabet {alpha!r}; the specification says "
                          f"{'standard' if want == STD else 'URL-safe'} base64")
    ctx.floor("event id format variants", len(efv["variants"]), 3)
    # the hash an event carries after hash_and_sign_event is its content hash (computed, then stored unconditionally, before the copy that is signed)
    from . import C03 as _C03
    _C03.hash_and_sign_rule(ctx, w, "C05.stored-hash")
    # C05 relies on redaction being the specification's and idempotent (the signed / reference-hashed form is the redacted event, and
    # verification redacts again): the redaction rules of C04 are part of this check
    from . import C04 as _C04
    _C04.run(ctx)
    # what is signed / hashed is the canonical JSON form: the canonical-JSON rules of C01 are part of this check
    from . import C01 as _C01
    _C01.run(ctx)
    ctx.assumptions += ["sha2, base64 and serde_json implement SHA-256, RFC 4648 and compact JSON",
                        "collision resistance ('every change to a covered field changes the hash') is not decided"]
    ctx.samples += [{"fn": "content_hash", "len": 65535, "expected": "accepted"}, {"fn": "content_hash", "len": 65536, "expected": "Error::PduSize"},
                    {"fn": "reference_hash", "format": "V3", "expected_alphabet": "URL-safe, unpadded"}]


def m_clone(dex, fn, body, st, c, args, depth):
    st.effects.append(("clone", tuple(args), c.get("line")))
    yield st, D.sym(f"clone({D.show(args[0])})"), False


def dex_ret(effect):
    """The symbol an opaque call effect returned (same naming as Dex.opaque_call)."""
    name, args = effect[0], effect[1]
    return D.sym(f"{D.short_name(name)}({', '.join(D.show(a) for a in args)})")


def sha256_only(ctx, w, f, rule):
    # the function itself and the private helpers of its module it calls (one level: a helper shared by both hash functions)
    fam = [f]
    for _, c in M.calls(f["body"]):
        g = w.lookup(M.callee_name(c))
        if g is not None and "body" in g and U.sig_inline(M.callee_name(c)) and g not in fam:
            fam.append(g)
    dcall = [c for g in fam for _, c in M.calls(g["body"]) if c.get("fn", "").endswith("Digest::digest")]
    ctx.check(len(dcall) == 1 and "sha2::core_api::Sha256VarCore" in dcall[0]["fnargs"][0], rule, rule + ":sha256",
              w.where(f), bad_msg="the digest is not (a single) SHA-256")
