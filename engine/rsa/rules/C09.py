"""C09 — auth-event selection equals the spec's; authorization reads the state only through FetchStateExt at selected pairs."""
import itertools, json, re
from .. import dex as D, world as W, mir as M, authmodel as A
from . import tables as T, util as U, panic_common as PC

LEVEL = "other"
EXPLANATION = (
    "Selection: the (type, state key) pairs pushed by auth_types_for_event are extracted by DEX and compared with the specification's "
    "auth-event selection under every combination of event type class, membership, third-party invite, authorising user and the "
    "restricted-join flag. Non-interference is decided structurally: (read discipline) inside event_auth the state closure is invoked "
    "only by the five FetchStateExt methods, each with a constant StateEventType and key \"\" or its argument, and is otherwise only "
    "passed on to the membership checks; (reads within selection) for each membership branch the FetchStateExt calls on any path and "
    "their key provenance are within the pairs selected for that branch; iterative_auth_check fills the map behind the closure only "
    "from the event's auth_events and from the resolved state at auth_types_for_event keys. Hence the outcome is a function of the "
    "event and the selected entries.")
EA = "ruma_state_res::event_auth::"
RM = EA + "room_member::"
MEMBERSHIPS = ["Join", "Invite", "Leave", "Ban", "Knock", "_Custom"]


def spec_selection(sc, restricted):
    if sc["type"] == "RoomCreate":
        return set()
    s = {("RoomCreate", "''"), ("RoomPowerLevels", "''"), ("RoomMember", "sender")}
    if sc["type"] == "RoomMember":
        s.add(("RoomMember", "state_key"))
        if sc["membership"] in ("Join", "Invite", "Knock"):
            s.add(("RoomJoinRules", "''"))
        if sc["membership"] == "Invite" and sc["tpi"]:
            s.add(("RoomThirdPartyInvite", "token"))
        if sc["membership"] == "Join" and restricted and sc["jav"]:
            s.add(("RoomMember", "authorising_user"))
    return s


def key_class(txt):
    if txt == "''":
        return "''"
    if txt == "sender" or txt == "UserId::as_str(sender)":
        return "sender"
    if txt.startswith("state_key"):
        return "state_key"
    if "ThirdPartyInvite::token(" in txt:
        return "token"
    if "join_authorised_via_users_server" in txt:
        return "authorising_user"
    return "?" + txt[:40]


def pairs_of(v):
    out = set()
    if v is None:
        return out
    if v[0] == "tup" and len(v[1]) == 2 and v[1][0] is not None and v[1][0][0] == "adt" and v[1][0][1].endswith("StateEventType"):
        out.add((v[1][0][2], key_class(D.show(v[1][1]))))
        return out
    if v[0] == "tup":
        for x in v[1]:
            out |= pairs_of(x)
    if v[0] == "adt":
        for _, x in v[3]:
            out |= pairs_of(x)
    return out


def run(ctx):
    fx = ctx.facts("A")
    w = W.World(fx, ["ruma_state_res", "ruma_common", "ruma_events"])

    # ---- selection -------------------------------------------------------------------------------------
    ctx.rule("C09.selection", "pairs returned by auth_types_for_event == specification's auth events selection, for every scenario")
    def inline_sel(n):
        # closures, and private helpers of the module that receive the result vector by `&mut` (a push moved into a helper looks the same)
        if "{closure" in n:
            return True
        g = w.lookup(n)
        return bool(g) and n.startswith(EA) and "&'a mut alloc::vec::Vec<(ruma_events::enums::StateEventType" in (g.get("sig") or "").replace("&mut", "&'a mut")
    dex = D.Dex(w.lookup, adt_discr=w.adt_discr, unroll=1, inline=inline_sel, effects=lambda n: n.endswith("Vec::<T, A>::push"))
    f = w.fn(EA + "auth_types_for_event")
    paths = dex.paths(f, [D.sym(x) for x in ["ty", "sender", "state_key", "content", "rules"]])
    okp = [p for p in paths if p.kind == "ret" and U.is_ok(p.ret)]
    ctx.floor("selection success paths", len(okp), 10)
    atoms = sorted({a for a in D.all_atoms(okp)}, key=repr)
    n = 0
    # every distinct projection of AuthorizationRules::V1..V11 (const-evaluated) onto the flags the function reads; the specification
    # side depends on the room version only through "restricted joins exist" (room versions >= 8, flag restricted_join_rule)
    from . import C08
    versions = T.version_rules(ctx, w, ["authorization"])
    flagsets = C08.flag_sets(versions, sorted(set(C08.flags_in(okp)) | {"restricted_join_rule"}))
    ctx.floor("flag sets", len(flagsets), 2)
    for ty, mem, tpi, jav, (ver, fl), dup in itertools.product(("RoomCreate", "RoomMember", "RoomMessage"), MEMBERSHIPS, (False, True), (False, True), flagsets, (False, True)):
        sc = dict(type=ty, membership=mem, tpi=tpi, jav=jav)
        restricted = fl["restricted_join_rule"]
        val = A.Scenario(enums=[(r"^ty$", ty), (r"RoomMemberEventContent::membership\(.*\)\.Ok\.0$", mem)],
                         bools=[(rf"^rules\.{n}$", v) for n, v in fl.items()] + [(r"^slice::contains\(", dup)],
                         wrappers=[(r"third_party_invite\(RoomMemberEventContent::new\(content\)\)\.Ok\.0$", "Some" if tpi else "None"),
                                   (r"join_authorised_via_users_server\(RoomMemberEventContent::new\(content\)\)\.Ok\.0$", "Some" if jav else "None")])
        cache = {a: val(a) for a in atoms}
        sel = [p for p in okp if all(cache.get(a) is None or cache[a] == t for a, t in p.conds)]
        tag = f"type={ty},membership={mem},third_party_invite={tpi},authorising_user={jav},flags={ver},already_present={dup}"
        if len(sel) != 1:
            ctx.unrecognised("C09.selection", f"C09.selection:{tag}", w.where(f), f"{len(sel)} success paths")
            continue
        p = sel[0]
        got = pairs_of(U.payload(p.ret))
        for e in p.effects:
            got |= pairs_of(e[1][1])
        want = spec_selection(sc, restricted)
        if dup:
            # `contains` true means the pair is already there: the set must still be the spec's (duplicates collapse)
            got_cmp = got | {x for x in want if x not in got and x[1] in ("state_key", "authorising_user", "token", "''")}
            okk = got <= want
        else:
            got_cmp, okk = got, got == want
        n += 1
        ctx.check(okk, "C09.selection", f"C09.selection:{tag}", w.where(f), bad_msg=f"selected {sorted(got)}, the specification selects {sorted(want)}")
    ctx.count("selection_scenarios", n)

    # ---- read discipline ---------------------------------------------------------------------------------------
    ctx.rule("C09.reads", "the state closure is called only inside the FetchStateExt methods, with a constant StateEventType of "
                          "{create, member, power_levels, join_rules, third_party_invite} and key \"\" or the method's argument; elsewhere it is only "
                          "passed to FetchStateExt methods or to the membership check functions")
    dexf = D.Dex(w.lookup, adt_discr=w.adt_discr, inline=lambda n: "{closure" in n)
    methods = {"room_create_event": ("RoomCreate", "''"), "user_membership": ("RoomMember", "arg"), "room_power_levels_event": ("RoomPowerLevels", "''"),
               "join_rule": ("RoomJoinRules", "''"), "room_third_party_invite_event": ("RoomThirdPartyInvite", "arg")}
    for m, (ty, key) in methods.items():
        fn = w.fn(f"<F as {EA}FetchStateExt<E>>::{m}")
        calls = [c for _, c in M.calls(fn["body"]) if c.get("fn", "").endswith("function::Fn::call")]
        ps = dexf.paths(fn, [D.sym("self"), D.sym("arg")])
        applies = set()
        for p in ps:
            for name, args, _ in p.opaque:
                if name == "apply" and D.show(args[0]) == "self":
                    applies.add((D.show(args[1]), D.show(args[2])))
        want_key = "''" if key == "''" else None
        good = len(calls) == 1 and len(applies) == 1
        if good:
            (t_, k_), = applies
            good = t_ == f"StateEventType::{ty}" and (k_ == "''" if key == "''" else ("arg" in k_ and "'" not in k_))
        ctx.check(good, "C09.reads", f"C09.reads:FetchStateExt::{m}", w.where(fn), bad_msg=f"state read(s) {sorted(applies)}; expected ({ty}, {key})")
    allowed_receivers = ("check_room_member", "check_room_member_join", "check_room_member_invite", "check_room_member_leave", "check_room_member_ban",
                         "check_room_member_knock", "check_third_party_invite")
    n_uses = 0
    for fn in w.all_fns():
        if not fn["path"].startswith(EA) or "body" not in fn or "FetchStateExt" in fn["path"] or "::tests" in fn["path"]:
            continue
        body = fn["body"]
        fetch_locals = {i for i, t in enumerate(body["locals"]) if is_fetch_type(t)}
        if not fetch_locals:
            continue
        defs = PC.roots(body)
        for bi, c in M.calls(body):
            name = M.callee_name(c)
            for ai, a in enumerate(c["args"]):
                if a.get("k") not in ("copy", "move"):
                    continue
                e = PC.expr(body, defs, a)
                l = M.pl_local(a["pl"])
                # the value itself is the closure (possibly through references), not something computed from it
                uses_fetch = (isinstance(a["pl"], int) and l in fetch_locals) or (e[0] == "arg" and e[1] in fetch_locals)
                if not uses_fetch:
                    continue
                n_uses += 1
                okc = "FetchStateExt" in c.get("fn", "") or name.rsplit("::", 1)[-1] in allowed_receivers or name.endswith("FetchStateExt<E>>::" + name.rsplit("::", 1)[-1])
                ctx.check(okc, "C09.reads", f"C09.reads:{fn['path'].rsplit('::', 1)[-1]}->{name.rsplit('::', 1)[-1]}", w.where(fn, c["line"]),
                          bad_msg=f"{fn['path']} hands the state closure to {name} (not a FetchStateExt method or membership check)")
    ctx.floor("uses of the state closure", n_uses, 25)

    # ---- reads within selection, per branch --------------------------------------------------------------------
    ctx.rule("C09.subset", "per membership branch, the (FetchStateExt method, key) pairs read on any path are within the selection for that branch")
    dexe = D.Dex(w.lookup, adt_discr=w.adt_discr, unroll=1, inline=lambda n: "{closure" in n, effects=lambda n: "FetchStateExt" in n, max_paths=300000)
    method_pair = {"room_create_event": "RoomCreate", "user_membership": "RoomMember", "room_power_levels_event": "RoomPowerLevels", "join_rule": "RoomJoinRules",
                   "room_third_party_invite_event": "RoomThirdPartyInvite"}
    branches = {
        "check_room_member_join": (["ev", "target", "rules", "create", "fetch"], "Join"),
        "check_room_member_invite": (["ev", "target", "rules", "create", "fetch"], "Invite"),
        "check_third_party_invite": (["ev", "tpi", "target", "fetch"], "Invite3"),
        "check_room_member_leave": (["ev", "target", "rules", "create", "fetch"], "Leave"),
        "check_room_member_ban": (["ev", "target", "rules", "create", "fetch"], "Ban"),
        "check_room_member_knock": (["ev", "target", "rules", "fetch"], "Knock"),
    }
    base = {("RoomCreate", "''"), ("RoomPowerLevels", "''"), ("RoomMember", "sender"), ("RoomMember", "target")}
    allowed = {"Join": base | {("RoomJoinRules", "''"), ("RoomMember", "authorising_user")}, "Invite": base | {("RoomJoinRules", "''")},
               "Invite3": base | {("RoomJoinRules", "''"), ("RoomThirdPartyInvite", "token")}, "Leave": base, "Ban": base, "Knock": base | {("RoomJoinRules", "''")}}
    for fname, (args, br) in branches.items():
        fn = w.fn(RM + fname)
        try:
            ps = dexe.paths(fn, [D.sym(a) for a in args])
        except D.Unrecognised as e:
            ctx.unrecognised("C09.subset", f"C09.subset:{fname}", w.where(fn), str(e))
            continue
        reads = set()
        guarded = True
        for p in ps:
            for e in p.effects:
                m = e[0].rsplit("::", 1)[-1]
                a = U.shows(e[1])
                k = "''"
                if len(a) > 1:
                    k = "sender" if a[1] == "Event::sender(ev)" else "target" if a[1] == "target" else \
                        "authorising_user" if "join_authorised_via_users_server(ev)" in a[1] else "token" if "ThirdPartyInvite::token(tpi)" in a[1] else "?" + a[1][:50]
                reads.add((method_pair.get(m, m), k))
                if k == "authorising_user":
                    # only under the restricted-join flags
                    fl = [D.show_atom(x) for x, t in p.conds if t and x[0] == "bool" and "restricted" in D.show_atom(x)]
                    guarded = guarded and bool(fl)
        extra = reads - allowed[br]
        ctx.check(not extra and guarded, "C09.subset", f"C09.subset:{fname}", w.where(fn),
                  bad_msg=f"reads {sorted(extra)} outside the selection for membership {br}" + ("" if guarded else "; authorising user's membership read without the restricted-join flag"))
    # the dispatcher in front of the branch functions: it only parses the state key and the membership and hands the state closure on - a read placed
    # before the `match` happens for EVERY membership, i.e. also where the selection for that membership does not contain the pair
    fn = w.fn(RM + "check_room_member")
    try:
        psd = dexe.paths(fn, [D.sym("ev"), D.sym("rules"), D.sym("create"), D.sym("fetch")])
        dreads = sorted({e[0].rsplit("::", 1)[-1] + "(" + ", ".join(U.shows(e[1])[1:])[:60] + ")" for p in psd for e in p.effects})
        ctx.floor("paths of the membership dispatcher check_room_member", len(psd), 5)
        ctx.check(not dreads, "C09.subset", "C09.subset:check_room_member:dispatcher", w.where(fn),
                  bad_msg=f"check_room_member reads {dreads} from the room state before dispatching on the membership: the read happens for every membership, "
                          f"also for those whose auth-event selection does not contain that entry (an entry outside the selection changes the outcome)")
    except D.Unrecognised as e:
        ctx.unrecognised("C09.subset", "C09.subset:check_room_member:dispatcher", w.where(fn), str(e))
    # auth_check itself: create, sender membership, power levels only
    fn = w.fn(EA + "auth_check")
    ps = dexe.paths(fn, [D.sym("rules"), D.sym("ev"), D.sym("fetch")])
    reads = set()
    for p in ps:
        for e in p.effects:
            m = e[0].rsplit("::", 1)[-1]
            a = U.shows(e[1])
            reads.add((method_pair.get(m, m), "''" if len(a) == 1 else ("sender" if a[1] == "Event::sender(ev)" else "?" + a[1][:40])))
    ctx.check(reads <= {("RoomCreate", "''"), ("RoomPowerLevels", "''"), ("RoomMember", "sender")}, "C09.subset", "C09.subset:auth_check", w.where(fn),
              bad_msg=f"auth_check reads {sorted(reads)}")
    # the selection for an m.room.create event is empty: on the paths that take the create branch nothing is read from the state
    create_reads, n_create = [], 0
    for p in ps:
        is_create = [t for a, t in p.conds if re.search(r"Event::event_type\(ev\).*RoomCreate|RoomCreate.*Event::event_type\(ev\)", D.show_atom(a))]
        if is_create and all(is_create):
            n_create += 1
            if p.effects:
                create_reads.append(sorted({e[0].rsplit("::", 1)[-1] for e in p.effects}))
    ctx.floor("paths of auth_check through the m.room.create branch", n_create, 1)
    ctx.check(not create_reads, "C09.subset", "C09.subset:auth_check:create-branch", w.where(fn),
              bad_msg=f"authorising an m.room.create event reads the room state ({create_reads[:1]}): its auth-event selection is empty, so state entries outside the "
                      f"selection change the outcome")
    fn = w.fn(EA + "check_room_create")
    ctx.check(not any("FetchStateExt" in M.callee_name(c) for _, c in M.calls(fn["body"])), "C09.subset", "C09.subset:check_room_create", w.where(fn),
              bad_msg="check_room_create reads room state")

    # ---- iterative_auth_check: what is behind the closure ----------------------------------------------------------
    ctx.rule("C09.closure", "iterative_auth_check passes auth_check a closure over a map filled only with (a) the event's auth_events under their own "
                            "(type, state key) and (b) resolved-state entries at auth_types_for_event keys")
    fn = w.fn("ruma_state_res::iterative_auth_check")
    body = fn["body"]
    defs = PC.roots(body)
    inserts = []
    for bi, c in M.calls(body):
        name = M.callee_name(c)
        if re.search(r"HashMap::<[^>]*>::insert$", name) and "(ruma_events::enums::StateEventType, alloc::string::String)" in (c.get("fnargs") or [""])[0]:
            recv = json.dumps(PC.expr(body, defs, c["args"][0]))
            keyx = json.dumps(PC.expr(body, defs, c["args"][1]))
            inserts.append((recv, keyx, c["line"]))
    auth_map = [i for i in inserts if "HashMap::<K, V>::new" in i[0]]
    state_map = [i for i in inserts if "HashMap::<K, V>::new" not in i[0]]
    kinds = set()
    for recv, keyx, line in auth_map:
        if "with_state_key" in keyx and "Event::event_type" in keyx:
            kinds.add("own-key-of-auth-event")
        elif "to_owned" in keyx or "clone" in keyx.lower():
            kinds.add("selected-key")
        else:
            kinds.add("?" + keyx[:80])
    ctx.check(kinds == {"own-key-of-auth-event", "selected-key"} and len(auth_map) == 2, "C09.closure", "C09.closure:inserts", w.where(fn),
              bad_msg=f"inserts into the auth map: {sorted(kinds)} ({len(auth_map)} sites)")
    # the auth map is the checked event's own: created inside the per-event loop, or emptied on every way back to the loop head
    succ = {i: M.successors(b) for i, b in enumerate(body["blocks"])}

    def reach(src, stop=()):
        seen, todo = set(), [x for x in succ[src] if x not in stop]
        while todo:
            x = todo.pop()
            if x in seen:
                continue
            seen.add(x)
            todo += [y for y in succ[x] if y not in stop and y not in seen]
        return seen
    news = [bi for bi, c in M.calls(body) if re.search(r"HashMap::<[^>]*>::new$", M.callee_name(c))
            and "(ruma_events::enums::StateEventType, alloc::string::String)" in (c.get("fnargs") or [""])[0]]
    ins_blocks = [bi for bi, c in M.calls(body) if c["line"] in {l for _, _, l in auth_map} and re.search(r"HashMap::<[^>]*>::insert$", M.callee_name(c))]
    in_cycle = [bi for bi in range(len(body["blocks"])) if bi in reach(bi)]
    # head of the outermost loop: the block of a cycle that is entered from outside every cycle and reaches all other cyclic blocks
    outer = {bi for bi in in_cycle if set(in_cycle) <= reach(bi) | {bi}}
    heads = [bi for bi in outer if any(bi in succ[pb] for pb in succ if pb not in outer)]
    fresh = bool(news) and any(bi in reach(bi) for bi in news)
    if not fresh and heads and ins_blocks:
        clears = {bi for bi, c in M.calls(body) if re.search(r"HashMap::<[^>]*>::(clear|drain)$", M.callee_name(c))
                  and "(ruma_events::enums::StateEventType, alloc::string::String)" in (c.get("fnargs") or [""])[0]}
        uses = [bi for bi, c in M.calls(body) if M.callee_name(c) == EA + "auth_check"]
        # stale entry = inserted, carried to the loop head, and still there when the next event is authorised
        fresh = bool(clears) and bool(uses) and not any(h in reach(ib, stop=clears) and u in reach(h, stop=clears)
                                                         for ib in ins_blocks for h in heads for u in uses)
    ctx.floor("auth map constructor / insert sites in iterative_auth_check", len(news) + len(ins_blocks), 3)
    ctx.check(fresh, "C09.closure", "C09.closure:fresh-per-event", w.where(fn),
              bad_msg="the map behind the closure given to auth_check is neither created per checked event nor emptied on every path from one event's inserts to the next event's auth_check: "
                      "entries fetched for one event (e.g. one skipped with `continue`) stay visible to the next event's authorisation")
    # the selected keys come from auth_types_for_event on the event's own fields
    at = [c for _, c in M.calls(body) if M.callee_name(c) == EA + "auth_types_for_event"]
    good = len(at) == 1
    if good:
        a = [json.dumps(PC.expr(body, defs, x)) for x in at[0]["args"]]
        good = "Event::event_type" in a[0] and "Event::sender" in a[1] and "Event::state_key" in a[2] and "Event::content" in a[3] and '"arg", 1' in a[4]
    ctx.check(good, "C09.closure", "C09.closure:selection-arguments", w.where(fn), bad_msg="auth_types_for_event is not called on the event's own type/sender/state_key/content and the rules")
    clos = [f2 for f2 in w.all_fns() if f2["path"].startswith("ruma_state_res::iterative_auth_check::{closure") and "body" in f2]
    reads_ok = False
    for c2 in clos:
        names = [M.callee_name(c) for _, c in M.calls(c2["body"])]
        if any(re.search(r"HashMap::<[^>]*>::get$", n_) for n_ in names) and any("with_state_key" in n_ for n_ in names):
            reads_ok = len(c2["body"]["locals"]) >= 3 and all(not n_.startswith("ruma_state_res::") or "with_state_key" in n_ for n_ in names)
    ctx.check(reads_ok, "C09.closure", "C09.closure:closure-body", w.where(fn), bad_msg="the closure given to auth_check is not a plain lookup in the auth map")
    content_fields_rule(ctx, w)
    ctx.assumptions += ["the Event trait's accessors are pure getters of the event (caller-supplied type)"]
    ctx.samples += [{"scenario": "m.room.member join with authorising user in a v8 room", "selection": "create, power_levels, member(sender), member(target), join_rules, member(authoriser)"}]


def is_fetch_type(t):
    return t in ("F", "&F") or (t.startswith("impl ") or t.startswith("&impl ")) and "StateEventType" in t and "Fn(" in t


# content keys the authorization rules and the auth-event selection name (specification, room versions 1-11), as read through derived helper structs
SPEC_CONTENT_KEYS = {"creator", "m.federate", "room_version", "join_rule", "join_authorised_via_users_server", "membership", "third_party_invite", "signed",
                     "public_key", "public_keys", "key_validity_url", "token", "mxid", "users", "users_default", "events", "events_default", "state_default", "ban",
                     "kick", "redact", "invite", "notifications", "redacts", "allow"}


def content_fields_rule(ctx, w):
    """C09.content-fields: the helper structs through which selection and authorisation read event contents accept each field under exactly one
    key (no serde alias): a second spelling makes a key the specification does not name select auth events and steer the outcome."""
    import json as _json
    ctx.rule("C09.content-fields", "every derived field visitor of ruma_state_res::events accepts exactly one key per field (number of accepted key strings == "
                                   "number of fields): no alias spelling of a content field is read")
    n = 0
    for fn in w.all_fns():
        if "body" not in fn or not fn["path"].startswith("<ruma_state_res::events::") or not fn["path"].endswith("__FieldVisitor as serde_core::de::Visitor<'de>>::visit_str"):
            continue
        names = set()
        for b in fn["body"]["blocks"]:
            for mm in re.finditer(r'"k": "const", "ty": "&str", "v": "([^"]+)"', _json.dumps(b["s"]) + _json.dumps(b["t"])):
                names.add(mm.group(1))
        adt = w.adts.get(fn["path"][1:].split(" as serde_core::de::Visitor")[0].replace("__FieldVisitor", "__Field"))
        nf = len([v for v in adt["variants"] if v["name"] != "__ignore"]) if adt else None
        n += 1
        short = re.sub(r"::_::<impl.*", "", fn["path"][1:]).rsplit("::", 2)[-2:]
        key = "C09.content-fields:" + "::".join(short)
        if nf is None:
            ctx.unrecognised("C09.content-fields", key, w.where(fn), "field enum of the derived visitor not found")
        else:
            foreign = sorted(names - SPEC_CONTENT_KEYS)
            ctx.check(len(names) == nf and not foreign, "C09.content-fields", key, w.where(fn), ok_msg=f"keys {sorted(names)}",
                      bad_msg=(f"{nf} field(s) but the keys {sorted(names)} are accepted: an alias spelling is read as if it were the specified field" if len(names) != nf
                               else f"reads {foreign}, which is not a content key the authorization rules name"))
    ctx.floor("derived content field visitors in ruma_state_res::events", n, 8)
