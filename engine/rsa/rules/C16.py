"""C16 — endpoint wire format: encode set, URL construction, auth header table, METADATA consistency, generated sibling agreement, XMatrix names."""
import json, re
from .. import dex as D, world as W, mir as M, authmodel as A
from . import util as U, panic_common as PC

LEVEL = "other"
EXPLANATION = (
    "Structural necessary conditions of the HTTP round trip, decided from const-evaluated METADATA and the MIR of the generated code: "
    "(1) the path-segment encode set contains '/', '?', '#', '%'; make_endpoint_url percent-encodes exactly the `:placeholder` segments, "
    "one path argument each, in order; (2) authorization_header's decision table per AuthScheme; (3) every endpoint's METADATA: all paths "
    "of its history have the same placeholders, and select_path's ingredients; (4) sibling agreement for every generated request and "
    "response (thorough tier, client+server features): the outgoing and incoming sides use the same query carrier type "
    "(serde_html_form to_string / from_str), the same body carrier type (json_to_buf / from_slice), the number of path arguments written "
    "equals the arity read and the number of placeholders, the method is METADATA.method; (5) XMatrix Display writes the parameters its "
    "parser reads. Value round trips of individual field types and select_path over arbitrary version subsets are NOT decided.")
API = "ruma_common::api::"
CRATES_A = ["ruma_common", "ruma_federation_api", "ruma_appservice_api", "ruma_identity_service_api", "ruma_push_gateway_api"]
CRATES_B = CRATES_A + ["ruma_client_api"]


def placeholders(path):
    return [seg for seg in path.split("/") if seg.startswith(":")]


def header_write_rule(ctx, w):
    """(thorough tier: the generated conversions exist with the client/server features only.) A header field of a request / response type is written
    with HeaderMap::insert, which REPLACES what the builder put there before (`Content-Type: application/json` is pre-set on every response): with
    `append` the message carries two values and the receiving side, which takes the first one, reads the default instead of the field."""
    rule = "C16.header-writes"
    ctx.rule(rule, "generated try_into_http_request / try_into_http_response: header fields are written with HeaderMap::insert (replace), never append")
    n_ins, bad = 0, []
    for g in w.all_fns():
        if "body" not in g or not re.search(r"::(try_into_http_response|try_into_http_request)$", re.sub(r"(::\{closure#\d+\})+$", "", g["path"])):
            continue
        for body in M.all_bodies(g):
            for _, c in M.calls(body):
                cn = M.callee_name(c)
                if "header::map::HeaderMap" in cn:
                    last = cn.rsplit("::", 1)[-1]
                    if last in ("insert", "try_insert"):
                        n_ins += 1
                    elif last in ("append", "try_append"):
                        bad.append((g, last, c["line"]))
    ctx.floor("header fields written by generated conversions", n_ins, 20)
    seen = set()
    for g, op, line in bad:
        k = PCkey(g["path"])[-160:]
        if (k, op) in seen:
            continue
        seen.add((k, op))
        ctx.violation(rule, f"{rule}:{k}:{op}", w.where(g, line),
                      f"{g['path']} writes a header field with HeaderMap::{op}: a value the builder already set for that header (Content-Type) is kept next to it, the "
                      f"receiving side reads the first one, and the field does not survive the round trip")
    if not bad:
        ctx.ok(rule, f"{rule}:scan", "", f"{n_ins} header fields inserted, none appended")


def optional_header_rule(ctx, w):
    """(thorough tier.) A header field of type Option<_> is written only when it is Some. If the same conversion also sets that header
    unconditionally (the `Content-Type: application/json` the builder pre-sets), an absent value is received as that default: `content_type: None`
    comes back as Some("application/json"). So: a header name written under a `field is Some` test is not written anywhere else in the function."""
    rule = "C16.optional-header"
    ctx.rule(rule, "generated try_into_http_request / try_into_http_response: a header that is written only when its Option field is Some is not also pre-set "
                   "unconditionally in the same conversion (None must stay absent on the wire)")
    n_opt, bad = 0, []
    for g in w.all_fns():
        if "body" not in g or not re.search(r"::(try_into_http_response|try_into_http_request)$", g["path"]):
            continue
        body = g["body"]
        defs_ = PC.roots(body)
        cfg = M.Cfg(body)
        writes = []          # (header name, conditional on an Option field?, line)
        for bi, c in M.calls(body):
            cn = M.callee_name(c)
            last = cn.rsplit("::", 1)[-1]
            if ("header::map::HeaderMap" in cn and last in ("insert", "try_insert", "append", "try_append")) or (cn.endswith("Builder::header") and ("response::Builder" in cn or "request::Builder" in cn)):
                if len(c["args"]) < 2:
                    continue
                h = PC.expr(body, defs_, c["args"][1])
                if h[0] not in ("const?", "const"):
                    continue
                def self_field(e):          # `self.f`, possibly behind Option::as_ref / as_deref
                    if e[0] == "call" and re.search(r"Option::<T>::(as_ref|as_deref|as_mut)$", e[1]) and e[2]:
                        e = e[2][0]
                    return e[0] == "field" and list(e[1]) == ["arg", 1]
                opt = any(cond[0] == "switch" and truth and cond[1][0] == "discr" and self_field(cond[1][1]) and tuple(cond[2]) == (1,)
                          for cond, truth in PC.dominating_guards(cfg, body, defs_, bi))
                writes.append((str(h[1]), opt, c["line"]))
        for h in {h for h, opt, _ in writes if opt}:
            n_opt += 1
            others = [ln for h2, opt2, ln in writes if h2 == h and not opt2]
            if others:
                bad.append((g, h, others[0]))
    ctx.floor("optional header fields of generated conversions", n_opt, 10)
    seen = set()
    for g, h, line in bad:
        k = PCkey(g["path"])[-160:]
        if (k, h) in seen:
            continue
        seen.add((k, h))
        ctx.violation(rule, f"{rule}:{k}:{h.rsplit('::', 1)[-1]}", w.where(g, line),
                      f"{g['path']} sets {h.rsplit('::', 1)[-1]} unconditionally and writes the Option field only when it is Some: with None the receiving side "
                      f"reads the pre-set value (e.g. content_type None -> Some(\"application/json\")), the field does not survive the round trip")
    if not bad:
        ctx.ok(rule, f"{rule}:scan", "", f"{n_opt} optional header fields, none of them pre-set")


def verbatim_custom_rule(ctx, w):
    """A Content-Disposition header is a field of media requests and responses. Its type is matched case-insensitively against `inline` / `attachment`,
    but a custom type is a value of its own: it is kept as received (the token the sender wrote), not as a case-folded copy - otherwise `Form-Data`
    is decoded as `form-data` and re-encoded as another header."""
    rule = "C16.disposition-type"
    ctx.rule(rule, "TryFrom<&[u8]> for ContentDispositionType: the _Custom variant is built from the unmodified input bytes")
    ks = [k for k in w.fn_index if re.fullmatch(r"<ruma_common::http_headers::content_disposition::ContentDispositionType as core::convert::TryFrom<&'a \[u8\]>>::try_from", k)]
    if len(ks) != 1:
        ctx.missing(rule, f"{rule}:try_from", "TryFrom<&[u8]> for ContentDispositionType not found")
        return
    f = w.fn(ks[0])
    dex = D.Dex(w.lookup, adt_discr=w.adt_discr, inline=lambda n: False, ctors=w.ctors)
    custom = [D.show(p.ret) for p in dex.paths(f, [D.sym("value")]) if p.kind == "ret" and "_Custom(" in D.show(p.ret)]
    bad = [r for r in custom if not re.fullmatch(r"Result::Ok\(ContentDispositionType::_Custom\((?:\w+::)*try_from\(value\)\.Ok\.0\)\)|Result::map\((?:\w+::)*try_from\(value\), .*_Custom.*\)", r)]
    ctx.check(bool(custom) and not bad, rule, f"{rule}:try_from", w.where(f),
              bad_msg=f"a custom disposition type is built from {[b[:120] for b in bad[:1]] or 'nothing'} rather than from the input bytes: the token is altered on decode "
                      f"(e.g. `Form-Data` becomes `form-data`) and the header does not survive the round trip")


def query_scalar_rule(ctx, w):
    """(thorough tier.) A field flattened into a request's query struct is deserialized from the key/value pairs of the query string, where every value
    is a string. A hand-written visitor that takes the values as serde_json::Value and asks `as_bool()` / `as_u64()` .. gets None for `true` / `5`
    written in a query, so the field silently decodes as something else (RoomNetwork::All as RoomNetwork::Matrix)."""
    rule = "C16.query-scalars"
    ctx.rule(rule, "types flattened into a RequestQuery: their hand-written visitors do not read scalars through serde_json::Value::as_bool / as_u64 / as_i64 / as_f64 "
                   "(query values are strings)")
    flat = {}
    n_q = 0
    for g in w.all_fns():
        if "body" not in g or not re.search(r"RequestQuery>::deserialize::__Visitor.*::visit_map$", g["path"]):
            continue
        n_q += 1
        for _, c in M.calls(g["body"]):
            cn = M.callee_name(c)
            fa = c.get("fnargs") or []
            if cn.endswith("::deserialize") and "serde_core::de::Deserialize" in cn and fa and "FlatMapDeserializer" in " ".join(str(x) for x in c.get("args_ty", [])) + " ".join(fa) + cn or \
               (cn.endswith("::deserialize") and "serde_core::de::Deserialize<'de> for " in cn and any("FlatMapDeserializer" in str(t) for t in g["body"]["locals"])
                    and not fa[0].startswith(("core::", "alloc::", "js_int::", "ruma_common::identifiers"))):
                flat.setdefault(fa[0], []).append(g)
    ctx.floor("derived RequestQuery deserializers", n_q, 50)
    n_t = 0
    for ty, users in sorted(flat.items()):
        de = [h for k, hs in w.fn_index.items() if k.endswith(f"Deserialize<'de> for {ty}>::deserialize") for h in hs if "body" in h]
        if len(de) != 1 or any(k.startswith(de[0]["path"] + "::__Visitor") or "::__Visitor" in k and ty in k for k in w.fn_index):
            continue                      # derived Deserialize: the derive reads through the typed deserializer
        n_t += 1
        vis = set()
        for _, c in M.calls(de[0]["body"]):
            if "Deserializer::deserialize_" in M.callee_name(c) or M.callee_name(c).rsplit("::", 1)[-1].startswith("deserialize_"):
                vis.update(a for a in (c.get("fnargs") or []) if "Visitor" in a or "::" in a)
        bad = []
        for v in vis:
            for k, hs in w.fn_index.items():
                if k.startswith(f"<{v} as serde_core::de::Visitor<") :
                    for h in hs:
                        for body in (M.all_bodies(h) if "body" in h else []):
                            for _, c2 in M.calls(body):
                                cn2 = M.callee_name(c2)
                                if cn2.startswith("serde_json::value::Value::") and cn2.rsplit("::", 1)[-1] in ("as_bool", "as_u64", "as_i64", "as_f64", "as_number"):
                                    bad.append((h, cn2.rsplit("::", 1)[-1], c2["line"]))
        key = f"{rule}:{ty}"
        if bad:
            h, meth, line = bad[0]
            ctx.violation(rule, key, w.where(h, line),
                          f"{ty} is flattened into the query of {sorted({PCkey(u['path']).split('::RequestQuery')[0][-70:] for u in users})[:2]} and its visitor reads a value with "
                          f"serde_json::Value::{meth}(): in a query string the value is the string `true`, for which {meth}() is None - the field decodes as another value "
                          f"(RoomNetwork::All comes back as RoomNetwork::Matrix)")
        else:
            ctx.ok(rule, key, w.where(de[0]), f"hand-written visitor(s) {sorted(vis)} read no scalar through Value::as_*")
    ctx.floor("hand-written types flattened into a query", n_t, 1)


def query_sequence_rule(ctx, w):
    """(thorough tier.) The query codec (serde_html_form) writes a sequence as one `key=value` pair per element, so the empty sequence is written as
    no pair at all: on the wire it is the absent key. The receiving side therefore has to read the absent key of a sequence field as the empty
    sequence - a derived RequestQuery deserializer that asks `missing_field` for it rejects the request the sender built, and a default function that
    returns elements turns `[]` into them."""
    rule = "C16.query-sequences"
    ctx.rule(rule, "derived Deserialize of every RequestQuery: a field of sequence type (Vec / BTreeSet / boxed slice) that is absent is read as the empty sequence "
                   "(serde(default) / a default function that builds no element), because the empty sequence is encoded as the absent key")
    SEQ = ("alloc::vec::Vec<", "alloc::collections::btree::set::BTreeSet<", "alloc::boxed::Box<[", "std::collections::HashSet<", "indexmap::set::IndexSet<")
    n_fields = 0
    for p, a in w.adts.items():
        if p.endswith("::RequestQuery") and a["kind"] == "Struct":
            n_fields += sum(1 for v in a["variants"] for f in v["fields"] if str(f["ty"]).startswith(SEQ))
    ctx.floor("sequence-typed query fields", n_fields, 7)
    n_vis = 0
    for g in w.all_fns():
        if "body" not in g or not re.search(r"RequestQuery>::deserialize::__Visitor.*::visit_map$", g["path"]):
            continue
        n_vis += 1
        ep = PCkey(g["path"]).split(" for ", 1)[-1].split("::RequestQuery")[0][-90:]
        seen = set()
        for _, c in M.calls(g["body"]):
            cn = M.callee_name(c)
            fa = c.get("fnargs") or []
            if cn.endswith("de::missing_field") and len(fa) > 1 and str(fa[1]).startswith(SEQ):
                name = c["args"][0].get("v") if c["args"] and c["args"][0].get("k") == "const" else "?"
                key = f"{rule}:{ep}:{name}:required"
                if key not in seen:
                    seen.add(key)
                    ctx.violation(rule, key, w.where(g, c["line"]),
                                  f"query field `{name}` ({fa[1]}) of {ep} has no default: the empty sequence is written as no `{name}=` pair, and the receiving side "
                                  f"fails with `missing field {name}` - a request the encoder accepted does not survive the wire")
                continue
            h = w.lookup(cn)
            if h is None or "body" not in h or h["body"].get("argc", 0) != 0 or not str(h["body"]["locals"][0]).startswith(SEQ):
                continue
            builds = [M.callee_name(c2) for _, c2 in M.calls(h["body"]) if not re.search(r"::(new|default|with_capacity)$", M.callee_name(c2))]
            key = f"{rule}:{ep}:{cn.rsplit('::', 1)[-1]}:non-empty-default"
            if builds and key not in seen:
                seen.add(key)
                ctx.violation(rule, key, w.where(h),
                              f"a sequence-typed query field of {ep} defaults to the value of {cn}, which builds elements ({builds[0].rsplit('::', 1)[-1]}): the empty "
                              f"sequence is written as the absent key and comes back as that default")
            elif not builds:
                ctx.ok(rule, f"{rule}:{ep}:{cn.rsplit('::', 1)[-1]}", w.where(h), "default function builds the empty sequence")
    ctx.floor("derived RequestQuery deserializers", n_vis, 50)
    ctx.ok(rule, f"{rule}:scan", "", f"{n_fields} sequence-typed query fields in {n_vis} RequestQuery deserializers")


def error_fields_rule(ctx, w):
    """(thorough tier.) The body of a client-server error response is written by `impl Serialize for ErrorKind` and read by `impl Deserialize for ErrorKind`
    (crates/ruma-client-api/src/error/kind_serde.rs), two hand-written siblings. The reader recognises a fixed set of keys (Field::new) and assigns them to
    variant fields; a key the writer never emits is a variant field that is dropped on the wire (and `current_version`, which the reader requires, makes the
    whole error undecodable)."""
    rule = "C16.error-fields"
    ctx.rule(rule, "ErrorKind: the keys the hand-written Deserialize recognises (Field::new) are exactly the keys the hand-written Serialize can write "
                   "(serialize_entry with a constant key): a variant field the reader fills but the writer never emits does not survive the wire")
    fnew = [g for g in w.all_fns() if "body" in g and re.search(r"ruma_client_api::error::kind_serde::Field::<'de>::new$|ruma_client_api::error::kind_serde::Field.*::new$", g["path"])]
    fser = [g for g in w.all_fns() if "body" in g and re.search(r"kind_serde::<impl serde_core::ser::Serialize for ruma_client_api::error::ErrorKind>::serialize$", g["path"])]
    if len(fnew) != 1 or len(fser) != 1:
        ctx.missing(rule, f"{rule}:anchors", f"Field::new ({len(fnew)}) / Serialize for ErrorKind ({len(fser)}) not found")
        return
    def consts(fn):
        out = set()
        for body in M.all_bodies(fn):
            txt = json.dumps(body)
            out |= set(re.findall(r'\{"k": "const", "ty": "&str", "v": "([a-z_]+)"\}', txt))
        return out
    # the name table may sit in a private helper of the module that Field::new consults (`Field::known(&str) -> Option<Self>`): one level of callees
    fam = [fnew[0]]
    for body in M.all_bodies(fnew[0]):
        for _, c in M.calls(body):
            g_ = w.lookup(M.callee_name(c))
            if g_ is not None and "body" in g_ and g_["path"].startswith("ruma_client_api::error::kind_serde::") and g_ not in fam:
                fam.append(g_)
    read = set()
    for g_ in fam:
        read |= consts(g_)
    written = set()
    for body in M.all_bodies(fser[0]):
        for _, c in M.calls(body):
            if M.callee_name(c).endswith("::serialize_entry") and c["args"] and len(c["args"]) > 1:
                a = c["args"][1]
                e = PC.expr(body, PC.roots(body), a)
                written |= set(re.findall(r'"const", "([a-z_]+)"', json.dumps(e)))
    ctx.floor("keys recognised by the ErrorKind reader", len(read), 8)
    ctx.floor("keys written by the ErrorKind writer", len(written), 5)
    lost = sorted(read - written)
    extra = sorted(written - read)
    for k_ in sorted(read | written):
        key = f"{rule}:{k_}"
        if k_ in lost:
            ctx.violation(rule, key + ":never-written", w.where(fser[0]),
                          f"`{k_}` is read into a field of an ErrorKind variant but Serialize for ErrorKind never writes it: the field is dropped from the error response "
                          f"(a WrongRoomKeysVersion / BadStatus error does not come back as the value that was sent)")
        elif k_ in extra:
            ctx.violation(rule, key + ":never-read", w.where(fnew[0]), f"`{k_}` is written by Serialize for ErrorKind but the reader does not recognise it (it lands in the custom extras)")
        else:
            ctx.ok(rule, key, w.where(fser[0]), "written and read")


def version_literal_rule(ctx, w):
    """The `metadata!` macro turns the version literals of an endpoint's history (`1.14 => "/path"`) into MatrixVersion values through
    MatrixVersion::from_parts; into_parts is its inverse. A wrong table entry records a path under another version, so select_path offers it to
    servers that do not have it (or withholds it)."""
    rule = "C16.version-literals"
    ctx.rule(rule, "MatrixVersion::from_parts(major, minor) = V{major}_{minor} for every arm and every variant has an arm; into_parts is the inverse table")
    fs = [g for g in w.all_fns() if g["path"].endswith("metadata::MatrixVersion::from_parts") and "body" in g]
    if len(fs) != 1:
        ctx.missing(rule, f"{rule}:from_parts", "MatrixVersion::from_parts not found")
        return
    f = fs[0]
    dex = D.Dex(w.lookup, adt_discr=w.adt_discr, inline=lambda n: False, ctors=w.ctors)
    got = {}
    for p in dex.paths(f, [D.sym("major"), D.sym("minor")]):
        if p.kind != "ret" or not D.show(p.ret).startswith("Result::Ok("):
            continue
        vals = {}
        for a, t in p.conds:
            m = re.fullmatch(r"(major|minor)==(\d+)", D.show_atom(a).replace(" ", ""))
            if m and t:
                vals[m.group(1)] = int(m.group(2))
            if a[0] == "int" and t and D.show(a[1]) in ("major", "minor") and isinstance(a[2], int):
                vals[D.show(a[1])] = a[2]
        got[(vals.get("major"), vals.get("minor"))] = D.show(p.ret)
    bad = {k: v for k, v in got.items() if v != f"Result::Ok(MatrixVersion::V{k[0]}_{k[1]})"}
    adt = w.adts.get("ruma_common::api::metadata::MatrixVersion")
    variants = {v["name"] for v in adt["variants"]} if adt else set()
    missing = sorted(variants - {f"V{a}_{b}" for a, b in got})
    ctx.floor("arms of MatrixVersion::from_parts", len(got), 10)
    ctx.check(not bad and not missing, rule, f"{rule}:from_parts", w.where(f),
              bad_msg=f"version literal table: wrong arms { {f'{a}.{b}': v for (a, b), v in bad.items()} }, variants without an arm {missing}: an endpoint declared for that "
                      f"version is recorded under another one, and path selection offers its stable path to servers that do not advertise the declared version")
    gi = [g for g in w.all_fns() if g["path"].endswith("metadata::MatrixVersion::into_parts") and "body" in g]
    if gi:
        inv = {}
        for p in dex.paths(gi[0], [D.sym("self")]):
            v = [a[2] for a, t in p.conds if a[0] == "variant" and t and D.show(a[1]) == "self"]
            if v and p.kind == "ret":
                inv[v[0]] = D.show(p.ret).replace(" ", "")
        badi = {k: v for k, v in inv.items() if v != "({},{})".format(*k[1:].split("_"))}
        ctx.check(bool(inv) and not badi, rule, f"{rule}:into_parts", w.where(gi[0]), bad_msg=f"into_parts is not the inverse table: {badi}")


def escape_parity_rule(ctx, w):
    """Quoted header values are written with `\\` before every backslash and double quote (quote_ascii_string_if_required). A reader that scans for
    the closing quote has to remember whether the current byte is escaped, and an escaped backslash must not escape what follows: the flag is
    toggled (`is_backslash && !flag`), never just set. Decided on the MIR of the scanners: the loop-carried bool that is set under the `== '\\'`
    test gets, on that branch, the negation of its own previous value."""
    rule = "C16.header-escape"
    ctx.rule(rule, "ruma_common::http_headers scanners of quoted strings (parse_param_value, unescape_string): the loop-carried escape flag is assigned the negation of "
                   "its previous value on the backslash branch (parity), so `\\\\` followed by `\"` ends the value - the form the writer emits for a value ending in a backslash")
    found = 0
    for g in w.all_fns():
        if "body" not in g or not g["path"].startswith("ruma_common::http_headers::"):
            continue
        for body in M.all_bodies(g):
            # a comparison with the backslash (byte 92 or char '\\')
            has_bs = any(st[0] == "=" and st[2][0] == "bin" and st[2][1] in ("Eq", "Ne") and any(o.get("k") == "const" and o.get("v") in (92, "\\") for o in st[2][2:4])
                         for b in body["blocks"] for st in b["s"])
            if not has_bs:
                continue
            names = body.get("names") or {}
            # candidate flags, found by their role and not by their name: (a) a bool local initialised outside a loop and written inside it (it carries
            # state from one byte to the next); (b) a bool captured by mutable reference that this body writes (FnMut closure called once per char)
            cfg_ = M.Cfg(body)
            loop_blocks = set()
            for head, blocks in cfg_.natural_loops().items():
                loop_blocks |= set(blocks)
            flags = []
            for li, ty in enumerate(body["locals"]):
                if ty != "bool":
                    continue
                wr = [bi for bi, b in enumerate(body["blocks"]) for st in b["s"] if st[0] == "=" and st[1] == li]
                if any(bi in loop_blocks for bi in wr) and any(bi not in loop_blocks for bi in wr):
                    flags.append((str(li), names.get(str(li), f"_{li}")))
            for k_, v_ in names.items():
                if not k_.isdigit() and isinstance(v_, dict) and "*" in json.dumps(v_.get("p")):
                    # written here with a bool value?
                    def _base_is_capture(pl):
                        if isinstance(pl, int):
                            return False
                        bl = M.pl_local(pl)
                        if bl == v_["l"]:
                            return True
                        bd = [s2[2] for b2 in body["blocks"] for s2 in b2["s"] if s2[0] == "=" and s2[1] == bl]
                        return len(bd) == 1 and ((bd[0][0] == "use" and bd[0][1].get("k") in ("copy", "move") and M.pl_local(bd[0][1]["pl"]) == v_["l"]) or
                                                 (bd[0][0] in ("ref", "rawptr") and M.pl_local(bd[0][2]) == v_["l"]))
                    for b in body["blocks"]:
                        for st in b["s"]:
                            if st[0] == "=" and _base_is_capture(st[1]) and st[2][0] == "use" and st[2][1].get("k") in ("copy", "move") and \
                                    isinstance(st[2][1]["pl"], int) and body["locals"][st[2][1]["pl"]] == "bool":
                                if (k_, v_) not in flags:
                                    flags.append((k_, v_))
            for k, v in flags:
                found += 1
                is_local = k.isdigit()
                def reads_flag(op, depth=0):
                    if op.get("k") not in ("copy", "move") or depth > 6:
                        return False
                    pl = op["pl"]
                    if is_local and isinstance(pl, int) and pl == int(k):
                        return True
                    if not is_local and not isinstance(pl, int):
                        bl = M.pl_local(pl)
                        if bl == v["l"]:
                            return True
                        bdefs = [st[2] for b in body["blocks"] for st in b["s"] if st[0] == "=" and st[1] == bl]
                        if len(bdefs) == 1 and ((bdefs[0][0] == "use" and bdefs[0][1].get("k") in ("copy", "move") and M.pl_local(bdefs[0][1]["pl"]) == v["l"]) or
                                                (bdefs[0][0] in ("ref", "rawptr") and M.pl_local(bdefs[0][2]) == v["l"])):
                            return True
                        return False
                    if isinstance(pl, int):
                        defs = [st[2] for b in body["blocks"] for st in b["s"] if st[0] == "=" and st[1] == pl]
                        return len(defs) == 1 and defs[0][0] == "use" and reads_flag(defs[0][1], depth + 1)
                    return False
                toggles = any(st[0] == "=" and st[2][0] == "un" and st[2][1] == "Not" and reads_flag(st[2][2]) for b in body["blocks"] for st in b["s"])
                # the flag is written somewhere in this body (a body that only reads it, e.g. the break test, is not the update site)
                def writes(st):
                    if st[0] != "=":
                        return False
                    if is_local:
                        return st[1] == int(k)
                    if isinstance(st[1], int):
                        return False
                    bl = M.pl_local(st[1])
                    if bl == v["l"]:
                        return True
                    bdefs = [s2[2] for b2 in body["blocks"] for s2 in b2["s"] if s2[0] == "=" and s2[1] == bl]
                    return len(bdefs) == 1 and ((bdefs[0][0] == "use" and bdefs[0][1].get("k") in ("copy", "move") and M.pl_local(bdefs[0][1]["pl"]) == v["l"]) or
                                                (bdefs[0][0] in ("ref", "rawptr") and M.pl_local(bdefs[0][2]) == v["l"]))
                n_writes = sum(1 for b in body["blocks"] for st in b["s"] if writes(st))
                if n_writes <= (1 if is_local else 0):
                    found -= 1
                    continue
                name = k if not k.isdigit() else v
                ctx.check(toggles, rule, f"{rule}:{PCkey(g['path'])}:{name}", w.where(g),
                          bad_msg=f"{g['path']}: the escape flag `{name}` is set on a backslash without looking at its previous value: after an escaped backslash the next "
                                  f"byte counts as escaped too, so a quoted value ending in a backslash (`\"C:\\\\dir\\\\\"`) swallows its closing quote and does not read back as written")
    ctx.floor("escape flags in the quoted-string scanners of ruma_common::http_headers", found, 2)


def PCkey(path):
    return re.sub(r"(::\{closure#\d+\})+", "", path)


def run(ctx):
    thorough = ctx.tier == "thorough"
    fx = ctx.facts("B" if thorough else "A")
    w = W.World(fx, CRATES_B if thorough else CRATES_A)

    ctx.rule("C16.encode_set", "PATH_PERCENT_ENCODE_SET contains '/', '?', '#', '%' (a path argument containing them must survive the receiver's routing and percent-decoding)")
    mask = w.value("ruma_common::percent_encode::PATH_PERCENT_ENCODE_SET")["fields"]["mask"]
    for ch in "/?#% ":
        c = ord(ch)
        ctx.check(bool(mask[c // 32] >> (c % 32) & 1), "C16.encode_set", f"C16.encode_set:{ch!r}", w.where_value("ruma_common::percent_encode::PATH_PERCENT_ENCODE_SET"),
                  bad_msg=f"{ch!r} is not percent-encoded in path arguments")

    # ---- make_endpoint_url ---------------------------------------------------------------------------------
    ctx.rule("C16.attr_char", "rfc8187::ATTR_CHAR leaves unencoded exactly RFC 8187's attr-char (ALPHA / DIGIT / ! # $ & + - . ^ _ ` | ~): in particular "
                              "the apostrophe that delimits charset'lang'value, '*' and '%' are always percent-encoded in `filename*=` values")
    AC = "ruma_common::http_headers::rfc8187::ATTR_CHAR"
    am = w.value(AC)["fields"]["mask"]
    literal = {b for b in range(128) if not (am[b // 32] >> (b % 32) & 1)}
    want_literal = {b for b in range(128) if chr(b).isalnum()} | {ord(c) for c in "!#$&+-.^_`|~"}
    ctx.check(literal == want_literal, "C16.attr_char", "C16.attr_char:set", w.where_value(AC),
              bad_msg=f"left unencoded although not attr-char: {[chr(b) for b in sorted(literal - want_literal)]}; encoded although attr-char: "
                      f"{[chr(b) for b in sorted(want_literal - literal)]} (a literal `'` inside the value breaks the charset'lang'value split of the decoder)")
    # (an AsciiSet covers 0..=127; percent_encoding always encodes non-ASCII bytes)

    ctx.rule("C16.url", "make_endpoint_url: a segment starting with ':' consumes the next path argument and writes `/` + utf8_percent_encode(arg, PATH set); other segments are copied; the query is appended after '?'")
    f = w.fn(API + "metadata::Metadata::make_endpoint_url")
    dex = D.Dex(w.lookup, adt_discr=w.adt_discr, ctors=w.ctors, unroll=1, effects=lambda n: True, max_paths=200000)
    ps = dex.paths(f, [D.sym("self"), D.sym("versions"), D.sym("base_url"), D.sym("path_args"), D.sym("query_string")])
    okp = [p for p in ps if p.kind == "ret" and U.is_ok(p.ret)]
    ctx.floor("make_endpoint_url success paths", len(okp), 4)
    good_enc, good_plain, seen_enc, seen_plain = True, True, 0, 0
    for p in okp:
        tv = [(D.show_atom(a), t) for a, t in p.conds]
        for i, e in enumerate(p.effects):
            if e[0].endswith("utf8_percent_encode"):
                seen_enc += 1
                a = U.shows(e[1])
                good_enc = good_enc and a[1] == "const:ruma_common::percent_encode::PATH_PERCENT_ENCODE_SET" and "Iterator::next(" in a[0] and "path_args" in a[0] and a[0].endswith(".Some.0")
                # guarded by starts_with(segment, ':')
                good_enc = good_enc and any(t and "starts_with(" in s_ and "':'" in s_ for s_, t in tv)
            if e[0].endswith("String::push_str") and "split(" in D.show(e[1][1]) and "segment" not in D.show(e[1][1]):
                seen_plain += 1
    ctx.check(seen_enc > 0 and good_enc, "C16.url", "C16.url:placeholder-encoding", w.where(f), bad_msg="a placeholder segment is not written as the percent-encoded next path argument")
    sel = w.fn(API + "metadata::Metadata::make_endpoint_url")
    calls = [M.callee_name(c) for _, c in M.calls(f["body"])]
    ctx.check(any(c.endswith("VersionHistory::select_path") for c in calls), "C16.url", "C16.url:select_path", w.where(f), bad_msg="the path is not chosen by VersionHistory::select_path")

    # ---- authorization header -----------------------------------------------------------------------------
    ctx.rule("C16.auth_header", "authorization_header per AuthScheme: None/…Optional -> Bearer header iff a token is available; AccessToken/AppserviceToken -> required (NeedsAuthentication); ServerSignatures -> none")
    f = w.fn(API + "metadata::Metadata::authorization_header")
    MD = API + "metadata::"
    dexa = D.Dex(w.lookup, adt_discr=w.adt_discr, ctors=w.ctors,
                 inline=lambda n: "{closure" in n or (n.startswith(MD) and "::" not in n[len(MD):] and "<" not in n[len(MD):]))   # + private free helpers
    ps = dexa.paths(f, [D.sym("self"), D.sym("token")])
    table = {}
    for p in ps:
        if p.kind != "ret":
            continue
        v = [a[2] for a, t in p.conds if a[0] == "variant" and t and D.show(a[1]) == "self.authentication"]
        if not v:
            continue
        getter = [D.show(a[1]).split("SendAccessToken::")[1].split("(")[0] for a, t in p.conds if a[0] == "variant" and "SendAccessToken::" in D.show(a[1])]
        avail = [a[2] for a, t in p.conds if a[0] == "variant" and t and "SendAccessToken::" in D.show(a[1])]
        r = D.show(p.ret)
        out = "needs-auth" if "NeedsAuthentication" in r else ("bearer" if "Bearer" in r or "format" in r else ("none" if r == "Result::Ok(Option::None)" else ("err" if r.startswith("Result::Err") else "?")))
        table.setdefault(v[0], set()).add((getter[0] if getter else "-", avail[0] if avail else "-", out))
    want = {
        "None": {("get_not_required_for_endpoint", "Some", "bearer"), ("get_not_required_for_endpoint", "None", "none")},
        "AccessToken": {("get_required_for_endpoint", "Some", "bearer"), ("get_required_for_endpoint", "None", "needs-auth")},
        "AccessTokenOptional": {("get_required_for_endpoint", "Some", "bearer"), ("get_required_for_endpoint", "None", "none")},
        "AppserviceToken": {("get_required_for_appservice", "Some", "bearer"), ("get_required_for_appservice", "None", "needs-auth")},
        "AppserviceTokenOptional": {("get_required_for_appservice", "Some", "bearer"), ("get_required_for_appservice", "None", "none")},
        "ServerSignatures": {("-", "-", "none")},
    }
    got = {k: {x for x in v if x[2] != "err"} for k, v in table.items()}
    ctx.check(got == want, "C16.auth_header", "C16.auth_header:table", w.where(f), bad_msg=f"{ {k: sorted(v) for k, v in got.items() if want.get(k) != v} }")

    # which SendAccessToken variants hand out their token, per getter (the other half of the table above: a user token passed as IfRequired
    # must not reach an appservice-only endpoint, and only Always is sent where no authentication is asked for)
    GETTERS = {"get_required_for_endpoint": {"IfRequired", "Appservice", "Always"}, "get_not_required_for_endpoint": {"Always"},
               "get_required_for_appservice": {"Appservice", "Always"}}
    adt_sat = w.adts[API + "SendAccessToken"]
    all_vars = {v["name"] for v in adt_sat["variants"]}
    dexg = D.Dex(w.lookup, adt_discr=w.adt_discr, ctors=w.ctors, inline=lambda n: "{closure" in n)
    for gname, want_some in GETTERS.items():
        cands = [g for g in w.all_fns() if re.fullmatch(re.escape(API) + r"SendAccessToken(::<[^>]*>)?::" + gname, g["path"]) and "body" in g]
        if len(cands) != 1:
            ctx.missing("C16.auth_header", f"C16.auth_header:getter:{gname}", f"SendAccessToken::{gname} not found")
            continue
        fg = cands[0]
        gp = [p for p in dexg.paths(fg, [D.sym("self")]) if p.kind == "ret"]
        got_some, bad_g = set(), []
        for var in sorted(all_vars):
            val = lambda a, var=var: (a[2] == var) if a[0] == "variant" and D.show(a[1]) == "self" else None
            sel = D.evaluate(gp, val)
            outs = {D.show(p.ret) for p in sel}
            if outs == {f"Option::Some(self.{var}.0)"}:
                got_some.add(var)
            elif outs != {"Option::None"}:
                bad_g.append((var, sorted(outs)))
        ctx.check(not bad_g and got_some == want_some, "C16.auth_header", f"C16.auth_header:getter:{gname}", w.where(fg),
                  bad_msg=f"SendAccessToken::{gname} hands out the token for {sorted(got_some)} (documented: {sorted(want_some)}){' ; undecided: ' + str(bad_g) if bad_g else ''}: "
                          f"the Authorization header is then not the one the endpoint's AuthScheme prescribes for that kind of token")

    # ---- METADATA -----------------------------------------------------------------------------------------------
    ctx.rule("C16.metadata", "every endpoint's METADATA: all unstable and stable paths carry the same placeholders in the same order; paths start with '/'")
    metas = {k: v["v"] for k, v in w.values.items() if k.endswith("::METADATA") and isinstance(v["v"], dict) and v["v"].get("adt", "").endswith("metadata::Metadata")}
    n_meta = 0
    for k, m in sorted(metas.items()):
        h = m["fields"]["history"]["fields"]
        paths = list(h["unstable_paths"]) + [p[1] for p in h["stable_paths"]]
        phs = [placeholders(p) for p in paths]
        n_meta += 1
        ctx.check(bool(paths) and all(p == phs[0] for p in phs) and all(p.startswith("/") for p in paths), "C16.metadata", f"C16.metadata:{k[:-len('::METADATA')]}",
                  w.where_value(k), bad_msg=f"paths {paths} have different placeholders")
    ctx.floor("endpoints with METADATA", n_meta, 250 if thorough else 60)

    # ---- generated siblings ----------------------------------------------------------------------------------------
    if thorough:
        ctx.rule("C16.siblings", "per endpoint: query carrier, body carrier, path-argument count and HTTP method agree between try_into_http_request and try_from_http_request, "
                                 "and body carrier between try_into_http_response and try_from_http_response")
        n_pairs = 0
        reqs = {}
        for p, l in w.fn_index.items():
            m = re.match(r"(.*)::__request_impls::<impl ruma_common::api::(Outgoing|Incoming)Request for (.*)>::(try_into_http_request|try_from_http_request)$", p)
            if m and "{closure" not in p:
                reqs.setdefault(m.group(3), {})[m.group(2)] = l[0]
        for rty, d in sorted(reqs.items()):
            if "Outgoing" not in d or "Incoming" not in d:
                continue
            n_pairs += 1
            o, i = d["Outgoing"], d["Incoming"]
            oc = [(M.callee_name(c), c.get("fnargs") or []) for _, c in M.calls(o["body"])]
            ic = [(M.callee_name(c), c.get("fnargs") or []) for _, c in M.calls(i["body"])]
            q_out = [a[0] for n_, a in oc if n_ == "serde_html_form::ser::to_string"]
            q_in = [a[-1] for n_, a in ic if n_ == "serde_html_form::de::from_str"]
            b_out = [a[-1] for n_, a in oc if n_.endswith("serde::buf::json_to_buf")]
            b_in = [a[-1] for n_, a in ic if n_ == "serde_json::de::from_slice"]
            arr = [re.match(r"\[&dyn core::fmt::Display; (\d+)\]", t) for t in o["body"]["locals"]]
            n_out = max([int(m_.group(1)) for m_ in arr if m_] or [0])
            tup = [a for n_, a in ic if "SeqDeserializer" not in n_ and n_.startswith("serde_core::de::impls::<impl serde_core::de::Deserialize<'de> for (")]
            n_in = None
            for n_, a in ic:
                m_ = re.match(r"serde_core::de::impls::<impl serde_core::de::Deserialize<'de> for \((.*)\)>::deserialize$", n_)
                if m_:
                    n_in = len([x for x in m_.group(1).split(",") if x.strip()])
            if n_in is None:
                # a single path argument is deserialized as a 1-tuple as well; none -> no deserialization at all
                n_in = 0
            meta_key = rty.rsplit("::", 1)[0] + "::METADATA"
            n_meta_ph = None
            if meta_key in metas:
                h = metas[meta_key]["fields"]["history"]["fields"]
                paths = list(h["unstable_paths"]) + [p_[1] for p_ in h["stable_paths"]]
                n_meta_ph = len(placeholders(paths[0])) if paths else None
            q_ok = q_out == q_in
            if not q_ok and len(q_out) == 1 and len(q_in) == 1:
                # #[ruma_api(query_all)]: the outgoing carrier is a newtype around the map that the incoming side reads
                adt = w.adts.get(q_out[0])
                q_ok = adt is not None and len(adt["variants"]) == 1 and len(adt["variants"][0]["fields"]) == 1 and adt["variants"][0]["fields"][0]["ty"] == q_in[0]
            good = q_ok and b_out == b_in and n_out == n_in and (n_meta_ph is None or n_meta_ph == n_out)
            ctx.check(good, "C16.siblings", f"C16.siblings:{rty}", w.where(o),
                      bad_msg=f"query {q_out} vs {q_in}; body {b_out} vs {b_in}; path args written {n_out}, read {n_in}, placeholders {n_meta_ph}")
        resps = {}
        for p, l in w.fn_index.items():
            m = re.match(r"<(.*) as ruma_common::api::(Outgoing|Incoming)Response>::(try_into_http_response|try_from_http_response)$", p)
            if m:
                resps.setdefault(m.group(1), {})[m.group(2)] = l[0]
        for rty, d in sorted(resps.items()):
            if "Outgoing" not in d or "Incoming" not in d:
                continue
            n_pairs += 1
            oc = [(M.callee_name(c), c.get("fnargs") or []) for _, c in M.calls(d["Outgoing"]["body"])]
            ic = [(M.callee_name(c), c.get("fnargs") or []) for _, c in M.calls(d["Incoming"]["body"])]
            b_out = [a[-1] for n_, a in oc if n_.endswith("serde::buf::json_to_buf")]
            b_in = [a[-1] for n_, a in ic if n_ == "serde_json::de::from_slice"]
            b_ok = b_out == b_in
            if not b_ok and len(b_out) == 1 and not b_in:
                # an empty ResponseBody is written as `{}` and nothing needs to be read back
                adt = w.adts.get(b_out[0])
                b_ok = adt is not None and len(adt["variants"]) == 1 and not adt["variants"][0]["fields"]
            ctx.check(b_ok, "C16.siblings", f"C16.siblings:{rty}", w.where(d["Outgoing"]), bad_msg=f"response body written as {b_out}, read as {b_in}")
        ctx.floor("request/response sibling pairs", n_pairs, 400)
        # raw bodies: the receiving side takes the bytes of the HTTP body as they are
        from . import panic_common as PC
        import json as _json
        n_raw = 0
        VERBATIM = re.compile(r'^(\["call", "(core::convert::AsRef::as_ref|<[^"]*as core::ops::deref::Deref>::deref|<[^"]*as core::convert::AsRef<\[u8\]>>::as_ref)", \[)*'
                              r'\["call", "http::(request::Request|response::Response)::<T>::body", \[\["arg", 1\]\]\]\]*$')
        for group in (reqs, resps):
            for rty, d in sorted(group.items()):
                fn_in = d.get("Incoming")
                if fn_in is None:
                    continue
                body_ = fn_in["body"]
                defs_ = PC.roots(body_)
                for _, c in M.calls(body_):
                    if M.callee_name(c) == "alloc::slice::<impl [T]>::to_vec" and (c.get("fnargs") or [""])[0] == "u8":
                        n_raw += 1
                        e = _json.dumps(PC.expr(body_, defs_, c["args"][0]))
                        ctx.check(VERBATIM.match(e) is not None, "C16.siblings", f"C16.siblings:raw-body:{rty}", w.where(fn_in, c["line"]),
                                  bad_msg=f"the raw body field is not the HTTP body's bytes as they are (value comes from {e[:120]}): e.g. an empty body that is replaced by "
                                          f"`{{}}` for the JSON reader must not reach a #[ruma_api(raw_body)] field")
        ctx.floor("raw-body readers examined", n_raw, 4)
        # the status a response is written with is one the reading side decodes as a response (and not as an error)
        HTTP = {"OK": 200, "CREATED": 201, "ACCEPTED": 202, "NO_CONTENT": 204, "MOVED_PERMANENTLY": 301, "FOUND": 302, "SEE_OTHER": 303, "NOT_MODIFIED": 304,
                "TEMPORARY_REDIRECT": 307, "PERMANENT_REDIRECT": 308}
        n_status = 0
        for rty, d in sorted(resps.items()):
            if "Outgoing" not in d or "Incoming" not in d:
                continue
            bo, bi_ = d["Outgoing"]["body"], d["Incoming"]["body"]
            do_, di_ = PC.roots(bo), PC.roots(bi_)
            written = []
            for _, c in M.calls(bo):
                if M.callee_name(c) == "http::response::Builder::status" and len(c["args"]) == 2:
                    e = PC.expr(bo, do_, c["args"][1])
                    nm_ = str(e[1]).rsplit("::", 1)[-1] if e and e[0] in ("const", "const?") and e[1] is not None else None
                    written.append(HTTP.get(nm_, e[1] if isinstance(e[1], int) else None))
            if not written:
                continue
            accept = None
            for b_ in bi_["blocks"]:
                for st in b_["s"]:
                    if st[0] == "=" and st[2][0] == "bin" and st[2][1] in ("Lt", "Le", "Ge", "Gt") and "StatusCode::as_u16" in _json.dumps(PC.expr(bi_, di_, st[2][2])):
                        lim = PC.expr(bi_, di_, st[2][3])
                        if lim[0] == "const" and isinstance(lim[1], int):
                            # `status < N` guards the decoding, `status >= N` guards the error return: both accept exactly the codes below N
                            strict = st[2][1] in ("Lt", "Ge")
                            accept = (lambda code, n_=lim[1], strict_=strict: code < n_ if strict_ else code <= n_, f"status {'<' if strict else '<='} {lim[1]}")
            if accept is None and any(M.callee_name(c).endswith("StatusCode::is_success") for _, c in M.calls(bi_)):
                accept = (lambda code: 200 <= code < 300, "status.is_success()")
            for code in written:
                n_status += 1
                if code is None or accept is None:
                    ctx.unrecognised("C16.siblings", f"C16.siblings:status:{rty}", w.where(d["Incoming"]), f"written status {code}, acceptance test {accept[1] if accept else None}")
                else:
                    ctx.check(accept[0](code), "C16.siblings", f"C16.siblings:status:{rty}", w.where(d["Incoming"]),
                              bad_msg=f"the response is written with status {code} but the reading side decodes a response only when {accept[1]}: the endpoint's own "
                                      f"success status is turned into an error")
        ctx.floor("response status pairs examined", n_status, 200)

    # ---- XMatrix -----------------------------------------------------------------------------------------------------------
    ctx.rule("C16.xmatrix", "XMatrix: Display writes the parameters destination, key, origin, sig and the parser reads the same names; values are quoted through quote_ascii_string_if_required")
    fd = [p for p in w.fn_index if p.startswith("<ruma_federation_api::authentication::XMatrix as core::fmt::Display>::fmt") and "{closure" not in p]
    fp = w.fn("ruma_federation_api::authentication::XMatrix::parse")

    def str_consts(fn):
        out = set()
        for body in M.all_bodies(fn):
            for b in body["blocks"]:
                for st in b["s"]:
                    if st[0] == "=" and st[2][0] == "use" and st[2][1].get("k") == "const" and isinstance(st[2][1].get("v"), str):
                        out.add(st[2][1]["v"])
                    if st[0] == "=" and st[2][0] == "use" and st[2][1].get("k") == "const" and isinstance(st[2][1].get("v"), list):
                        out.add(bytes(x for x in st[2][1]["v"] if isinstance(x, int) and 32 <= x < 127).decode())
                    if st[0] == "=" and st[2][0] == "agg":
                        for o in st[2][2]:
                            if o.get("k") == "const" and isinstance(o.get("v"), str):
                                out.add(o["v"])
                if b["t"][0] == "call":
                    for a in b["t"][1]["args"]:
                        if a.get("k") == "const" and isinstance(a.get("v"), str):
                            out.add(a["v"])
                        if a.get("k") == "const" and isinstance(a.get("v"), list):
                            out.add(bytes(x for x in a["v"] if isinstance(x, int) and 32 <= x < 127).decode())
        return out
    read = set()
    for fn in w.all_fns():
        if fn["path"].startswith("ruma_federation_api::authentication::XMatrix::parse") and "body" in fn:
            read |= str_consts(fn)
    written = set()
    for p in fd:
        written |= str_consts(w.fn(p))
    for fn in w.all_fns():
        if fn["path"].startswith("<ruma_federation_api::authentication::XMatrix as core::fmt::Display>::fmt") and "body" in fn:
            written |= str_consts(fn)
    wtxt = " ".join(sorted(written))
    names = ["destination", "key", "origin", "sig"]
    ctx.check(all(n_ in read for n_ in names) and all(n_ in wtxt for n_ in names), "C16.xmatrix", "C16.xmatrix:parameter-names", w.where(fp),
              bad_msg=f"written: {sorted(x for x in written if len(x) < 40)}; read: {sorted(x for x in read if len(x) < 20)}")
    quoting = any(any(M.callee_name(c).endswith("quote_ascii_string_if_required") for _, c in M.calls(fn["body"])) for fn in w.all_fns()
                  if fn["path"].startswith("<ruma_federation_api::authentication::XMatrix as core::fmt::Display>::fmt") and "body" in fn)
    ctx.check(quoting, "C16.xmatrix", "C16.xmatrix:quoting", w.where(fp), bad_msg="Display does not quote parameter values")
    # each of the four parameter values goes through the quoting helper: a value that is not a token (a server name with a port, an IPv6 literal)
    # written raw is rejected by the parser
    n_quote = sum(1 for fn in w.all_fns() if fn["path"].startswith("<ruma_federation_api::authentication::XMatrix as core::fmt::Display>::fmt") and "body" in fn
                  for body in M.all_bodies(fn) for _, c in M.calls(body) if M.callee_name(c).endswith("quote_ascii_string_if_required"))
    ctx.check(n_quote >= len(names), "C16.xmatrix", "C16.xmatrix:every-value-quoted", w.where(fp),
              bad_msg=f"Display quotes {n_quote} of the {len(names)} parameter values ({names}): the unquoted one is written raw, e.g. `destination=host:8448` "
                      f"which XMatrix::parse rejects (':' is not a token character)")
    path_selection(ctx, w)
    if ctx.tier == "thorough":
        from .. import witness
        witness.check(ctx, "C16.witness", {"C16VersionHistoryFields": "VersionHistory can be built field by field from another crate, bypassing the path/version checks of VersionHistory::new"})
    escape_parity_rule(ctx, w)
    verbatim_custom_rule(ctx, w)
    version_literal_rule(ctx, w)
    if ctx.tier == "thorough":
        header_write_rule(ctx, w)
        optional_header_rule(ctx, w)
        query_scalar_rule(ctx, w)
        query_sequence_rule(ctx, w)
        error_fields_rule(ctx, w)
        # query / body carrier structs of the API crates: an omitted field must be read back as the omitted value
        from . import C18 as _C18
        _C18.defaults_rule(ctx, w, "C16.defaults", {}, floor=1, only=lambda p_: "ruma_common::" not in p_.split(" for ", 1)[-1][:14])
        _C18.predicate_coverage_rule(ctx, w, "C16.skip-predicates", floor=3)
    ctx.assumptions += ["serde_html_form / serde_json round-trip values of the carrier types; field-level serde symmetry is checked in C18.symmetry",
                        "select_path over arbitrary subsets of versions is not decided (only that it is the function used)"]
    ctx.samples += [{"endpoint": "federation membership::create_join_event::v2", "path_args": 2, "query": "RequestQuery", "body": "RequestBody"}]


def path_selection(ctx, w):
    """C16.path-selection: the decision structure of VersionHistory::{versioning_decision_for, select_path, stable_endpoint_for}."""
    P = "ruma_common::api::metadata::VersionHistory::"
    ctx.rule("C16.path-selection", "versioning_decision_for: Removed iff `removed` is set and ALL supported versions are >= it; otherwise Stable iff a stable "
                                   "path exists and ANY supported version is >= the first stable version; otherwise Unstable (quantifier closures are "
                                   "`versions.iter().all/any(|v| v.is_superset_of(version))` with the captured version identified). select_path: Removed -> "
                                   "Err(EndpointRemoved), Stable -> stable_endpoint_for(versions), Unstable -> unstable() or Err(NoUnstablePath). "
                                   "stable_endpoint_for: stable paths scanned newest first, the first whose version some supported version reaches is returned")
    dex = D.Dex(w.lookup, adt_discr=w.adt_discr, unroll=1, inline=lambda n: "{closure" in n and n.count("{closure") == 1)
    f = w.fn(P + "versioning_decision_for")

    def quant(atom_txt):
        # the inner closure captures exactly one value (the version compared against), whatever the variable is called
        m = re.match(r"^Iterator::(any|all)\(slice::iter\(versions\), closure\[(.+?)\]\{\w+=(.+)\}\)$", atom_txt)
        if not m:
            return None
        clo = w.lookup(m.group(2))
        calls = [M.callee_name(c) for _, c in M.calls(clo["body"])] if clo and "body" in clo else []
        if [c.rsplit("::", 1)[-1] for c in calls] != ["is_superset_of"]:
            return None
        c = [c for _, c in M.calls(clo["body"])][0]
        # v.is_superset_of(version): receiver comes from the closure parameter, argument from the captured version
        a0, a1 = c["args"][0], c["args"][1]
        def from_env(o):
            return o.get("k") in ("copy", "move") and _flows_from_env(clo["body"], o["pl"])
        if from_env(a0) or not from_env(a1):
            return None
        field = {"self.removed.Some.0": "removed", "self.deprecated.Some.0": "deprecated", "VersionHistory::added_in(self).Some.0": "added"}.get(m.group(3))
        return (m.group(1), field) if field else None

    paths = dex.paths(f, [D.sym("self"), D.sym("versions")])
    ctx.floor("versioning decision paths", len(paths), 6)
    n_removed = 0
    for i, pth in enumerate(paths):
        if pth.kind != "ret":
            ctx.violation("C16.path-selection", f"C16.path-selection:decision:{pth.kind}", w.where(f), f"versioning_decision_for has a {pth.kind} path")
            continue
        conds = {}
        unknown = []
        for a, t in pth.conds:
            sa = D.show_atom(a)
            q = quant(sa)
            if q:
                conds[q] = t
            elif sa in ("self.removed is Some", "self.removed is None", "self.deprecated is Some", "self.deprecated is None",
                        "VersionHistory::added_in(self) is Some", "VersionHistory::added_in(self) is None"):
                fld = "removed" if "removed" in sa else "deprecated" if "deprecated" in sa else "added"
                conds[("set", fld)] = t if sa.endswith("Some") else (not t)
            else:
                unknown.append(sa[:80])
        rem = conds.get(("set", "removed")) is True and conds.get(("all", "removed")) is True
        stable = conds.get(("set", "added")) is True and conds.get(("any", "added")) is True
        want = "Removed" if rem else "Stable" if stable else "Unstable"
        consulted = conds.get(("set", "removed")) is not True or ("all", "removed") in conds
        foreign = [k for k in conds if k in (("any", "removed"), ("all", "added"), ("any", "deprecated")) and True]
        got = D.show(pth.ret).split("(")[0].rsplit("::", 1)[-1]
        n_removed += got == "Removed"
        tag = ",".join(f"{k[0]}({k[1]})={'T' if v else 'F'}" for k, v in sorted(conds.items()))
        ctx.check(got == want and consulted and not unknown and not [k for k in foreign if k != ("any", "deprecated")], "C16.path-selection",
                  f"C16.path-selection:decision:{tag}", w.where(f),
                  bad_msg=f"under [{tag}] the decision is {got}, the property prescribes {want}"
                          + ("" if consulted else " (removal is decided without asking whether ALL supported versions removed the endpoint)")
                          + (f"; conditions on {foreign}" if foreign else "") + (f"; unrecognised conditions {unknown}" if unknown else ""))
    ctx.check(n_removed >= 1, "C16.path-selection", "C16.path-selection:decision:removed-reachable", w.where(f), bad_msg="no path returns Removed")

    g = w.fn(P + "select_path")
    sp = dex.paths(g, [D.sym("self"), D.sym("versions")])
    seen = set()
    for pth in sp:
        if pth.kind != "ret":
            continue
        tv = U.true_variants(pth)
        dec = tv.get("VersionHistory::versioning_decision_for(self, versions)")
        r = D.show(pth.ret)
        okk = (dec == "Removed" and r.startswith("Result::Err(IntoHttpError::EndpointRemoved(")) or \
              (dec == "Stable" and r == "Result::Ok(VersionHistory::stable_endpoint_for(self, versions).Some.0)") or \
              (dec == "Unstable" and (r == "Result::Ok(VersionHistory::unstable(self).Some.0)" or r == "Result::Err(IntoHttpError::NoUnstablePath)"))
        key = f"C16.path-selection:select:{dec}:{'ok' if r.startswith('Result::Ok') else 'err'}"
        if key in seen and okk:
            continue
        seen.add(key)
        ctx.check(okk, "C16.path-selection", key, w.where(g), bad_msg=f"decision {dec} yields {r[:120]}")
    ctx.check({k.split(":")[2] for k in seen} >= {"Removed", "Stable", "Unstable"}, "C16.path-selection", "C16.path-selection:select:arms", w.where(g),
              bad_msg=f"select_path arms seen: {sorted(seen)}")

    h = w.fn(P + "stable_endpoint_for")
    hp = [p_ for p_ in dex.paths(h, [D.sym("self"), D.sym("versions")]) if p_.kind == "ret"]
    okk = bool(hp)
    some = 0
    for pth in hp:
        r = D.show(pth.ret)
        conds = [(D.show_atom(a), t) for a, t in pth.conds]
        nexts = [(a, t) for a, t in conds if a.startswith("Iterator::next(") and " is " in a]
        rev = all("Iterator::rev(slice::iter(self.stable_paths))" in a for a, t in nexts)
        if r == "Option::None":
            okk = okk and rev and nexts and nexts[-1][0].endswith("is None") and not any(t for a, t in conds if a.startswith("Iterator::any("))
        else:
            some += 1
            el = [a[:-len(" is Some")] for a, t in nexts if a.endswith(" is Some") and t][-1:]
            anys = [(a, t) for a, t in conds if a.startswith("Iterator::any(slice::iter(versions)")]
            okk = okk and rev and bool(el) and r == f"Option::Some({el[0]}.Some.0.1)" and bool(anys) and anys[-1][1] is True and f"{el[0]}.Some.0.0" in anys[-1][0] \
                and all(not t for a, t in anys[:-1])
    ctx.check(okk and some >= 1, "C16.path-selection", "C16.path-selection:newest-first", w.where(h),
              bad_msg="stable_endpoint_for does not return the path of the first (newest-first) stable entry whose version some supported version reaches")


def _flows_from_env(body, pl):
    """The operand's root local is (transitively, through copies/derefs) read from the closure environment (_1)."""
    root = pl if isinstance(pl, int) else pl["l"]
    seen, work = set(), [root]
    while work:
        l = work.pop()
        if l in seen:
            continue
        seen.add(l)
        if l == 1:
            return True
        for b in body["blocks"]:
            for st in b["s"]:
                if st[0] == "=" and st[1] == l and st[2][0] in ("use", "ref"):
                    o = st[2][1] if st[2][0] == "use" else {"k": "copy", "pl": st[2][2]}
                    if o.get("k") in ("copy", "move"):
                        work.append(o["pl"] if isinstance(o["pl"], int) else o["pl"]["l"])
    return False
