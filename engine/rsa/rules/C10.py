"""C10 — identifier parsing: totality of validators/accessors, validate-before-construct for every generated constructor,
byte-for-byte storage, who-may-call for unchecked constructors, grammar constants."""
import json, os, re
from .. import dex as D, world as W, mir as M
from . import panic_common as PC, util as U, tables as T

LEVEL = "other"
EXPLANATION = (
    "Every expansion of the IdZst derive is analysed in MIR (all identifier types, all generated constructors): a constructor that "
    "takes text reaches an unchecked constructor only after the type's single validate function returned Ok on that very string, and "
    "all constructors of a type use the same validate (borrowed, boxed, Rc, Arc, owned, FromStr and both serde forms accept the same "
    "language); unchecked constructors and as_str are pure pointer casts / field projections (byte-for-byte storage); Display, "
    "Serialize and the comparisons go through as_str; hand-written callers of unchecked constructors are classified by argument "
    "provenance (existing id, sub-slice of a validated id, recomposed string) and a recomposed string must be re-validated; every "
    "panic / truncation site in the validators and accessors is discharged or reviewed (A3); ID_MAX_BYTES = 255 with refusal exactly "
    "above it, sigils per type. The exact accepted language of each validator is NOT decided (no static rule decides grammar acceptance).")
ID = "ruma_common::identifiers::"
UNCHECKED = ("from_borrowed", "from_box", "from_rc", "from_arc")
# reviewed conversions between identifier types whose languages are nested (source language is a subset of the target's), or that
# are checked by a discriminating test in the same function
CONVERSIONS_OK = {
    "RoomOrAliasId<-RoomId": "every room id is a room-or-alias id",
    "RoomOrAliasId<-RoomAliasId": "every room alias id is a room-or-alias id",
    "RoomId<-RoomOrAliasId": "under the variant test (first byte '!') of the same function",
    "RoomAliasId<-RoomOrAliasId": "under the variant test (first byte '#') of the same function",
}


def id_types(w):
    out = {}
    for p, l in w.fn_index.items():
        if p.endswith("::from_borrowed") and "IdZst" in (l[0].get("mac") or []):
            t = p[:-len("::from_borrowed")]
            out[t] = t.replace("::<", "<")
    return out


def family(w, tdisp):
    """IdZst-generated functions that mention the type in their path."""
    return [fn for fn in w.all_fns() if "IdZst" in (fn.get("mac") or []) and tdisp in fn["path"].replace("::<", "<") and "body" in fn]


def short_ty(t):
    return D.strip_generics(t).rstrip(":").rsplit("::", 1)[-1]


def run(ctx):
    fx = ctx.facts("A")
    crates = ["ruma_common", "ruma_identifiers_validation", "ruma_events", "ruma_state_res", "ruma_signatures", "ruma_federation_api"]
    w = W.World(fx, crates)
    types = id_types(w)
    ctx.floor("identifier types", len(types), 17)
    dex = D.Dex(w.lookup, adt_discr=w.adt_discr, effects=lambda n: True)

    # ---- A3 on validators and identifier code ---------------------------------------------------
    ctx.rule("C10.sites", "every panic/truncation/bounds site of ruma-identifiers-validation and ruma_common::identifiers is discharged by a verified guard or reviewed")
    PC.site_rule(ctx, w, ["ruma_identifiers_validation", "ruma_common"], "C10.sites",
                 fn_filter=lambda fn: fn["crate"] == "ruma_identifiers_validation" or "::identifiers::" in fn["path"], floor=40)

    validate_rules(ctx, w, types, dex)

    # ---- storage ----------------------------------------------------------------------------------------
    ctx.rule("C10.storage", "from_borrowed/from_box/from_rc/from_arc/into_owned are pointer casts of their argument (only Box/Rc/Arc into_raw/from_raw calls), as_str/as_bytes project the str field: bytes are stored unchanged")
    allowed = ("into_raw", "from_raw")
    n = 0
    for t, tdisp in sorted(types.items()):
        for m in UNCHECKED + ("into_owned",):
            l = w.fn_index.get(f"{t}::{m}")
            if not l:
                continue
            fn = l[0]
            n += 1
            calls = [M.callee_name(c) for _, c in M.calls(fn["body"])]
            bad = [c for c in calls if c.rsplit("::", 1)[-1] not in allowed or not c.startswith("alloc::")]
            ps = dex.paths(fn, [D.sym("s")])
            shape = len(ps) == 1 and ps[0].kind == "ret" and "s" in D.show(ps[0].ret) and D.show(ps[0].ret).replace("Box::from_raw(", "").replace("Rc::from_raw(", "") \
                .replace("Arc::from_raw(", "").replace("Box::into_raw(", "").replace("Rc::into_raw(", "").replace("Arc::into_raw(", "").strip(")") == "s"
            ctx.check(not bad and shape, "C10.storage", f"C10.storage:{short_ty(t)}::{m}", w.where(fn),
                      bad_msg=f"not a pure pointer cast: calls {bad}, returns {[D.show(p.ret)[:80] for p in ps]}")
        l = w.fn_index.get(f"{t}::as_str")
        if l:
            ps = dex.paths(l[0], [D.sym("s")])
            n += 1
            ctx.check(len(ps) == 1 and re.fullmatch(r"s\.\d", D.show(ps[0].ret) or "") is not None and not list(M.calls(l[0]["body"])), "C10.storage",
                      f"C10.storage:{short_ty(t)}::as_str", w.where(l[0]), bad_msg=f"as_str returns {[D.show(p.ret)[:80] for p in ps]}")
    ctx.floor("storage functions", n, 80)

    # ---- Display / Serialize through as_str ------------------------------------------------------------
    ctx.rule("C10.views", "Display and Serialize of every identifier type write exactly as_str(self)")
    n = 0
    for t, tdisp in sorted(types.items()):
        for tr, expect in (("serde_core::ser::Serialize", "Serializer::serialize_str(x, {}::as_str(s))"), ("core::fmt::Display", None)):
            cands = [p for p in w.fn_index if p.replace("::<", "<").startswith(f"<{tdisp} as {tr}>::")]
            for p in cands:
                fn = w.fn(p)
                ps = dex.paths(fn, [D.sym("s"), D.sym("x")])
                n += 1
                r = D.show(ps[0].ret) if len(ps) == 1 else ""
                if expect:
                    good = r == expect.format(short_ty(t))
                else:
                    good = f"new_display({short_ty(t)}::as_str(s))" in r and r.startswith("Formatter::write_fmt(x, ")
                ctx.check(good, "C10.views", f"C10.views:{short_ty(t)}:{tr.rsplit('::', 1)[-1]}", w.where(fn), bad_msg=f"{tr} is {r[:150]}")
    ctx.floor("view impls", n, 30)

    # ---- hand-written callers of unchecked constructors -----------------------------------------------
    unchecked_rule(ctx, w, types, "C10.unchecked")

    # ---- constants ------------------------------------------------------------------------------------------
    ctx.rule("C10.constants", "ID_MAX_BYTES = 255 and validate_id refuses exactly the lengths above it (length test present in this build configuration); sigils per type")
    ctx.check(w.value("ruma_identifiers_validation::ID_MAX_BYTES") == 255, "C10.constants", "C10.constants:ID_MAX_BYTES",
              w.where_value("ruma_identifiers_validation::ID_MAX_BYTES"), bad_msg="ID_MAX_BYTES is not 255")
    f = w.fn("ruma_identifiers_validation::validate_id")
    dexn = D.Dex(w.lookup, adt_discr=w.adt_discr)
    paths = dexn.paths(f, [D.sym("id"), D.sym("first_byte")])
    for nlen, accept in ((255, True), (256, False), (1, True), (100000, False)):
        val = U.int_valuation({"str::len(id)": nlen, "len(id)": nlen})
        sel = D.evaluate(paths, val)
        too_long = [p for p in sel if "MaximumLengthExceeded" in D.show(p.ret)]
        others = [p for p in sel if "MaximumLengthExceeded" not in D.show(p.ret)]
        good = (accept and not too_long and others) or (not accept and too_long and not others)
        ctx.check(bool(good), "C10.constants", f"C10.constants:length={nlen}", w.where(f),
                  bad_msg=f"an identifier of {nlen} bytes is {'not ' if accept else ''}refused for its length")
    sig = {"user_id": 64, "room_id": 33, "room_alias_id": 35, "event_id": 36}
    for mod, byte in sig.items():
        fv = w.fn(f"ruma_identifiers_validation::{mod}::validate")
        consts = set()
        for _, c in M.calls(fv["body"]):
            if M.callee_name(c).startswith("ruma_identifiers_validation::") and len(c["args"]) == 2 and c["args"][1].get("k") == "const":
                consts.add(c["args"][1].get("v"))
        ctx.check(byte in consts, "C10.constants", f"C10.constants:sigil:{mod}", w.where(fv), bad_msg=f"sigil byte passed by {mod}::validate is {consts}, expected {byte} ({chr(byte)!r})")
    server_name_rules(ctx, w)
    length_rules(ctx, w)
    byte_limit_rules(ctx, w)
    charset_rules(ctx, w)
    or_alias_dispatch_rule(ctx, w, "C10.or-alias")
    localpart_rules(ctx, w)
    split_agreement(ctx, w, "C10.split-agreement")
    forms_rules(ctx, w, types)
    # room version ids: each known variant <-> exactly its canonical literal (stored byte-for-byte otherwise)
    T.version_rules(ctx, w, [], rule="C10.room-version")
    if ctx.tier == "thorough":
        # build configuration B adds the `rand` feature of ruma-common: the generating constructors (RoomId::new, EventId::new, UserId::new, ...)
        wb = W.World(ctx.facts("B"), ["ruma_common", "ruma_identifiers_validation"])
        unchecked_rule(ctx, wb, id_types(wb), "C10.unchecked-B", floor=7, skip={fn["path"] for fn in w.all_fns()})   # only what configuration A does not have
        from .. import witness
        witness.check(ctx, "C10.witness", {"C10FromBorrowed": "UserId::from_borrowed is callable from another crate: identifiers can be created without validation", "C10FromBox": "RoomAliasId::from_box is callable from another crate: identifiers can be created without validation"})
    from . import controls
    controls.sites(ctx, "C10.sites")
    ctx.assumptions += ["of the accepted language of each validator only the listed clauses are decided (non-empty host, host alphabet, port = 1-5 digits that parse as u16, "
                        "length limit, sigils, separator agreement); acceptance of every identifier of the spec's recommended grammar is not"]
    ctx.samples += [{"type": "UserId", "constructor": "parse_arc", "rule": "from_arc(s) only after user_id::validate(s) is Ok"}]


def validate_rules(ctx, w, types=None, dex=None):
    """validate-before-construct: the identifier type invariant that the reviewed accessor sites (category INV-ID) rely on."""
    types = types or id_types(w)
    dex = dex or D.Dex(w.lookup, adt_discr=w.adt_discr, effects=lambda n: True)
    # ---- validate-before-construct ------------------------------------------------------------------
    ctx.rule("C10.validate", "for every validated identifier type, each IdZst-generated function that receives text and calls an unchecked "
                             "constructor does so only on paths where the type's validate function returned Ok for that same string; all such functions of a type use one validate")
    n_ctor = 0
    validators = {}
    for t, tdisp in sorted(types.items()):
        tf = [p for p in w.fn_index if p.replace("::<", "<").startswith(f"<&'a {tdisp} as core::convert::TryFrom<&'a str>>::try_from")]
        if not tf:
            continue  # unvalidated string newtype (DeviceId, TransactionId, ...): any string is a member
        f0 = w.fn(tf[0])
        vals = [M.callee_name(c) for _, c in M.calls(f0["body"]) if "validat" in M.callee_name(c).rsplit("::", 2)[-1] or "validat" in M.callee_name(c)]
        if len(set(vals)) != 1:
            ctx.unrecognised("C10.validate", f"C10.validate:{short_ty(t)}:validator", w.where(f0), f"cannot identify the validate function: {vals}")
            continue
        V = vals[0]
        validators[t] = V
        for fn in family(w, tdisp):
            argc = fn["body"]["argc"]
            ptys = fn["body"]["locals"][1:argc + 1]
            takes_id = any(tdisp.split("<")[0] in pt.replace("::<", "<") for pt in ptys)
            calls_unchecked = [c for _, c in M.calls(fn["body"]) if M.callee_name(c).rsplit("::", 1)[-1] in UNCHECKED and
                               M.callee_name(c).replace("::<", "<").startswith(tdisp.split("<")[0])]
            if not calls_unchecked or takes_id:
                continue
            n_ctor += 1
            args = [D.sym(f"a{i}") for i in range(argc)]
            try:
                paths = dex.paths(fn, args)
            except D.Unrecognised as e:
                ctx.unrecognised("C10.validate", f"C10.validate:{fn['path']}", w.where(fn), str(e))
                continue
            good, why = True, ""
            for p in paths:
                tv = U.true_variants(p)
                for i, e in enumerate(p.effects):
                    if e[0].rsplit("::", 1)[-1] in UNCHECKED and e[0].replace("::<", "<").startswith(tdisp.split("<")[0]):
                        arg = D.show(e[1][0])
                        prior = [x for x in p.effects[:i] if x[0] == V or x[0].split("::<")[0] == V.split("::<")[0]]
                        okv = [x for x in prior if D.show(x[1][0]) == arg and tv.get(D.show(U_ret(x))) == "Ok"]
                        if not okv:
                            good = False
                            why = f"{e[0].rsplit('::', 1)[-1]}({arg}) without a successful {V.rsplit('::', 2)[-2]}::validate({arg}) before it"
            ctx.check(good, "C10.validate", f"C10.validate:{fn['path']}", w.where(fn), bad_msg=why)
    ctx.count("validated_id_types", len(validators))
    ctx.floor("constructors checked for validate-before-construct", n_ctor, 40)
    ctx.floor("validated identifier types", len(validators), 10)



def invariant_rules(ctx, w):
    """The rules that establish what a constructed identifier looks like. C17 runs them too: its reviewed accessor sites (`port().unwrap()`,
    `&s[..colon_idx]`) are panic-free only while the validators keep guaranteeing the shape the accessors assume."""
    validate_rules(ctx, w)
    server_name_rules(ctx, w)
    length_rules(ctx, w)
    localpart_rules(ctx, w)
    split_agreement(ctx, w, "C10.split-agreement")


def unchecked_rule(ctx, w, types, rule, floor=10, skip=()):
    ctx.rule(rule, "hand-written calls of unchecked constructors: the argument is (a) an existing identifier of a type whose language is "
                              "contained in the target's (reviewed pairs), (b) a sub-slice of a validated identifier taken by an accessor, or "
                              "(c) a recomposed string - which must have been re-validated; anything else is reported")
    n = 0
    for fn in w.all_fns():
        if "IdZst" in (fn.get("mac") or []) or "body" not in fn or fn["path"] in skip:
            continue
        for body in M.all_bodies(fn):
            defs = PC.roots(body)
            for bi, c in M.calls(body):
                name = M.callee_name(c)
                m = name.rsplit("::", 1)[-1]
                if m not in UNCHECKED or not name.startswith(ID):
                    continue
                n += 1
                target = short_ty(name.rsplit("::", 1)[0])
                e = PC.expr(body, defs, c["args"][0])
                txt = json.dumps(e)
                key = f"{rule}:{fn['path']}->{target}::{m}"
                where = w.where(fn, c["line"])
                if "alloc::fmt::format" in txt or "push_str" in txt or "String::with_capacity" in txt or is_string_build(body, c["args"][0]):
                    # recomposition: a validate call on the same string must dominate
                    ctx.violation(rule, key + ":recomposed-not-revalidated", where,
                                  f"{fn['path']} builds the identifier text and passes it to {target}::{m} without validating the result "
                                  f"(e.g. parts that are individually valid can exceed 255 bytes or contain the separator)")
                elif "Index" in txt and "::index" in txt:
                    src = [t_ for t_ in types.values() if short_ty(t_) + "::as_str" in txt]
                    ctx.check(bool(src) or "as_str" in txt, rule, key + ":subslice", where, ok_msg="sub-slice of a validated identifier",
                              bad_msg="sub-slice of something that is not a validated identifier")
                else:
                    srcs = sorted({short_ty(t_) for t_ in types.values() if short_ty(t_) + "::as_str" in txt or short_ty(t_) + ">::as_ref" in txt or
                                   short_ty(t_) + " as " in txt})
                    pair_ok = [s for s in srcs if f"{target}<-{s}" in CONVERSIONS_OK or s == target]
                    generated = re.fullmatch(r'\["call", "<alloc::string::String as core::ops::deref::Deref>::deref", \[\["call", "<T as alloc::string::ToString>::to_string", '
                                             r'\[\["call", "uuid::fmt::<impl uuid::Uuid>::simple", \[\["call", "uuid::v4::<impl uuid::Uuid>::new_v4", \[\]\]\]\]\]\]\]\]', txt) is not None or \
                        re.fullmatch(r'\["cast", "\*const str", \["field", \["field", \["call", "ruma_common::identifiers::generate_localpart", \[\["const", \d+\]\]\], "0"\], "pointer"\]\]', txt) is not None
                    if generated:
                        ctx.ok(rule, key + ":generated", where, "the whole text is a generated token (simple-format v4 UUID: 32 lower-case hex digits; or N random ASCII "
                                                              "alphanumerics): within every identifier grammar that has one, far below 255 bytes")
                    elif "_priv_const_new" in fn["path"]:
                        ctx.ok(rule, key + ":const-new", where, "private constructor behind the compile-time validating macro")
                    elif pair_ok and target in ("RoomId", "RoomAliasId") and pair_ok[0] == "RoomOrAliasId":
                        # narrowing conversion: re-verified, not only reviewed - on every path the constructor of `target` is reached only under
                        # the variant test that says the text is a `target`
                        # (`is_room_id()` / `is_room_alias_id()` are thin wrappers over `variant()`: analysed in place)
                        dexv = D.Dex(w.lookup, adt_discr=w.adt_discr, effects=lambda n_: n_.rsplit("::", 1)[-1] in UNCHECKED,
                                     inline=lambda n_: "{closure" in n_ or (n_.startswith("ruma_common::identifiers::room_or_alias_id::RoomOrAliasId::") and
                                                                            n_.rsplit("::", 1)[-1] not in ("variant", "as_str", "as_bytes") and n_.rsplit("::", 1)[-1] not in UNCHECKED))
                        badv = []
                        try:
                            for p_ in dexv.paths(fn, [D.sym(f"a{i}") for i in range(fn["body"]["argc"])]):
                                tv = U.true_variants(p_)
                                var = {v_ for k_, v_ in tv.items() if re.search(r"RoomOrAliasId::variant\(", k_)}
                                # the enum has two variants: a failed test for one of them is a test for the other
                                for a_, t_ in p_.conds:
                                    sa_ = D.show_atom(a_)
                                    m_ = re.search(r"\b(RoomAliasId|RoomId)\b\)?$", sa_) if "RoomOrAliasId::variant(" in sa_ else None
                                    if m_ and a_[0] in ("variant", "eq"):
                                        named = m_.group(1)
                                        var.add(named if t_ else ("RoomId" if named == "RoomAliasId" else "RoomAliasId"))
                                for e_ in p_.effects:
                                    if short_ty(e_[0].rsplit("::", 1)[0]) == target and var != {target}:
                                        badv.append(sorted(var) or ["no variant test"])
                        except D.Unrecognised as ex:
                            badv.append([str(ex)[:80]])
                        ctx.check(not badv, rule, key + f":conversion:{pair_ok[0]}", where, ok_msg=CONVERSIONS_OK[f"{target}<-{pair_ok[0]}"] + " [re-verified on every path]",
                                  bad_msg=f"{fn['path']} builds a {target} from a RoomOrAliasId on a path where the variant test says {badv[:2]}: the text has the other "
                                          f"sigil, so an identifier is built that {target}::parse rejects (and whose accessors look for a separator that need not exist)")
                    elif pair_ok:
                        ctx.ok(rule, key + f":conversion:{pair_ok[0]}", where, CONVERSIONS_OK.get(f"{target}<-{pair_ok[0]}", "same type"))
                    else:
                        ctx.violation(rule, key + ":unclassified", where, f"argument provenance {txt[:200]} is none of the reviewed classes")
    ctx.floor(f"hand-written unchecked constructor calls ({rule})", n, floor)



def is_string_build(body, op):
    """The operand is (a reference into) a local String that is built with push/push_str/format in this body."""
    if op.get("k") not in ("copy", "move"):
        return False
    return False


def U_ret(effect):
    name, args = effect[0], effect[1]
    return D.sym(f"{D.short_name(name)}({', '.join(D.show(a) for a in args)})")


def server_name_rules(ctx, w):
    """C10.server_name: the decision table of server_name::validate (DEX) against the grammar named in the property:
    non-empty hostname; optional port of 1-5 digits; and agreement with the accessor ServerName::port()."""
    ctx.rule("C10.server_name", "server_name::validate accepts only if (a) the hostname part is non-empty (an explicit test excludes end_of_host == 0 on the "
                                "`host:port` branch; bracketed and port-less forms are non-empty by construction), (b) a port, when present, passes an "
                                "all-ASCII-digit test and a length <= 5 test, and (c) it parses as the integer type that ServerName::port() unwraps")
    f = w.fn("ruma_identifiers_validation::server_name::validate")
    # private helpers of the validator module are inlined so that a check moved into a helper looks the same
    dex = D.Dex(w.lookup, adt_discr=w.adt_discr, effects=lambda n: True,
                inline=lambda n: n.startswith("ruma_identifiers_validation::server_name::") and "{closure" not in n)
    paths = dex.paths(f, [D.sym("s")])
    okp = [p for p in paths if p.kind == "ret" and not U.is_err(p.ret)]
    ctx.floor("server_name::validate accepting paths", len(okp), 3)
    bad_kinds = [p for p in paths if p.kind not in ("ret",)]
    ctx.check(not bad_kinds, "C10.server_name", "C10.server_name:total", w.where(f), bad_msg=f"validate has non-returning paths: {[p.kind for p in bad_kinds]}")

    def parse_types(fn):
        out = []
        mod = fn["path"].rsplit("::", 1)[0] if fn["path"].startswith("ruma_identifiers_validation::") else fn["path"]
        fns = [g for g in w.crates[fn["path"].split("::")[0]].all_fns() if (g["path"] == fn["path"] or g["path"].startswith(mod + "::")) and "body" in g]
        for body in [b for g in fns for b in M.all_bodies(g)]:
            for bi, c in M.calls(body):
                if M.callee_name(c).endswith("::parse") and "str" in M.callee_name(c):
                    out.append((c.get("fnargs") or ["?"])[0])
        return out
    acc = w.fn("ruma_common::identifiers::server_name::ServerName::port")
    acc_ty = parse_types(acc)
    ctx.check(len(acc_ty) == 1, "C10.server_name", "C10.server_name:accessor-parse", w.where(acc), bad_msg=f"ServerName::port parses {acc_ty}")
    val_ty = parse_types(f)

    for i, p in enumerate(okp):
        atoms = [(D.show_atom(a).replace(" < ", "<"), v) for a, v in p.conds]   # order atoms are printed as `a < b`
        txt = dict(atoms)
        bracket = txt.get("str::starts_with(s, '[')") is True
        has_colon = txt.get("str::find(s, ':') is Some") is True
        form = "bracket" if bracket else ("host:port" if has_colon else "host")
        has_port = any(a.endswith("[]==58") and v for a, v in atoms)
        # (a) non-empty hostname
        if form == "host:port":
            e = re.escape("str::find(s, ':').Some.0")
            pats = [(rf"^{e}==0$", False), (rf"^0=={e}$", False), (rf"^0<{e}$", True), (rf"^{e}<1$", False), (rf"^{e}>0$", True), (rf"^{e}>=1$", True),
                    (rf"^str::is_empty\(traits::index\(s, RangeTo::RangeTo\(end={e}\)\)\)$", False), (r"^str::starts_with\(s, ':'\)$", False)]
            good = any(re.match(pt, a) and v is val for a, v in atoms for pt, val in pats)
            ctx.check(good, "C10.server_name", f"C10.server_name:nonempty-host:{form}:{'port' if has_port else 'noport'}", w.where(f),
                      bad_msg="an accepting path of the `host:port` form has no test that the hostname before ':' is non-empty: e.g. `:8080` "
                              "(and `@user::8080`) is accepted; the property requires a non-empty hostname")
        else:
            ctx.ok("C10.server_name", f"C10.server_name:nonempty-host:{form}:{'port' if has_port else 'noport'}", w.where(f),
                   "non-empty by construction (whole non-empty string, or bracketed literal)")
        # (a') hostname alphabet: ASCII letters, digits, '-' and '.' only
        if form in ("host", "host:port"):
            hp = [(a, v) for a, v in p.conds if re.match(r"^Iterator::(any|all)\((str::bytes|str::chars)\(traits::index\(s, RangeTo", D.show_atom(a))]
            verdict = "no character test on the hostname"
            for a, v in hp:
                sa = D.show_atom(a)
                m = re.match(r"^Iterator::(any|all)\((str::bytes|str::chars)\(.*\), (?:closure|fn)\[([^\]]+)\](\{.*\})?\)$", sa)
                if not m:
                    continue
                quant, unit, clo = m.group(1), m.group(2), w.lookup(m.group(3))
                if clo is None or "body" not in clo:
                    continue
                tt = byte_truth_table(w, clo)
                if isinstance(tt, str):
                    verdict = tt
                    continue
                allowed = {b for b in range(256) if (tt[b] if quant == "all" else not tt[b])} if (v is True) == (quant == "all") else None
                want = {b for b in range(128) if chr(b).isalnum() or chr(b) in "-."}
                if allowed is None:
                    verdict = f"the {quant}(..) test is taken on the wrong outcome"
                elif unit != "str::bytes" and any(b >= 128 for b in allowed):
                    verdict = "non-ASCII characters pass the hostname test"
                elif allowed == want:
                    verdict = None
                else:
                    extra, missing = sorted(allowed - want)[:6], sorted(want - allowed)[:6]
                    verdict = f"hostname bytes accepted beyond the grammar: {[chr(b) if 32 <= b < 127 else hex(b) for b in extra]}; refused although allowed: {[chr(b) for b in missing]}"
            ctx.check(verdict is None, "C10.server_name", f"C10.server_name:host-charset:{form}:{'port' if has_port else 'noport'}", w.where(f),
                      ok_msg="hostname bytes are exactly [A-Za-z0-9.-]",
                      bad_msg=f"{verdict}: the property allows only a hostname (ASCII letters, digits, '-', '.'), an IPv4 or a bracketed IPv6 literal; "
                              f"e.g. `exämple.com` or `example.cоm` (Cyrillic o) must be rejected")
        # (a'') bracketed literal: decided by the IPv6 address parser; an extra character test on the literal may only refuse what no IPv6
        # literal contains (IPv6char of the grammar = hex digits, ':' and '.', the last for an embedded dotted IPv4 tail)
        if form == "bracket":
            LIT = r"traits::index\(s, Range::Range\(start=1, end=.*\)\)"
            parsed = any(re.match(rf"^str::parse\({LIT}\) is Ok$", a) and v is True for a, v in atoms) and any("Ipv6Addr" in t for t in val_ty)
            verdict = None if parsed else "the bracketed literal is not handed to the Ipv6Addr parser on this accepting path"
            want = {ord(c) for c in "0123456789abcdefABCDEF:."}
            for a, v in p.conds:
                m = re.match(rf"^Iterator::(any|all)\((?:str::bytes|str::chars)\({LIT}\), (?:closure|fn)\[([^\]]+)\](\{{.*\}})?\)$", D.show_atom(a))
                if not m:
                    continue
                clo = w.lookup(m.group(2))
                tt = byte_truth_table(w, clo) if clo is not None and "body" in clo else "the character predicate has no body"
                if isinstance(tt, str):
                    verdict = tt
                    continue
                quant = m.group(1)
                allowed = {b for b in range(256) if (tt[b] if quant == "all" else not tt[b])} if (v is True) == (quant == "all") else set(range(256))
                if not want <= allowed:
                    verdict = (f"an extra character test on the bracketed literal refuses {[chr(b) for b in sorted(want - allowed)]}, which IPv6 literals contain "
                               f"(e.g. `[::ffff:192.0.2.1]` is a valid IPv6 literal and is rejected)")
            ctx.check(verdict is None, "C10.server_name", f"C10.server_name:ipv6-literal:{'port' if has_port else 'noport'}", w.where(f),
                      ok_msg="bracketed literal accepted iff Ipv6Addr parses it (no narrower character pre-filter)", bad_msg=str(verdict))
        # (b), (c) the port
        if has_port:
            ports = [a for a, v in atoms if a.startswith("str::parse(traits::index(s, RangeFrom") and a.endswith(" is Ok") and v]
            ctx.check(len(ports) == 1 and acc_ty and acc_ty[0] in val_ty, "C10.server_name", f"C10.server_name:port-parse:{form}", w.where(f),
                      ok_msg=f"port slice parses as {acc_ty[0] if acc_ty else '?'}, the type ServerName::port() unwraps",
                      bad_msg=f"accepting path with a port does not require str::parse::<{acc_ty[0] if acc_ty else '?'}> of the port slice to succeed "
                              f"(validate parses {val_ty}); ServerName::port() unwraps that parse and would panic")
            P = r"traits::index\(s, RangeFrom::RangeFrom\(start=.*\)\)"
            digit = False
            for a, v in p.conds:
                sa = D.show_atom(a)
                m = re.match(rf"^Iterator::all\(str::bytes\({P}\), closure\[(.+)\]\)$", sa)
                if m and v is True:
                    clo = w.lookup(m.group(1))
                    names = {M.callee_name(c).rsplit("::", 1)[-1] for b in M.all_bodies(clo) for _, c in M.calls(b)} if clo else set()
                    digit = digit or names == {"is_ascii_digit"}
            length = any(re.match(rf"^str::len\({P}\)(>5|>=6)$", a) and v is False or re.match(rf"^str::len\({P}\)(<=5|<6)$", a) and v is True or
                         re.match(rf"^(5<|6<=)str::len\({P}\)$", a) and v is False or re.match(rf"^RangeInclusive::contains\(.*str::len\({P}\)", a) and v is True
                         for a, v in atoms)
            ctx.check(digit and length, "C10.server_name", f"C10.server_name:port-digits:{form}", w.where(f),
                      bad_msg=f"accepting path with a port lacks {'an all-ASCII-digit test' if not digit else ''}{' and ' if not digit and not length else ''}"
                              f"{'a length <= 5 test' if not length else ''} on the port slice: e.g. `example.org:+80` / `example.org:000080` are accepted; "
                              "the property allows only a port of 1-5 digits")


SIGILS = {"user_id": 64, "room_id": 33, "room_alias_id": 35, "event_id": 36}


def _rejects_nul_and_colon(w, fn_path, need_colon=True):
    """Does the Ok path of the localpart check at fn_path require the absence of NUL (and ':')?  Returns (bool, explanation)."""
    f = w.lookup(fn_path)
    if f is None or "body" not in f:
        return False, f"{fn_path} not found"
    dx = D.Dex(w.lookup, adt_discr=w.adt_discr, effects=lambda n: True)
    oks = [p for p in dx.paths(f, [D.sym("l")]) if p.kind == "ret" and not U.is_err(p.ret)]
    if not oks:
        return False, "no accepting path"
    need = {0} | ({ord(":")} if need_colon else set())
    for p in oks:
        excluded = set()
        for a, t in p.conds:
            sa = D.show_atom(a)
            m = re.match(r"^(?:str|slice)::contains\((?:str::as_bytes\()?l\)?, (.*)\)$", sa)
            if m and t is False and not re.match(r"(closure|fn)\[", m.group(1)):
                lits = re.findall(r"'((?:\\x[0-9a-f]{2})|[^'])'", m.group(1))
                for lit in lits:
                    excluded.add(int(lit[2:], 16) if lit.startswith("\\x") else ord(lit))
                if re.fullmatch(r"\d+", m.group(1).strip()):
                    excluded.add(int(m.group(1)))
                continue
            m = re.match(r"^Iterator::(any|all)\((str::bytes|str::chars)\(l\), (?:closure|fn)\[([^\]]+)\](\{.*\})?\)$", sa) or \
                re.match(r"^str::(contains)\((l), (?:closure|fn)\[([^\]]+)\](\{.*\})?\)$", sa)      # a predicate pattern: contains(|c| ..) == chars().any(..)
            if m:
                clo = w.lookup(m.group(3))
                tt = byte_truth_table(w, clo) if clo is not None and "body" in clo else "closure not found"
                if isinstance(tt, str):
                    return False, tt
                quant = m.group(1)
                # any(pred) false -> every byte has pred false: excluded = {b: pred(b)};  all(pred) true -> excluded = {b: not pred(b)}
                if quant in ("any", "contains") and t is False:
                    excluded |= {b for b in range(256) if tt[b]}
                elif quant == "all" and t is True:
                    excluded |= {b for b in range(256) if not tt[b]}
        if not need <= excluded:
            return False, f"an accepting path excludes only the bytes {sorted(excluded)[:8]} (needs {sorted(need)})"
    return True, "every accepting path excludes NUL" + (" and ':'" if need_colon else "")


def localpart_rules(ctx, w):
    """C10.localpart: no NUL (or colon) in the localpart of user IDs, room aliases and room IDs."""
    IV = "ruma_identifiers_validation::"
    ctx.rule("C10.localpart", "user ID and room alias validators: every accepting path has a successful localpart check of exactly the text between the sigil "
                              "and the first ':' and that check refuses NUL and ':'; room IDs (opaque): every accepting path has a NUL test of the whole string")
    CHECKS = {IV + "localpart_is_backwards_compatible": "backwards-compatible", IV + "user_id::localpart_is_fully_conforming": "fully-conforming"}
    dex = D.Dex(w.lookup, adt_discr=w.adt_discr, effects=lambda n: True,
                inline=lambda n: n.startswith(IV) and "{closure" not in n and n not in (IV + "validate_id", IV + "server_name::validate") and n not in CHECKS)
    verdicts = {c: _rejects_nul_and_colon(w, c) for c in CHECKS}
    n = 0
    for mod in ["user_id", "room_alias_id", "room_id", "room_id_or_alias_id"]:
        f = w.fn(f"{IV}{mod}::validate")
        forms = {}
        for p in dex.paths(f, [D.sym("s")]):
            if p.kind != "ret" or U.is_err(p.ret):
                continue
            n += 1
            conds = [(D.show_atom(a), t) for a, t in p.conds]
            for c in CHECKS:             # `check(localpart)` returned as the validator's own result: accepted iff the check is Ok
                if D.show(p.ret).startswith(c + "("):
                    conds.append((D.show(p.ret) + " is Ok", True))
            sigil = next((re.search(r"validate_id\(s, (\d+)\)", a).group(1) for a, t in conds if re.search(r"validate_id\(s, (\d+)\) is Ok", a) and t), "?")
            why = None
            # whole-string NUL test
            if any(re.match(r"^(?:str|slice)::contains\((?:str::as_bytes\()?s\)?, (0|'\\x00')\)$", a) and t is False for a, t in conds):
                why = "NUL test on the whole identifier"
            for c, label in CHECKS.items():
                for a, t in conds:
                    m = re.match(rf"^{re.escape(c)}\((.*)\) is Ok$", a)
                    if m and t:
                        arg = m.group(1)
                        localpart = re.fullmatch(r"traits::index\(s, Range::Range\(start=1, end=str::find\(s, ':'\)\.Some\.0\)\)", arg) is not None or arg == "s"
                        if not localpart:
                            why = why or f"!the {label} check is applied to `{arg[:60]}`, not to the text between the sigil and the first ':'"
                        elif not verdicts[c][0]:
                            why = why or f"!{c.rsplit('::', 1)[-1]}: {verdicts[c][1]}"
                        else:
                            why = f"{label} localpart check ({verdicts[c][1]})"
            key = f"C10.localpart:{mod}:sigil={sigil}"
            good = why is not None and not why.startswith("!")
            forms[key] = (forms.get(key, (True, ""))[0] and good, why)
        for key, (good, why) in sorted(forms.items()):
            ctx.check(good, "C10.localpart", key, w.where(f), ok_msg=why or "",
                      bad_msg=(why or "!an accepting path has neither a localpart check nor a NUL test")[1:] + ": an identifier with a NUL byte (or a second "
                              "colon-delimited part) in its localpart is accepted, e.g. `#ru\\0ma:example.com`")
    ctx.floor("accepting paths examined for the localpart rule", n, 5)


def forms_rules(ctx, w, types):
    """C10.forms: the borrowed and the owned form of an identifier hash, compare and order as their string form."""
    ctx.rule("C10.forms", "Hash / PartialEq / Ord / PartialOrd of every identifier type and of its Owned form end in the corresponding operation on `str` "
                          "(`as_str()`), directly or through another impl of the same type: a map keyed by OwnedX can be queried with &X (Borrow contract), "
                          "and equal strings are equal identifiers in every form")
    TRAITS = {"core::hash::Hash": "hash", "core::cmp::PartialEq": "eq", "core::cmp::Ord": "cmp", "core::cmp::PartialOrd": "partial_cmp"}
    n = 0
    for t, tdisp in sorted(types.items()):
        mod, name = tdisp.rsplit("::", 1)
        base = name.split("<")[0]
        for form in (name, "Owned" + name):
            for tr, meth in TRAITS.items():
                fn = w.lookup(f"<{mod}::{form} as {tr}>::{meth}")
                if fn is None or "body" not in fn:
                    continue
                n += 1
                ops = []
                for body in M.all_bodies(fn):
                    for _, c in M.calls(body):
                        cn = M.callee_name(c)
                        if re.search(r"(Hash|PartialEq|Ord|PartialOrd)(<[^>]*>)?( for [^>]*)?>::(hash|eq|ne|cmp|partial_cmp|lt|le|gt|ge)$", cn) or \
                           re.search(r"impl core::(hash::Hash|cmp::\w+)(<[^>]*>)? for .*>::(hash|eq|ne|cmp|partial_cmp)$", cn):
                            ops.append((cn, (c.get("fnargs") or ["?"])[0]))
                bad = [(cn, a) for cn, a in ops if a not in ("str", "&str") and not re.search(r"::(Owned)?" + re.escape(base) + r"\b", cn.split(" as ")[0])]
                key = f"C10.forms:{short_ty(t) if form == name else 'Owned' + short_ty(t)}:{tr.rsplit('::', 1)[-1]}"
                if not ops:
                    ctx.unrecognised("C10.forms", key, w.where(fn), "no hash/comparison operation found in the impl")
                else:
                    ctx.check(not bad, "C10.forms", key, w.where(fn),
                              bad_msg=f"{meth} works on {[a for _, a in bad]} instead of the string form ({bad[0][0][:90] if bad else ''}): e.g. `[u8]` and `str` "
                                      f"hash differently, so the owned and borrowed forms of one identifier disagree")
    ctx.floor("identifier Hash/Eq/Ord impls examined", n, 100)


ASCII_ONLY_CALLEE = re.compile(r"(::is_ascii_\w+|::contains|::eq|::ne|::matches|::any|::all|::iter|::into_iter|::next|::as_bytes|::deref)$")


def byte_limit_rules(ctx, w):
    """C10.byte-limit: the opaque identifiers with a length limit (client secret and session ID: 255; room version: 32) are never accepted
    with more bytes than the limit. Decided from the validator's paths: with byte length = limit + 1 no accepting path is feasible; a limit
    on the number of code points counts only together with an accepting condition that every character is ASCII."""
    ctx.rule("C10.byte-limit", "client_secret::validate / validate_session_id (255) and room_version_id::validate (32): no accepting path is feasible for an input "
                               "one byte over the limit - the test is on str::len (bytes), or on the code point count together with an all-ASCII character class")
    dex = D.Dex(w.lookup, adt_discr=w.adt_discr, inline=lambda n: False)
    for name, limit in (("ruma_identifiers_validation::client_secret::validate", 255), ("ruma_common::identifiers::session_id::validate_session_id", 255),
                        ("ruma_identifiers_validation::room_version_id::validate", 32)):
        f = w.fn(name)
        paths = dex.paths(f, [D.sym("s")])
        okp = [p for p in paths if p.kind == "ret" and U.is_ok(p.ret)]
        ctx.floor(f"accepting paths of {name}", len(okp), 1)
        over = {"re:^(?:\\w+::)*len\\((?:(?:\\w+::)*as_bytes\\()?s\\)?\\)$": limit + 1}
        left = [p for p in D.evaluate(okp, U.int_valuation(over))]
        how = "byte length"
        if left:
            # a code point limit bounds the bytes only if accepted strings are ASCII (class read off the validator, see accepted_chars)
            got, _how = accepted_chars(w, f)
            if got is not None and all(ord(c_) < 128 for c_ in got):
                over2 = dict(over)
                over2["Iterator::count(str::chars(s))"] = limit + 1
                left = [p for p in D.evaluate(left, U.int_valuation(over2))]
                how = "code point count with an all-ASCII class"
        key = f"C10.byte-limit:{name.split('::')[-2]}"
        ctx.check(not left, "C10.byte-limit", key, w.where(f),
                  bad_msg=f"{name} accepts an input of {limit + 1} bytes: accepting path under {[(D.show_atom(a), t) for a, t in (left[0].conds if left else [])]} "
                          f"(a limit on code points with a non-ASCII character class admits up to {4 * limit} bytes)", ok_msg=how)


ALNUM = "0123456789abcdefghijklmnopqrstuvwxyzABCDEFGHIJKLMNOPQRSTUVWXYZ"
# identifier -> the characters its grammar is made of (Matrix specification: client secret / session ID `[0-9a-zA-Z.=_-]`; key version of a
# server signing key `[a-zA-Z0-9_]`; unpadded/padded standard base64 alphabet for a base64 public key)
CHARSETS = {"client_secret": ALNUM + ".=_-", "server_signing_key_version": ALNUM + "_", "base64_public_key": ALNUM + "+/="}


def accepted_chars(w, f, okp_all=None):
    """The set of code points 0..=255 a validator lets through, read off its accepting paths. Recognised forms of the all-characters test:
    `s.chars()/bytes().all(P)` true, `.any(P)` false (P a closure or a function; complemented for any), or a hand-written loop over
    `s.chars()` / `s.bytes()` (decided from the paths that see exactly one character). Returns (set, how) or (None, reason)."""
    dex = D.Dex(w.lookup, adt_discr=w.adt_discr, inline=lambda n: False, unroll=2)
    paths = dex.paths(f, [D.sym("s")])
    okp = [p for p in paths if p.kind == "ret" and U.is_ok(p.ret)]
    if not okp:
        return None, "no accepting path"
    ITER = r"(?:str::chars|str::bytes|str::char_indices|slice::iter\((?:str::)?as_bytes)\(s\)\)?"
    preds, loops = set(), False
    for p in okp:
        found = []
        for a_, t in p.conds:
            m = re.search(r"Iterator::(all|any)\(" + ITER + r", (?:closure|fn)\[([^\]]+)\]\)", D.show_atom(a_))
            if m and ((m.group(1) == "all") == bool(t)):
                found.append((m.group(1), m.group(2)))
        if found:
            preds.update(found)
        elif any(re.match(r"^Iterator::next\((?:IntoIterator::into_iter\()?" + ITER, D.show_atom(a_)) for a_, _ in p.conds):
            loops = True
        else:
            return None, "an accepting path has no all-characters test"
    if preds and loops:
        return None, "accepting paths mix iterator adaptors and hand-written loops"
    if preds:
        got = None
        for kind_, name in sorted(preds):
            table = byte_truth_table(w, w.fn(name))
            if isinstance(table, str):
                return None, table
            chars = {chr(b) for b in range(256) if table[b] == (kind_ == "all")}
            got = chars if got is None else got & chars
        return got, "all/any over the characters"
    # hand-written loop: paths that take exactly one element (first next() Some, second None)
    FIRST = re.compile(r"^(Iterator::next\((?:IntoIterator::into_iter\()?" + ITER + r"\)?\))$")
    one = []
    sym = None
    for p in paths:
        if p.kind != "ret":
            continue
        tv = U.true_variants(p)
        nx = sorted(k for k in tv if re.match(r"^Iterator::next\(", k) and "(s)" in k)
        firsts = [k for k in nx if "#" not in k]
        if len(firsts) == 1 and tv[firsts[0]] == "Some" and all(tv[k] == "None" for k in nx if k != firsts[0]) and len(nx) == 2:
            one.append(p)
            sym = firsts[0] + ".Some.0"
    if not one or sym is None:
        return None, "the character loop of the validator was not recognised"
    got = set()
    try:
        for b in range(256):
            sel = D.evaluate(one, char_valuation(b, sym, strict=False))
            outs = {U.is_ok(p_.ret) for p_ in sel}
            if True in outs:
                got.add(chr(b))
    except KeyError as e:
        return None, f"the character loop uses `{e.args[0][:60]}`, which is not an ASCII classification"
    return got, "hand-written loop (paths over one character)"


def charset_rules(ctx, w):
    """C10.charset: the opaque identifiers whose grammar is a plain ASCII character class are accepted only if every character is in that
    class. The class is read off the validator (see accepted_chars) as a truth table over the code points 0..=255 and must equal the
    grammar's class; a Unicode-aware classification (char::is_alphanumeric) cannot be tabulated and accepts letters and digits of every script."""
    ctx.rule("C10.charset", "client_secret / server_signing_key_version / base64_public_key validators: every accepting path requires all characters to pass a "
                            "predicate whose truth table (code points 0..=255, ASCII classifications by their documented meaning) equals the grammar's ASCII class; "
                            "Unicode-aware classifications are refused")
    for mod, chars in CHARSETS.items():
        f = w.fn(f"ruma_identifiers_validation::{mod}::validate")
        key = f"C10.charset:{mod}"
        got, how = accepted_chars(w, f)
        if got is None:
            ctx.violation("C10.charset", key, w.where(f), f"{mod}::validate does not restrict the characters to the grammar's class [{chars[62:]} and ASCII letters "
                                                           f"and digits]: {how} (e.g. `é` or `٣` is accepted)")
            continue
        ctx.check(got == set(chars), "C10.charset", key, w.where(f),
                  bad_msg=f"{mod}::validate does not restrict the characters to the grammar's class [{chars[62:]} and ASCII letters and digits]: accepts "
                          f"{sorted(got - set(chars))[:8]} beyond / refuses {sorted(set(chars) - got)[:8]} of it", ok_msg=f"class = ASCII alphanumerics + {chars[62:]!r} ({how})")


def or_alias_dispatch_rule(ctx, w, rule):
    """RoomOrAliasId's language is the union of RoomId's and RoomAliasId's: its validator hands the text to the validator of the type its sigil
    names and adds no condition of its own. (The unchecked conversions From<&RoomId> / From<&RoomAliasId> for &RoomOrAliasId rely on it, and so
    does MatrixId: an event URI parses its room part as RoomOrAliasId, a room URI as RoomId.)"""
    ctx.rule(rule, "room_id_or_alias_id::validate: first byte '!' -> room_id::validate(s), '#' -> room_alias_id::validate(s), anything else -> MissingLeadingSigil; "
                   "no other outcome (a stricter or laxer union breaks the conversions between the three types)")
    f = w.fn("ruma_identifiers_validation::room_id_or_alias_id::validate")
    dex = D.Dex(w.lookup, adt_discr=w.adt_discr, inline=lambda n: "{closure" in n)
    paths = dex.paths(f, [D.sym("s")])
    got = {}
    bad = []
    for p in paths:
        if p.kind != "ret":
            bad.append(p.kind)
            continue
        first = None
        for a, t in p.conds:
            m = re.fullmatch(r"(?:slice::first\((?:str::as_bytes\()?s\)?\)\.Some\.0|.*\[0\].*)==(\d+)", D.show_atom(a).replace(" ", ""))
            if m and t:
                first = chr(int(m.group(1)))
            m = re.fullmatch(r"(?:\w+::)*starts_with\(s, '(.)'\)", D.show_atom(a))
            if m and t:
                first = m.group(1)
            if a[0] == "int" and t and isinstance(a[2], int) and ("first(" in D.show(a[1]) or "[0]" in D.show(a[1])):
                first = chr(a[2])
        got.setdefault(first, set()).add(D.show(p.ret))
    want = {"!": {"room_id::validate(s)"}, "#": {"room_alias_id::validate(s)"}, None: {"Result::Err(Error::MissingLeadingSigil)"}}
    ctx.check(not bad and got == want, rule, f"{rule}:dispatch", w.where(f),
              bad_msg=f"outcomes by first byte: { {k: sorted(v) for k, v in got.items()} }{' ; non-returning paths: ' + str(bad) if bad else ''} - the room-or-alias language is "
                      f"not the union of the room id and room alias languages (e.g. a room id without server name, accepted by RoomId, is refused as RoomOrAliasId, "
                      f"so an event URI that was formatted from it does not parse back)")


def length_rules(ctx, w):
    """C10.length: every accepting path of the validators of sigil identifiers passes through validate_id(whole input, sigil) == Ok,
    the one place that enforces the leading sigil and the 255-byte limit (C10.constants checks validate_id itself)."""
    IV = "ruma_identifiers_validation::"
    ctx.rule("C10.length", "user/room/alias/room-or-alias/event ID validators: every accepting path has validate_id(input, sigil) == Ok "
                           "(crate-local helpers inlined), with the sigil of that identifier type; so no form of the identifier escapes the sigil and "
                           "255-byte tests")
    dex = D.Dex(w.lookup, adt_discr=w.adt_discr, effects=lambda n: True,
                inline=lambda n: n.startswith(IV) and "{closure" not in n and n not in (IV + "validate_id", IV + "server_name::validate"))
    n_ok = 0
    for mod in ["user_id", "room_id", "room_alias_id", "room_id_or_alias_id", "event_id"]:
        f = w.fn(f"{IV}{mod}::validate")
        want = {SIGILS[mod]} if mod in SIGILS else {33, 35}
        forms = {}
        for p in dex.paths(f, [D.sym("s")]):
            if p.kind != "ret":
                ctx.violation("C10.length", f"C10.length:{mod}:{p.kind}", w.where(f), f"{mod}::validate has a {p.kind} path")
                continue
            if U.is_err(p.ret):
                continue
            n_ok += 1
            tv = U.true_variants(p)
            vids = [(D.show(e[1][0]), D.show(e[1][1])) for e in p.effects if e[0] == IV + "validate_id"]
            # validate_id(..)? followed by Ok(()), or its result returned as is
            good = [v for v in vids if v[0] == "s" and v[1].isdigit() and int(v[1]) in want and
                    (tv.get(f"{IV}validate_id(s, {v[1]})") == "Ok" or D.show(p.ret) == f"{IV}validate_id(s, {v[1]})")]
            colon = any(e[0] == IV + "server_name::validate" for e in p.effects)
            key = f"C10.length:{mod}:{'with-server-name' if colon else 'opaque'}:{good[0][1] if good else 'none'}"
            forms[key] = bool(good)
        for key, good in sorted(forms.items()):
            ctx.check(good, "C10.length", key, w.where(f),
                      bad_msg=f"an accepting path of {mod}::validate does not pass through validate_id(input, sigil): that form of the identifier is "
                              f"accepted without the 255-byte limit (e.g. `$` followed by 300 characters and no colon)")
    ctx.floor("identifier accepting paths", n_ok, 7)


# accessor type (module::Type under ruma_common::identifiers) -> validator functions that checked the structure the accessor relies on
SPLIT_VALIDATORS = {
    "event_id::EventId": ["ruma_identifiers_validation::parse_id"],
    "key_id::KeyId": ["ruma_identifiers_validation::key_id::validate"],
    "room_alias_id::RoomAliasId": ["ruma_identifiers_validation::parse_id"],
    "room_or_alias_id::RoomOrAliasId": ["ruma_identifiers_validation::parse_id"],
    "user_id::UserId": ["ruma_identifiers_validation::parse_id"],
    "server_name::ServerName": ["ruma_identifiers_validation::server_name::validate"],
}
SEARCHES = ("find", "rfind", "split_once", "rsplit_once", "split", "rsplit", "splitn", "rsplitn", "split_terminator", "rsplit_terminator")


def _separator_searches(w, fns):
    out = set()
    for fn in fns:
        for body in M.all_bodies(fn):
            for _, c in M.calls(body):
                n = M.callee_name(c)
                last = n.rsplit("::", 1)[-1]
                if "<impl str>" in n and last in SEARCHES:
                    pats = [a.get("v") for a in c["args"][1:] if a.get("k") == "const" and isinstance(a.get("v"), str)]
                    if pats and pats[0] in (":", "[", "]"):
                        # what matters is WHICH occurrence is taken: split_once cuts at the first one like find, rsplit_once at the last one like rfind
                        out.add(({"split_once": "find", "rsplit_once": "rfind"}.get(last, last), pats[0]))
    return out


def split_agreement(ctx, w, rule, only=None):
    """Accessors re-find the separators that the validator checked: they must search the same way (first vs last occurrence, same
    separator). `KeyId::colon_idx` with rfind(':') would take `ed25519:bridge:1` apart as (`ed25519:bridge`, `1`) although validate and
    from_parts use the first colon."""
    ctx.rule(rule, "every separator search (find/rfind/split.. of ':', '[', ']') in the component accessors of an identifier type also occurs, with the "
                   "same search function and separator, in the validator that accepted the identifier; so the accessor splits where the validator did")
    n = 0
    for ty, validators in SPLIT_VALIDATORS.items():
        if only and ty not in only:
            continue
        pre = "ruma_common::identifiers::" + ty
        acc = [f for f in w.all_fns() if f["path"].startswith(pre) and "body" in f]
        val = [w.fn(v) for v in validators]
        # the validator may delegate the search to crate-local helpers (one level)
        extra = []
        for v in val:
            for _, c in M.calls(v["body"]):
                g = w.lookup(M.callee_name(c))
                if g is not None and g["path"].startswith("ruma_identifiers_validation::") and "body" in g:
                    extra.append(g)
        vs = _separator_searches(w, val + extra)
        for fn in acc:
            for s_ in sorted(_separator_searches(w, [fn])):
                n += 1
                meth = PC.norm_path(fn["path"])[len("ruma_common::identifiers::"):]
                ctx.check(s_ in vs, rule, f"{rule}:{meth}:{s_[0]}({s_[1]!r})", w.where(fn),
                          ok_msg=f"same search as {validators[0].rsplit('::', 2)[-2:]}",
                          bad_msg=f"the accessor searches with {s_[0]}({s_[1]!r}) but the validator {validators} only checked {sorted(vs)}: for an identifier "
                                  f"with several separators the accessor splits at a place the validator did not look at (e.g. key id `ed25519:bridge:1`)")
    ctx.floor(f"{rule} accessor searches", n, 1 if only else 8)


U8_PREDICATES = {
    "is_ascii_alphanumeric": lambda b: chr(b).isalnum() and b < 128, "is_ascii_alphabetic": lambda b: chr(b).isalpha() and b < 128,
    "is_ascii_digit": lambda b: 48 <= b <= 57, "is_ascii_lowercase": lambda b: 97 <= b <= 122, "is_ascii_uppercase": lambda b: 65 <= b <= 90,
    "is_ascii_hexdigit": lambda b: chr(b) in "0123456789abcdefABCDEF", "is_ascii": lambda b: b < 128,
    "is_ascii_punctuation": lambda b: b < 128 and not chr(b).isalnum() and 33 <= b <= 126, "is_ascii_whitespace": lambda b: b in (9, 10, 12, 13, 32),
    "is_ascii_control": lambda b: b < 32 or b == 127, "is_ascii_graphic": lambda b: 33 <= b <= 126,
}


def char_valuation(b, sym, strict):
    """Valuation of the atoms about one byte / char `sym` when its value is b. strict: an atom that cannot be interpreted raises KeyError;
    otherwise atoms that do not mention the symbol are left undecided (None) and only uninterpretable atoms ABOUT the symbol raise."""
    S = re.escape(sym)

    def val(atom):
        t = D.show_atom(atom)
        if not strict and sym not in t:
            return None
        if atom[0] == "bool":
            m = re.match(rf"^(?:\w+::)*(is_ascii\w*)\({S}\)$", t)
            if m and m.group(1) in U8_PREDICATES:
                return U8_PREDICATES[m.group(1)](b)
            m = re.match(rf"^(?:\w+::)*contains\('([^']*)', {S}\)$", t)      # `".=_-".contains(c)`
            if m:
                return chr(b) in m.group(1)
            raise KeyError(t)
        if atom[0] == "int":         # switch on the byte / char value (`matches!(c, ':' | '\\0')`)
            if D.show(atom[1]) in (sym, f"cast({sym})") and isinstance(atom[2], int):
                return b == atom[2]
            raise KeyError(t)
        if atom[0] in ("eq", "cmp"):
            def num(x):
                if D.is_const(x):
                    return ord(x[1]) if isinstance(x[1], str) and len(x[1]) == 1 else (x[1] if isinstance(x[1], int) else None)
                return b if D.show(x) in (sym, f"cast({sym})") else None
            l, r = (num(atom[1]), num(atom[2])) if atom[0] == "eq" else (num(atom[2]), num(atom[3]))
            if l is None or r is None:
                raise KeyError(t)
            return l == r if atom[0] == "eq" else l < r
        raise KeyError(t)
    return val


def byte_truth_table(w, clo):
    """Truth value of a `|b: u8| -> bool` (or `|c: char|`) closure for b in 0..=255, from its DEX paths; core's ASCII classification methods are
    interpreted by their documented meaning. Returns a list of 256 bools, or a string saying what could not be interpreted (e.g. a
    Unicode-aware `char::is_alphanumeric`)."""
    dx = D.Dex(w.lookup, adt_discr=w.adt_discr, inline=lambda n: n.startswith("ruma_identifiers_validation::") and "{closure" not in n)
    paths = dx.paths(clo, [D.sym("env"), D.sym("b")] if "{closure" in clo["path"].rsplit("::", 1)[-1] else [D.sym("b")])   # closure or plain fn
    if any(p.kind != "ret" for p in paths):
        return "the character predicate has a non-returning path"

    def valuation(b):
        return char_valuation(b, "b", strict=True)
    table = []
    try:
        for b in range(256):
            val = valuation(b)
            sel = D.evaluate(paths, val)
            outs = {D.eval_bool(p_.ret, val) for p_ in sel}
            if len(outs) != 1 or None in outs:
                return f"the character predicate is not decided for byte {b}"
            table.append(outs.pop())
    except KeyError as e:
        return f"the character predicate uses `{e.args[0][:60]}`, which is not an ASCII classification"
    return table
