"""C20 — power-level helper predicates agree with the authorization rules (same spec model as C08) and the push condition."""
import itertools, re
from .. import dex as D, world as W, mir as M, authmodel as A
from . import util as U
from .C08 import load_model
from .C08_levels import int_of

LEVEL = "translation_validation"
EXPLANATION = (
    "The boolean formulas of RoomPowerLevels::{user_can_ban(_user), user_can_unban(_user), user_can_kick(_user), user_can_invite, "
    "user_can_send_message, user_can_send_state, user_can_trigger_room_notification, for_user, for_message, for_state, for_action} are "
    "extracted from MIR (DEX) and compared, under every weak ordering of the levels involved, with the accept decision of the "
    "specification's authorization model (spec/auth_rules.py, the one C08 compares the implementation of auth_check with) for the "
    "corresponding event sent by a joined member, and with the SenderNotificationPermission push condition's formula. Defaults: the "
    "content type's constructor/serde defaults equal the specification's, and From<RoomPowerLevelsEventContent> copies all ten fields. "
    "String-typed levels before v10 are a parser choice and are not decided.")
P = "ruma_events::room::power_levels::"
H = P + "RoomPowerLevels::"
LV = (0, 1, 2, 3)


def helper_truth(paths, sc):
    """Truth value(s) of a bool-returning helper under the scenario."""
    out = set()
    for p in D.evaluate(paths, sc):
        if p.kind == "ret":
            out.add(D.eval_bool(p.ret, sc))
    return out


def push_context_rule(ctx, w, rule):
    """From<RoomPowerLevels> for PushConditionPowerLevelsCtx is a field-by-field copy (shared with C12: sender_notification_permission is evaluated in it)."""
    # ---- the context the push condition is evaluated in carries the same levels -----------------------------------------------------------
    fcx = [w.fn(k) for k in w.fn_index if k.endswith("for ruma_common::push::condition::PushConditionPowerLevelsCtx>::from") and "RoomPowerLevels>" in k]
    if not fcx:
        ctx.missing(rule, f"{rule}:push-context", "From<RoomPowerLevels> for PushConditionPowerLevelsCtx not found")
    else:
        rets = {D.show(p.ret) for p in D.Dex(w.lookup, adt_discr=w.adt_discr, ctors=w.ctors).paths(fcx[0], [D.sym("c")]) if p.kind == "ret"}
        want_ctx = "PushConditionPowerLevelsCtx::PushConditionPowerLevelsCtx(users=c.users, users_default=c.users_default, notifications=c.notifications)"
        ctx.check(rets == {want_ctx}, rule, f"{rule}:push-context", w.where(fcx[0]),
                  bad_msg=f"the push-condition context is not a field-by-field copy of the power levels ({[r[:140] for r in rets][:1]}): the sender_notification_permission "
                          f"condition then sees other levels than user_can_trigger_room_notification")


def run(ctx):
    fx = ctx.facts("A")
    w = W.World(fx, ["ruma_events", "ruma_common", "ruma_state_res"])
    spec = load_model()
    # helpers may be written in terms of each other (user_can_ban_user = user_can_ban && outranks): other methods of the type are inlined,
    # except the level getters that the scenarios assign values to
    GETTERS = {"for_user", "for_message", "for_state", "for_action"}
    dex = D.Dex(w.lookup, adt_discr=w.adt_discr, unroll=1,
                inline=lambda n: "{closure" in n or (n.startswith(H) and "::" not in n[len(H):] and n[len(H):] not in GETTERS))
    rule = "C20.helpers"
    ctx.rule(rule, "helper(user[, target]) == the authorization model accepts the corresponding event from that user as a joined member, for every weak ordering of the levels")

    def ints(a=None, t=None, ban=None, kick=None, invite=None, req=None, notif=None):
        i = []
        if a is not None:
            i.append((r"^RoomPowerLevels::for_user\(self, a\)$", a))
        if t is not None:
            i.append((r"^RoomPowerLevels::for_user\(self, t\)$", t))
        for name, v in (("ban", ban), ("kick", kick), ("invite", invite)):
            if v is not None:
                i.append((r"^self\." + name + "$", v))
        if req is not None:
            i.append((r"^RoomPowerLevels::for_(message|state)\(self, ty\)$", req))
        if notif is not None:
            i.append((r"^self\.notifications\.room$", notif))
        return i
    n = 0

    def cmp_all(name, args, scen_iter, want_fn, label):
        nonlocal n
        f = w.fn(H + name)
        paths = dex.paths(f, [D.sym(x) for x in args])
        bad = []
        k = 0
        for kw in scen_iter:
            sc = A.Scenario(ints=ints(**kw))
            got = helper_truth(paths, sc)
            want = want_fn(kw)
            k += 1
            if got != {want}:
                bad.append((kw, got, want))
        n += k
        ctx.check(not bad, rule, f"{rule}:{name}", w.where(f), ok_msg=f"{k} orderings agree with the authorization model ({label})",
                  bad_msg=f"{len(bad)} disagreements with the authorization rules ({label}), first {bad[:2]}")

    fl = {"knocking": True}
    cmp_all("user_can_ban_user", ["self", "a", "t"], (dict(a=a, t=t, ban=b) for a, t, b in itertools.product(LV, LV, LV)),
            lambda k: spec.member_ban(dict(sender_membership="Join", sender_pl=k["a"], ban_pl=k["ban"], target_pl=k["t"]), fl) == "allow", "m.room.member ban")
    cmp_all("user_can_kick_user", ["self", "a", "t"], (dict(a=a, t=t, kick=x, ban=b) for a, t, x, b in itertools.product(LV, LV, LV, LV)),
            lambda k: all(spec.member_leave(dict(sender_is_target=False, sender_membership="Join", target_membership=tm, sender_pl=k["a"], ban_pl=k["ban"],
                                                 kick_pl=k["kick"], target_pl=k["t"]), fl) == "allow" for tm in ("Join", "Invite")), "m.room.member leave of a joined/invited target")
    cmp_all("user_can_unban_user", ["self", "a", "t"], (dict(a=a, t=t, kick=x, ban=b) for a, t, x, b in itertools.product(LV, LV, LV, LV)),
            lambda k: spec.member_leave(dict(sender_is_target=False, sender_membership="Join", target_membership="Ban", sender_pl=k["a"], ban_pl=k["ban"],
                                             kick_pl=k["kick"], target_pl=k["t"]), fl) == "allow", "m.room.member leave of a banned target")
    cmp_all("user_can_invite", ["self", "a"], (dict(a=a, invite=i) for a, i in itertools.product(LV, LV)),
            lambda k: spec.member_invite(dict(third_party_invite=False, sender_membership="Join", target_membership="Leave", sender_pl=k["a"], invite_pl=k["invite"]), fl) == "allow",
            "m.room.member invite")
    top = dict(type="RoomMessage", create_in_state=True, create_in_auth_events=True, federate=True, same_server_as_creator=True, state_key_is_sender_server=False,
               sender_membership="Join", invite_pl=0, state_key_starts_with_at=False, state_key_is_sender=False)
    flags0 = {"special_case_room_aliases": False, "special_case_room_redaction": False}
    for name in ("user_can_send_message", "user_can_send_state"):
        cmp_all(name, ["self", "a", "ty"], (dict(a=a, req=r) for a, r in itertools.product(LV, LV)),
                lambda k: spec.top_level(dict(top, sender_pl=k["a"], required_pl=k["req"]), flags0) == "allow", "required level of the event type")
    # "can ban / kick / unban somebody at all": there is a target level for which the *_user form holds
    cmp_all("user_can_ban", ["self", "a"], (dict(a=a, ban=b) for a, b in itertools.product(LV, LV)), lambda k: k["a"] >= k["ban"], "sender >= ban")
    cmp_all("user_can_kick", ["self", "a"], (dict(a=a, kick=b) for a, b in itertools.product(LV, LV)), lambda k: k["a"] >= k["kick"], "sender >= kick")
    cmp_all("user_can_unban", ["self", "a"], (dict(a=a, kick=x, ban=b) for a, x, b in itertools.product(LV, LV, LV)), lambda k: k["a"] >= k["ban"] and k["a"] >= k["kick"], "sender >= ban and kick")
    cmp_all("user_can_trigger_room_notification", ["self", "a"], (dict(a=a, notif=x) for a, x in itertools.product(LV, LV)), lambda k: k["a"] >= k["notif"], "sender >= notifications.room")
    # redaction: own events need the level of m.room.redaction; events of others additionally the `redact` level (the authorization rules accept a
    # redaction event from its required level on; whether it takes effect on somebody else's event is the `redact` test)
    for name, want_fn in (("user_can_redact_own_event", lambda a_, rq, rd: a_ >= rq), ("user_can_redact_event_of_other", lambda a_, rq, rd: a_ >= rq and a_ >= rd)):
        fr_ = w.fn(H + name)
        pr_ = dex.paths(fr_, [D.sym("self"), D.sym("a")])
        badr, kr = [], 0
        for a_, rq, rd in itertools.product(LV, LV, LV):
            sc = A.Scenario(ints=[(r"^RoomPowerLevels::for_user\(self, a\)$", a_), (r"^RoomPowerLevels::for_message\(self, MessageLikeEventType::RoomRedaction\)$", rq),
                                  (r"^self\.redact$", rd)])
            got = helper_truth(pr_, sc)
            kr += 1
            if got != {want_fn(a_, rq, rd)}:
                badr.append((dict(a=a_, redaction_event_level=rq, redact=rd), got, want_fn(a_, rq, rd)))
        n += kr
        ctx.check(not badr, rule, f"{rule}:{name}", w.where(fr_), ok_msg=f"{kr} orderings agree", bad_msg=f"{len(badr)} disagreements, first {badr[:2]}")
    # changing somebody's power level: the sender may send m.room.power_levels and the `users` entry rule of the authorization rules admits SOME change
    # of the target's entry (an absent entry is not compared with anything: users_default plays no part in that rule)
    fch = w.fn(H + "user_can_change_user_power_level")
    pch = dex.paths(fch, [D.sym("self"), D.sym("a"), D.sym("t")])
    badc, kc = [], 0
    for a_, req, same, listed, c_, d_ in itertools.product(LV, LV, (False, True), (False, True), LV, LV):
        cur = c_ if listed else None
        sc = A.Scenario(ints=[(r"^RoomPowerLevels::for_user\(self, a\)$", a_), (r"^RoomPowerLevels::for_state\(self, StateEventType::RoomPowerLevels\)$", req),
                              (r"^BTreeMap::get\(self\.users, t\)\.Some\.0$", c_), (r"^RoomPowerLevels::for_user\(self, t\)$", c_ if listed else d_)],
                        eqs=[(r"^(a==t|t==a)$", same)], wrappers=[(r"^BTreeMap::get\(self\.users, t\)$", "Some" if listed else "None")])
        got = helper_truth(pch, sc)
        can_send = spec.top_level(dict(top, sender_pl=a_, required_pl=req), flags0) == "allow"       # the required-level test of the top-level rules
        some_change = any(spec.users_entry_change(dict(current=cur, new=nv, user_is_sender=same, sender_pl=a_), {}) == "ok" for nv in (None, a_ - 1, a_) if nv != cur)
        want = can_send and some_change
        kc += 1
        if got != {want}:
            badc.append((dict(a=a_, required=req, same_user=same, target_entry=cur, users_default=d_), got, want))
    n += kc
    ctx.check(not badc, rule, f"{rule}:user_can_change_user_power_level", w.where(fch), ok_msg=f"{kc} scenarios agree with the `users` entry rule",
              bad_msg=f"{len(badc)} disagreements with the authorization rules (m.room.power_levels `users` entry), first {badc[:2]}")
    ctx.count("orderings", n)

    # ---- level getters ---------------------------------------------------------------------------------------
    rule2 = "C20.getters"
    ctx.rule(rule2, "for_user = users[u] else users_default; for_message = events[type] else events_default; for_state = events[type] else state_default; "
                    "for_action maps each action to the level the rules compare; required level getters match event_power_level of the auth rules")
    f = w.fn(H + "for_user")
    ps = dex.paths(f, [D.sym("self"), D.sym("u")])
    # map_or / copied().unwrap_or / match all evaluate to: the users entry when present, users_default otherwise
    rets = {U.true_variants(p).get("BTreeMap::get(self.users, u)"): D.show(p.ret) for p in ps}
    good = rets == {"None": "self.users_default", "Some": "BTreeMap::get(self.users, u).Some.0"}
    ctx.check(good, rule2, f"{rule2}:for_user", w.where(f), bad_msg=f"{[D.show(p.ret)[:120] for p in ps]}")
    for name, default in (("for_message", "self.events_default"), ("for_state", "self.state_default")):
        f = w.fn(H + name)
        ps = dex.paths(f, [D.sym("self"), D.sym("ty")])
        rets = {U.true_variants(p).get("BTreeMap::get(self.events, ty)"): D.show(p.ret) for p in ps}
        ctx.check(rets == {"None": default, "Some": "BTreeMap::get(self.events, ty).Some.0"}, rule2, f"{rule2}:{name}", w.where(f), bad_msg=f"{rets}")
    f = w.fn(H + "for_action")
    got = {}
    for p in dex.paths(f, [D.sym("self"), D.sym("action")]):
        v = [a[2] for a, t in p.conds if a[0] == "variant" and t and D.show(a[1]) == "action"]
        if v:
            got[v[0]] = D.show(p.ret)
    want = {"Ban": "self.ban", "Unban": "Ord::max(self.ban, self.kick)", "Invite": "self.invite", "Kick": "self.kick",
            "RedactOwn": "RoomPowerLevels::for_message(self, MessageLikeEventType::RoomRedaction)",
            "RedactOther": "Ord::max(self.redact, RoomPowerLevels::for_message(self, MessageLikeEventType::RoomRedaction))",
            "SendMessage": "RoomPowerLevels::for_message(self, action.SendMessage.0)", "SendState": "RoomPowerLevels::for_state(self, action.SendState.0)",
            "TriggerNotification": "self.notifications.room"}
    ctx.check(got == want, rule2, f"{rule2}:for_action", w.where(f), bad_msg=f"{ {k: v for k, v in got.items() if want.get(k) != v} }")

    # the two generic entry points hand each action to the helper of that action (with the same users), so they inherit the verdicts above
    DISPATCH = {
        "user_can_do": (["self", "u", "action"], {
            "Ban": "user_can_ban(self, u)", "Unban": "user_can_unban(self, u)", "Invite": "user_can_invite(self, u)", "Kick": "user_can_kick(self, u)",
            "RedactOwn": "user_can_redact_own_event(self, u)", "RedactOther": "user_can_redact_event_of_other(self, u)",
            "SendMessage": "user_can_send_message(self, u, action.SendMessage.0)", "SendState": "user_can_send_state(self, u, action.SendState.0)",
            "TriggerNotification": "user_can_trigger_room_notification(self, u)"}),
        "user_can_do_to_user": (["self", "a", "t", "action"], {
            "Ban": "user_can_ban_user(self, a, t)", "Unban": "user_can_unban_user(self, a, t)", "Invite": "user_can_invite(self, a)",
            "Kick": "user_can_kick_user(self, a, t)", "ChangePowerLevel": "user_can_change_user_power_level(self, a, t)"}),
    }
    dexd = D.Dex(w.lookup, adt_discr=w.adt_discr, inline=lambda n: "{closure" in n)
    for name, (args, want_d) in DISPATCH.items():
        f = w.fn(H + name)
        got_d = {}
        for p in dexd.paths(f, [D.sym(x) for x in args]):
            v = [a[2] for a, t in p.conds if a[0] == "variant" and t and D.show(a[1]) == "action"]
            if v and p.kind == "ret":
                got_d.setdefault(v[0], set()).add(re.sub(r"^(?:\w+::)*RoomPowerLevels::", "", D.show(p.ret)))
        bad_d = {k: sorted(v) for k, v in got_d.items() if v != {want_d.get(k)}}
        bad_d.update({k: ["<no arm>"] for k in want_d if k not in got_d})
        # an arm that does not call the helper by name may still compute the same thing (e.g. both go through a shared private function): compare the
        # arm with the helper after analysing every non-getter method of RoomPowerLevels in place
        for k in [k for k in list(bad_d) if k in want_d and k in got_d]:
            hm = re.match(r"(\w+)\((.*)\)$", want_d[k])
            try:
                hf = w.fn(H + hm.group(1))
                hargs = [D.sym(x.strip()) for x in hm.group(2).split(",")]
                sig = lambda p, drop: (frozenset((D.show_atom(a), t) for a, t in p.conds if not (drop and D.show(a[1]) == "action" and a[0] == "variant")), D.show(p.ret), p.kind)
                arm = {sig(p, True) for p in dex.paths(f, [D.sym(x) for x in args])
                       if any(a[0] == "variant" and t and D.show(a[1]) == "action" and a[2] == k for a, t in p.conds)}
                ref = {sig(p, False) for p in dex.paths(hf, hargs)}
                if arm and arm == ref:
                    del bad_d[k]
            except Exception:
                pass
        ctx.check(not bad_d, rule2, f"{rule2}:{name}", w.where(f),
                  bad_msg=f"{name} does not hand each action to the helper of that action: {bad_d} (the generic entry point then disagrees with the authorization "
                          f"rules although the named helper agrees)")

    push_context_rule(ctx, w, "C20.helpers")
    # ---- defaults and conversion --------------------------------------------------------------------------------
    rule3 = "C20.defaults"
    ctx.rule(rule3, "RoomPowerLevelsEventContent::new() and the serde default functions use the specification's defaults; "
                    "From<RoomPowerLevelsEventContent> for RoomPowerLevels copies all ten fields; notifications.room defaults to 50")
    f = w.fn("ruma_common::power_levels::default_power_level")
    ps = dex.paths(f, [])
    ctx.check(len(ps) == 1 and int_of(ps[0].ret) == 50, rule3, f"{rule3}:default_power_level", w.where(f), bad_msg=f"{[D.show(p.ret) for p in ps]}")
    f = w.fn(P + "RoomPowerLevelsEventContent::new")
    ps = dex.paths(f, [])
    good = len(ps) == 1 and ps[0].ret is not None and ps[0].ret[0] == "adt"
    if good:
        fields = dict(ps[0].ret[3])
        want50 = {"ban", "kick", "redact", "state_default"}
        want0 = {"events_default", "invite", "users_default"}
        good = all(D.show(fields[k]) == "power_levels::default_power_level()" for k in want50) and all(int_of(fields[k]) == 0 for k in want0) and \
            D.show(fields["events"]) == "BTreeMap::new()" and D.show(fields["users"]) == "BTreeMap::new()"
    ctx.check(good, rule3, f"{rule3}:content-new", w.where(f), bad_msg=f"{[D.show(p.ret)[:300] for p in ps]}")
    # what a MISSING key is read as (serde `default` attributes of the two content types): four levels default to 50 (ban, kick, redact,
    # state_default), three to 0 (events_default, invite, users_default), as in new() above. Counted per derived visit_map.
    n_vis = 0
    for g in w.all_fns():
        m_ = re.search(r"<impl serde_core::de::Deserialize<'de> for ruma_events::room::power_levels::((?:Redacted)?RoomPowerLevelsEventContent)>::deserialize::__Visitor.*::visit_map$", g["path"])
        if not m_ or "body" not in g:
            continue
        n_vis += 1
        names = [M.callee_name(c_) for _, c_ in M.calls(g["body"])]
        n50 = sum(1 for n_ in names if n_ == "ruma_common::power_levels::default_power_level")
        n0 = sum(1 for n_ in names if n_ == "<js_int::int::Int as core::default::Default>::default")
        ctx.check(n50 == 4 and n0 == 3, rule3, f"{rule3}:serde:{m_.group(1)}", w.where(g),
                  bad_msg=f"{m_.group(1)}: a missing level is read as 50 for {n50} fields and as 0 for {n0} fields; the specification has 4 levels defaulting to 50 "
                          f"(ban, kick, redact, state_default) and 3 defaulting to 0 (events_default, invite, users_default) - the helpers then judge an event that "
                          f"omits the key by another level than the authorization rules")
    ctx.floor("derived deserializers of the power-levels content types", n_vis, 2)
    f = w.fn(f"<{P}RoomPowerLevels as core::convert::From<{P}RoomPowerLevelsEventContent>>::from")
    ps = dex.paths(f, [D.sym("c")])
    good = len(ps) == 1 and ps[0].ret is not None and ps[0].ret[0] == "adt" and all(D.show(v) == f"c.{k}" for k, v in ps[0].ret[3]) and len(ps[0].ret[3]) == 10
    ctx.check(good, rule3, f"{rule3}:from-content", w.where(f), bad_msg=f"{[D.show(p.ret)[:300] for p in ps]}")
    # the redacted content (room version 11 keeps every level, `invite` included) converts field by field too; only `notifications`, which no
    # redaction keeps, takes its default
    f = w.fn(f"<{P}RoomPowerLevels as core::convert::From<{P}RedactedRoomPowerLevelsEventContent>>::from")
    ps = dex.paths(f, [D.sym("c")])
    good = len(ps) == 1 and ps[0].ret is not None and ps[0].ret[0] == "adt" and len(ps[0].ret[3]) == 10
    wrong = {}
    if good:
        for k, v in ps[0].ret[3]:
            sv = D.show(v)
            if k == "notifications":
                if not re.search(r"(Default::default\(\)|NotificationPowerLevels::(new|default)\(\))", sv):
                    wrong[k] = sv[:80]
            elif sv != f"c.{k}":
                wrong[k] = sv[:80]
    ctx.check(good and not wrong, rule3, f"{rule3}:from-redacted-content", w.where(f),
              bad_msg=f"RoomPowerLevels::from(RedactedRoomPowerLevelsEventContent) is not a field-by-field copy: {wrong or [D.show(p.ret)[:200] for p in ps]} - the helpers then "
                      f"judge a redacted power-levels event (v11 keeps `invite`) by other levels than the authorization rules")
    # the typed redaction of the content (what a client computes locally) agrees with the redaction algorithm the authorization rules see: every level
    # is kept, except `invite`, which is kept from room version 11 on and reads as its default 0 before
    kr = [k_ for k_ in w.fn_index if k_.startswith(f"<{P}RoomPowerLevelsEventContent as ") and k_.endswith("RedactContent>::redact")]
    if len(kr) != 1:
        ctx.missing(rule3, f"{rule3}:redact", "RedactContent::redact for RoomPowerLevelsEventContent not found")
    else:
        fr = w.fn(kr[0])
        rp = D.Dex(w.lookup, adt_discr=w.adt_discr, inline=lambda n: "{closure" in n, ctors=w.ctors).paths(fr, [D.sym("self"), D.sym("rules")])
        got_r = {}
        for p in rp:
            keep = [t for a, t in p.conds if D.show_atom(a) == "rules.keep_room_power_levels_invite"]
            if p.kind == "ret" and p.ret is not None and p.ret[0] == "adt" and len(keep) == 1:
                got_r[keep[0]] = {k_: D.show(v_) for k_, v_ in p.ret[3]}
        want_keep = {k_: f"self.{k_}" for k_ in ("ban", "events", "events_default", "invite", "kick", "redact", "state_default", "users", "users_default")}
        want_drop = dict(want_keep, invite="0")
        ctx.check(got_r == {True: want_keep, False: want_drop}, rule3, f"{rule3}:redact", w.where(fr),
                  bad_msg=f"RoomPowerLevelsEventContent::redact gives { {k_: {f_: v_ for f_, v_ in d_.items() if v_ != want_keep[f_]} for k_, d_ in got_r.items()} } (by keep_room_power_levels_invite): "
                          f"the redaction algorithm drops `invite` before room version 11, which the authorization rules then read as 0 - any other value makes the helpers on "
                          f"the typed redacted content disagree with them")
    f = w.fn("ruma_common::power_levels::NotificationPowerLevels::new")
    ps = dex.paths(f, [])
    good = len(ps) == 1 and ps[0].ret is not None and ps[0].ret[0] == "adt" and D.show(dict(ps[0].ret[3])["room"]) == "power_levels::default_power_level()"
    ctx.check(good, rule3, f"{rule3}:notifications.room", w.where(f), bad_msg=f"{[D.show(p.ret)[:200] for p in ps]}")
    # serde defaults of the content struct: each `#[serde(default = ..)]` function is default_power_level for the 50-fields
    adt = w.adts.get(P + "RoomPowerLevelsEventContent")
    ctx.check(adt is not None and [fld["name"] for fld in adt["variants"][0]["fields"]] == ["ban", "events", "events_default", "invite", "kick", "redact", "state_default", "users", "users_default", "notifications"],
              rule3, f"{rule3}:content-fields", "", bad_msg="content fields changed: the field-to-field rules above must be revisited")

    # ---- push condition ----------------------------------------------------------------------------------------------
    rule4 = "C20.notification"
    ctx.rule(rule4, "PushCondition::SenderNotificationPermission holds iff sender level >= notifications[key] (users_default fallback for the sender), the same formula as user_can_trigger_room_notification")
    f = w.fn("ruma_common::push::condition::PushCondition::applies")
    dexp = D.Dex(w.lookup, adt_discr=w.adt_discr, unroll=1, inline=lambda nme: "{closure" in nme, max_paths=100000)
    ps = dexp.paths(f, [D.sym("self"), D.sym("event"), D.sym("ctx")])
    snp = [p for p in ps if any(a[0] == "variant" and t and a[2] == "SenderNotificationPermission" for a, t in p.conds) and p.kind == "ret"]
    ctx.floor("SenderNotificationPermission paths", len(snp), 3)
    shapes = set()
    for p in snp:
        r = p.ret
        if D.is_const(r):
            shapes.add(("const", r[1], tuple(sorted(D.show_atom(a)[:60] for a, t in p.conds if t and a[2] in ("None",)))))
        elif r is not None and r[0] in ("atom", "natom") and r[1][0] == "cmp":
            a, b = D.show(r[1][2]), D.show(r[1][3])
            shapes.add((r[0], a[:90], b[:90]))
        else:
            shapes.add(("other", D.show(r)[:100]))
    # the decisive shape: not (sender_level < notification_level)
    cmpshapes = [s_ for s_ in shapes if s_[0] in ("atom", "natom")]
    good = bool(cmpshapes) and all(s_[0] == "natom" and ("users" in s_[1] or "users_default" in s_[1] or "for_user" in s_[1] or "sender" in s_[1]) and "notifications" in s_[2] for s_ in cmpshapes) \
        and not [s_ for s_ in shapes if s_[0] == "other"] and not [s_ for s_ in shapes if s_[0] == "const" and s_[1] is True]
    ctx.check(good, rule4, f"{rule4}:formula", w.where(f), bad_msg=f"{sorted(shapes)[:4]}")
    # ---- the helpers and the authorization rules read the same map out of a JSON object with a repeated key --------------------------------
    rule5 = "C20.duplicate-keys"
    ctx.rule(rule5, "the visitor behind the `users` / `events` maps of the power-levels content (btreemap_deserialize_v1_powerlevel_values) stores every entry with "
                    "BTreeMap::insert, so the LAST occurrence of a repeated key wins - as in the serde_json::Map the authorization rules read the same content "
                    "through; first-wins (entry().or_insert, contains_key guards) makes the helpers answer from another level than the rules")
    vm = [g for g in w.all_fns() if "body" in g and g["path"].endswith("::visit_map") and "btreemap_deserialize_v1_powerlevel_values" in g["path"]]
    if len(vm) != 1:
        ctx.missing(rule5, f"{rule5}:visitor", "visit_map of btreemap_deserialize_v1_powerlevel_values not found")
    else:
        names = [M.callee_name(c) for _, c in M.calls(vm[0]["body"]) if "btree::map" in M.callee_name(c)]
        stores = [n_.rsplit("::", 1)[-1] for n_ in names if n_.rsplit("::", 1)[-1] in ("insert", "entry", "or_insert", "or_insert_with", "try_insert", "contains_key", "get", "extend")]
        ctx.check(stores == ["insert"], rule5, f"{rule5}:visitor", w.where(vm[0]),
                  bad_msg=f"entries are stored through {stores or names}: with a repeated key inside `users` / `events` the typed content keeps another occurrence than the "
                          f"JSON object the authorization rules evaluate (e.g. \"@m:x\": 100, \"@m:x\": 0 - helper says 100, the rules say 0)")
    ctx.extra_cov = {"programs": 11, "disagreements_checked": n, "samples": [{"helper": "user_can_unban_user", "orderings": "a,t,kick,ban in {0..3}", "model": "member_leave with a banned target"}]}
    ctx.assumptions += ["actor is a joined member of the room (the helpers do not know memberships)"]


def _walk(v):
    yield v
    if isinstance(v, tuple):
        for x in v:
            if isinstance(x, tuple):
                yield from _walk(x)
