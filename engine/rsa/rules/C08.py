"""C08 — event authorization: per-version flags == spec; decision equivalence of every rule function with the specification's model
over a finite abstraction that is exhaustive for the comparisons the rules make."""
import re, importlib.util, itertools, os
from .. import dex as D, world as W, mir as M, authmodel as A
from . import tables as T, util as U

LEVEL = "translation_validation"
EXPLANATION = (
    "Translation-validation style: the decision table of each authorization function (auth_check's top-level sequence, "
    "check_room_create, check_room_member dispatch, join / invite / third-party-invite prefix / leave / ban / knock, "
    "check_room_redaction) is extracted from rustc MIR by DEX (paths with atoms over opaque observations: memberships, join rule, "
    "version flags, sender/target identity tests, order comparisons of power levels) and compared, under every valuation of a finite "
    "abstraction (each membership and join rule incl. unknown ones, every distinct flag set of room versions 1-11, all weak orderings "
    "of the compared levels), with a model written from the specification (spec/auth_rules.py). A disagreement is reported with the "
    "scenario. The nine AuthorizationRules flags per version are const-evaluated and compared with the spec matrix, and each flag must "
    "be read by the function that implements its distinction. Content parsing (integer vs string levels, identifiers) and signature "
    "validity inside the third-party-invite loop are not decided.")
RM = "ruma_state_res::event_auth::room_member::"
EA = "ruma_state_res::event_auth::"
MEMBERSHIPS = ["Join", "Invite", "Leave", "Ban", "Knock", "_Custom"]
JOIN_RULES = ["Public", "Invite", "Knock", "Restricted", "KnockRestricted", "Private", "_Custom"]
PL_USER = r"user_power_level\(FetchStateExt::room_power_levels_event\(fetch\), {}, "
PL_FIELD = r"get_as_int_or_default\([^,]*, RoomPowerLevelsIntField::{}, rules\)"


def load_model():
    p = os.path.join(T.SPEC, "auth_rules.py")
    spec = importlib.util.spec_from_file_location("auth_rules_spec", p)
    m = importlib.util.module_from_spec(spec)
    spec.loader.exec_module(m)
    return m


def flag_sets(versions, names):
    """Distinct projections of the 11 versions' authorization flags onto `names`: [(label, flags)]"""
    out = {}
    for ver, val in versions.items():
        auth = [x for n, x in val[3] if n == "authorization"][0]
        fl = {n: x[1] for n, x in auth[3]}
        key = tuple(fl[n] for n in names)
        out.setdefault(key, (ver, fl))
    return [(v, fl) for v, fl in out.values()]


def flags_in(paths):
    names = set()
    for a in D.all_atoms(paths):
        if a[0] == "bool" and D.show(a[1]).startswith("rules."):
            names.add(D.show(a[1])[len("rules."):])
    return sorted(names)


def compare(ctx, w, fn, paths, rule, scenarios, build, model, label):
    """scenarios: iterable of dicts; build(sc, flags) -> A.Scenario; model(sc, flags) -> expected outcome."""
    n, bad = 0, 0
    unmatched = set()
    atoms = sorted({a for a in D.all_atoms(paths)}, key=repr)
    for sc, (ver, fl) in scenarios:
        val = build(sc, fl)
        cache = {a: val(a) for a in atoms}
        sel = [p for p in paths if all(cache.get(a) is None or cache[a] == t for a, t in p.conds)]
        outs = {A.outcome(p) for p in sel}
        unmatched |= val.unmatched
        want = model(sc, fl)
        n += 1
        if outs != {want}:
            bad += 1
            desc = ", ".join(f"{k}={v}" for k, v in sc.items())
            key = f"{rule}:{label}:" + ",".join(f"{k}={v}" for k, v in sorted(sc.items()) if k in KEY_FIELDS.get(label, sc.keys())) + f":got={'|'.join(sorted(outs))}:want={want}"
            trace = ""
            if sel:
                trace = " via " + " -> ".join(f"{os.path.basename(w.where(fn)).split(':')[0]}:{l}" for _, l, _ in sel[0].trace[-6:])
            if bad <= 12:
                ctx.violation(rule, key, w.where(fn), f"[{ver} flags] {desc}: implementation {sorted(outs)}, specification `{want}`{trace}")
    for u in sorted(unmatched)[:5]:
        ctx.unrecognised(rule, f"{rule}:{label}:unmapped-atom:{u[:90]}", w.where(fn), "an atom of the decision table is not mapped to a scenario variable")
    if not bad and not unmatched:
        ctx.ok(rule, f"{rule}:{label}", w.where(fn), f"{n} scenarios agree")
    ctx.count("scenarios", n)
    ctx.count(f"scenarios.{label}", n)
    return n


KEY_FIELDS = {}


# the functions the decision tables are written against (sub-checks appear in the tables by name); every OTHER free function of the two
# event_auth modules is a private helper of one of them and is analysed in place, so extracting a helper does not change the table
ANCHOR_FNS = {"check_room_member", "check_room_member_join", "check_room_member_invite", "check_third_party_invite", "check_room_member_leave",
              "check_room_member_ban", "check_room_member_knock", "auth_types_for_event", "auth_check", "check_room_create", "check_room_power_levels",
              "check_power_level_maps", "check_room_redaction"}


def helper_inline(n):
    if "{closure" in n:
        return True
    for mod in (RM, EA):
        if n.startswith(mod):
            rest = n[len(mod):]
            if "::" not in rest and "<" not in rest and rest not in ANCHOR_FNS and not (mod == EA and rest.startswith("room_member")):
                return True
    return False


def run(ctx):
    fx = ctx.facts("A")
    w = W.World(fx, ["ruma_state_res", "ruma_common", "ruma_events"])
    spec = load_model()
    versions = T.version_rules(ctx, w, ["authorization"])
    if len(versions) < 11:
        return
    dex = D.Dex(w.lookup, adt_discr=w.adt_discr, unroll=1, inline=helper_inline)

    # ---- every flag is read where the spec makes the distinction --------------------------------------
    ctx.rule("C08.flags-used", "each AuthorizationRules switch is read by the function that implements the distinction it stands for")
    expected_reader = {
        "special_case_room_redaction": [EA + "auth_check"], "special_case_room_aliases": [EA + "auth_check"],
        "knocking": [RM + "check_room_member", RM + "check_room_member_join", RM + "check_room_member_leave"],
        "restricted_join_rule": [RM + "check_room_member_join", EA + "auth_types_for_event"],
        "knock_restricted_join_rule": [RM + "check_room_member_join", RM + "check_room_member_knock"],
        "limit_notifications_power_levels": [EA + "check_room_power_levels"],
        "use_room_create_sender": [EA + "check_room_create"],
    }
    for flag, readers in expected_reader.items():
        for r in readers:
            f = w.fn(r)
            reads = any(isinstance(st[2][1].get("pl"), dict) and any(isinstance(p, list) and p[0] == "f" and p[2] == flag for p in st[2][1]["pl"]["p"])
                        for body in M.all_bodies(f) for b in body["blocks"] for st in b["s"] if st[0] == "=" and st[2][0] == "use" and st[2][1].get("k") in ("copy", "move"))
            if not reads:
                reads = any(o.get("k") in ("copy", "move") and isinstance(o.get("pl"), dict) and any(isinstance(p, list) and p[0] == "f" and p[2] == flag for p in o["pl"]["p"])
                            for body in M.all_bodies(f) for b in body["blocks"] if b["t"][0] == "switch" for o in [b["t"][1]])
            ctx.check(reads, "C08.flags-used", f"C08.flags-used:{flag}:{r.rsplit('::', 1)[-1]}", w.where(f), bad_msg=f"{r} never reads rules.{flag}")

    rule = "C08.decisions"
    ctx.rule(rule, "implementation decision == specification decision for every scenario of the finite abstraction, per rule function")

    def vs(names):
        return flag_sets(versions, names)

    def std_enums(sc):
        e = []
        if "target_membership" in sc:
            e.append((r"user_membership\(fetch, target\)", sc["target_membership"]))
        if "sender_membership" in sc:
            e.append((r"user_membership\(fetch, Event::sender\(ev\)\)", sc["sender_membership"]))
        if "auth_user_membership" in sc:
            e.append((r"user_membership\(fetch, RoomMemberEvent::join_authorised", sc["auth_user_membership"]))
        if "join_rule" in sc:
            e.append((r"join_rule\(fetch\)", sc["join_rule"]))
        return e

    def flag_bools(fl):
        return [(r"^rules\." + n + "$", v) for n, v in fl.items()]

    def level_ints(sc):
        i = []
        for k, pat in (("sender_pl", PL_USER.format(r"Event::sender\(ev\)")), ("target_pl", PL_USER.format("target")),
                       ("auth_user_pl", PL_USER.format(r"RoomMemberEvent::join_authorised[^,]*"))):
            if k in sc:
                i.append((pat, sc[k]))
        for k, fld in (("invite_pl", "Invite"), ("ban_pl", "Ban"), ("kick_pl", "Kick"), ("redact_pl", "Redact")):
            if k in sc:
                i.append((PL_FIELD.format(fld), sc[k]))
        return i

    # ---- dispatch ------------------------------------------------------------------------------------------
    f = w.fn(RM + "check_room_member")
    paths = dex.paths(f, [D.sym("ev"), D.sym("rules"), D.sym("create"), D.sym("fetch")])
    scen = [({"has_state_key": hs, "state_key_is_user_id": su, "membership_ok": mo, "membership": m}, vf)
            for hs, su, mo in ((True, True, True), (False, True, True), (True, False, True), (True, True, False))
            for m in MEMBERSHIPS for vf in vs(flags_in(paths))]
    compare(ctx, w, f, paths, rule, scen, lambda sc, fl: A.Scenario(
        enums=[(r"RoomMemberEvent::membership\(ev\)\.Ok\.0", sc["membership"])], bools=flag_bools(fl),
        wrappers=[(r"^Event::state_key\(ev\)$", "Some" if sc["has_state_key"] else "None"),
                  (r"^TryFrom::try_from\(Event::state_key", "Ok" if sc["state_key_is_user_id"] else "Err"),
                  (r"^RoomMemberEvent::membership\(ev\)$", "Ok" if sc["membership_ok"] else "Err")]), spec.member_dispatch, "dispatch")

    # ---- join --------------------------------------------------------------------------------------------------
    f = w.fn(RM + "check_room_member_join")
    paths = dex.paths(f, [D.sym("ev"), D.sym("target"), D.sym("rules"), D.sym("create"), D.sym("fetch")])
    auth_cases = [dict(auth_user_present=False, auth_user_membership="Leave", auth_user_pl=0, invite_pl=0),
                  dict(auth_user_present=True, auth_user_membership="Invite", auth_user_pl=1, invite_pl=0),
                  dict(auth_user_present=True, auth_user_membership="Join", auth_user_pl=0, invite_pl=1),
                  dict(auth_user_present=True, auth_user_membership="Join", auth_user_pl=1, invite_pl=1),
                  dict(auth_user_present=True, auth_user_membership="Join", auth_user_pl=2, invite_pl=1)]
    prev_cases = [("only_create", True), ("only_create", False), ("none", True), ("create_then_more", True), ("other", True)]
    scen = []
    for jr, tm, st, (prev, tic), ac, vf in itertools.product(JOIN_RULES, MEMBERSHIPS, (True, False), prev_cases, auth_cases, vs(flags_in(paths))):
        sc = dict(join_rule=jr, target_membership=tm, sender_is_target=st, prev=prev, target_is_creator=tic, **ac)
        scen.append((sc, vf))
    KEY_FIELDS["join"] = ["join_rule", "target_membership", "sender_is_target", "prev", "auth_user_present"]

    def build_join(sc, fl):
        prev = sc["prev"]
        return A.Scenario(
            enums=std_enums(sc), bools=flag_bools(fl), ints=level_ints(sc),
            eqs=[(r"Event::sender\(ev\)==target", sc["sender_is_target"]), (r"creator\(create, rules\)\.Ok\.0==target", sc["target_is_creator"]),
                 (r"Event::event_id\(create\)==iter::next", prev in ("only_create", "create_then_more"))],
            wrappers=[(r"^iter::next\(Event::prev_events\(ev\)\)$", "None" if prev == "none" else "Some"),
                      (r"^iter::next\(Event::prev_events\(ev\)\)#2$", "Some" if prev == "create_then_more" else "None"),
                      (r"join_authorised_via_users_server\(ev\)\.Ok\.0$", "Some" if sc["auth_user_present"] else "None")])
    compare(ctx, w, f, paths, rule, scen, build_join, spec.member_join, "join")

    # ---- invite ----------------------------------------------------------------------------------------------
    f = w.fn(RM + "check_room_member_invite")
    paths = dex.paths(f, [D.sym("ev"), D.sym("target"), D.sym("rules"), D.sym("create"), D.sym("fetch")])
    scen = []
    for tpi, sm, tm, (sp, ip), vf in itertools.product((False, True), MEMBERSHIPS, MEMBERSHIPS, ((0, 1), (1, 1), (2, 1)), vs(flags_in(paths))):
        scen.append((dict(third_party_invite=tpi, sender_membership=sm, target_membership=tm, sender_pl=sp, invite_pl=ip), vf))
    compare(ctx, w, f, paths, rule, scen, lambda sc, fl: A.Scenario(
        enums=std_enums(sc), bools=flag_bools(fl), ints=level_ints(sc),
        wrappers=[(r"third_party_invite\(ev\)\.Ok\.0$", "Some" if sc["third_party_invite"] else "None")]), spec.member_invite, "invite")

    # ---- third-party invite prefix ---------------------------------------------------------------------------
    f = w.fn(RM + "check_third_party_invite")
    dex_t = D.Dex(w.lookup, adt_discr=w.adt_discr, unroll=0, inline=helper_inline)
    paths = dex_t.paths(f, [D.sym("ev"), D.sym("tpi"), D.sym("target"), D.sym("fetch")])
    scen = []
    for tm, tok, mx, mt, found, ss in itertools.product(MEMBERSHIPS, (True, False), (True, False), (True, False), (True, False), (True, False)):
        scen.append((dict(target_membership=tm, has_token=tok, has_mxid=mx, mxid_is_target=mt, tpi_event_found=found, tpi_sender_is_sender=ss), ("-", {})))

    def tpi_outcome_model(sc, fl):
        r = spec.third_party_invite_prefix(sc, fl)
        return r

    def build_tpi(sc, fl):
        return A.Scenario(enums=std_enums(sc),
                          eqs=[(r"ThirdPartyInvite::mxid\(tpi\)\.Ok\.0==target|target==ThirdPartyInvite::mxid", sc["mxid_is_target"]),
                               (r"Event::sender\(ev\)==.*room_third_party_invite_event|room_third_party_invite_event.*==Event::sender\(ev\)", sc["tpi_sender_is_sender"])],
                          wrappers=[(r"^ThirdPartyInvite::token\(tpi\)$", "Ok" if sc["has_token"] else "Err"),
                                    (r"^ThirdPartyInvite::mxid\(tpi\)$", "Ok" if sc["has_mxid"] else "Err"),
                                    (r"^FetchStateExt::room_third_party_invite_event\(", "Some" if sc["tpi_event_found"] else "None")])
    # outcomes of the prefix: reject before the loop, or reach the loop (anything else: loop cut / reject at the end / allow inside)
    n_pref = 0
    atoms = sorted({a for a in D.all_atoms(paths)}, key=repr)
    bad = []
    for sc, _ in scen:
        val = build_tpi(sc, {})
        cache = {a: val(a) for a in atoms}
        sel = [p for p in paths if all(cache.get(a) is None or cache[a] == t for a, t in p.conds)]
        reached_loop = any(any("public_keys" in D.show_atom(a) or "signatures" in D.show_atom(a) or "signed_canonical_json" in D.show_atom(a) for a, _ in p.conds) for p in sel)
        outs = {A.outcome(p) for p in sel}
        want = spec.third_party_invite_prefix(sc, {})
        n_pref += 1
        good = (want == "reject" and outs == {"reject"} and not reached_loop) or (want == "signatures" and reached_loop)
        if not good:
            bad.append((sc, sorted(outs), want))
    ctx.check(not bad, rule, f"{rule}:third-party-invite-prefix", w.where(f), ok_msg=f"{n_pref} scenarios agree",
              bad_msg=f"{len(bad)} disagreements, first: {bad[:1]}")
    ctx.count("scenarios", n_pref)
    # the signature loop is an exists-loop: Ok only from a successful verification, Err only after exhaustion
    dex_l = D.Dex(w.lookup, adt_discr=w.adt_discr, unroll=1, inline=helper_inline, max_paths=200000)
    try:
        lp = dex_l.paths(f, [D.sym("ev"), D.sym("tpi"), D.sym("target"), D.sym("fetch")])
        allow = [p for p in lp if A.outcome(p) == "allow"]
        def verified(a, t):
            if t and a[0] == "variant" and a[2] == "Ok" and "verify_canonical_json_bytes(" in D.show(a[1]):
                return True
            # iterator form: keys.any(|k| .. verify(..).is_ok()) is true; the closure must return true only after a successful verification
            sa = D.show_atom(a)
            m = re.match(r"^Iterator::any\(.*, closure\[([^\]]+)\]", sa)
            if t and a[0] == "bool" and m:
                clo = w.lookup(m.group(1))
                if clo is None or "body" not in clo:
                    return False
                cps = dex_l.paths(clo, [D.sym("env"), D.sym("k")])
                trues = [q for q in cps if q.kind == "ret" and D.show(q.ret) != "False"]
                return bool(trues) and all(q.kind == "ret" for q in cps) and all(
                    any(tt and b[0] == "variant" and b[2] == "Ok" and "verify_canonical_json_bytes(" in D.show(b[1]) for b, tt in q.conds) or
                    (q.ret is not None and q.ret[0] == "atom" and q.ret[1][0] == "variant" and q.ret[1][2] == "Ok" and "verify_canonical_json_bytes(" in D.show(q.ret[1][1]))
                    for q in trues)
            return False
        good = bool(allow) and all(any(verified(a, t) for a, t in p.conds) for p in allow)
        ctx.check(good, rule, f"{rule}:third-party-invite:allow-needs-valid-signature", w.where(f),
                  bad_msg="a path allows the third-party invite without a successful signature verification")
    except D.Unrecognised as e:
        ctx.unrecognised(rule, f"{rule}:third-party-invite:loop", w.where(f), str(e))

    # ---- leave ---------------------------------------------------------------------------------------------------
    f = w.fn(RM + "check_room_member_leave")
    paths = dex.paths(f, [D.sym("ev"), D.sym("target"), D.sym("rules"), D.sym("create"), D.sym("fetch")])
    scen = []
    lv = (0, 1, 2)
    for st, sm, tm, sp, bp, kp, tp, vf in itertools.product((True, False), MEMBERSHIPS, MEMBERSHIPS, lv, lv, lv, lv, vs(flags_in(paths))):
        if st and sm != tm:
            continue
        scen.append((dict(sender_is_target=st, sender_membership=sm, target_membership=tm, sender_pl=sp, ban_pl=bp, kick_pl=kp, target_pl=tp), vf))
    KEY_FIELDS["leave"] = ["sender_is_target", "sender_membership", "target_membership"]
    compare(ctx, w, f, paths, rule, scen, lambda sc, fl: A.Scenario(
        enums=std_enums(sc), bools=flag_bools(fl), ints=level_ints(sc), eqs=[(r"Event::sender\(ev\)==target", sc["sender_is_target"])]), spec.member_leave, "leave")

    # ---- ban -----------------------------------------------------------------------------------------------------
    f = w.fn(RM + "check_room_member_ban")
    paths = dex.paths(f, [D.sym("ev"), D.sym("target"), D.sym("rules"), D.sym("create"), D.sym("fetch")])
    scen = [(dict(sender_membership=sm, sender_pl=sp, ban_pl=bp, target_pl=tp), vf)
            for sm, sp, bp, tp, vf in itertools.product(MEMBERSHIPS, lv, lv, lv, vs(flags_in(paths)))]
    KEY_FIELDS["ban"] = ["sender_membership"]
    compare(ctx, w, f, paths, rule, scen, lambda sc, fl: A.Scenario(enums=std_enums(sc), bools=flag_bools(fl), ints=level_ints(sc)), spec.member_ban, "ban")

    # ---- knock ---------------------------------------------------------------------------------------------------
    f = w.fn(RM + "check_room_member_knock")
    paths = dex.paths(f, [D.sym("ev"), D.sym("target"), D.sym("rules"), D.sym("fetch")])
    scen = [(dict(join_rule=jr, sender_is_target=st, sender_membership=sm), vf)
            for jr, st, sm, vf in itertools.product(JOIN_RULES, (True, False), MEMBERSHIPS, vs(flags_in(paths)))]
    compare(ctx, w, f, paths, rule, scen, lambda sc, fl: A.Scenario(
        enums=std_enums(sc), bools=flag_bools(fl), eqs=[(r"Event::sender\(ev\)==target", sc["sender_is_target"])]), spec.member_knock, "knock")

    # ---- create --------------------------------------------------------------------------------------------------
    f = w.fn(EA + "check_room_create")
    paths = dex.paths(f, [D.sym("create"), D.sym("rules")])
    scen = [(dict(has_prev_events=hp, room_id_has_server=rs, room_id_server_is_sender_server=ss, has_creator=hc), vf)
            for hp, rs, ss, hc, vf in itertools.product((False, True), (True, False), (True, False), (True, False), vs(flags_in(paths)))]
    compare(ctx, w, f, paths, rule, scen, lambda sc, fl: A.Scenario(
        bools=flag_bools(fl) + [(r"RoomCreateEvent::has_creator\(create\)\.Ok\.0", sc["has_creator"])],
        # the room ID's server against the SENDER's server (either operand order); any other comparison (e.g. with content.creator) stays unmapped
        eqs=[(r"^RoomId::server_name\(Event::room_id\(create\)\)\.Some\.0==UserId::server_name\(Event::sender\(create\)\)$|"
              r"^UserId::server_name\(Event::sender\(create\)\)==RoomId::server_name\(Event::room_id\(create\)\)\.Some\.0$", sc["room_id_server_is_sender_server"])],
        wrappers=[(r"^Iterator::next\(Event::prev_events\(create\)\)$|^iter::next\(Event::prev_events\(create\)\)$|next\(.*prev_events\(create\)\)$", "Some" if sc["has_prev_events"] else "None"),
                  (r"RoomId::server_name\(", "Some" if sc["room_id_has_server"] else "None")]), spec.room_create, "create")

    # ---- redaction (v1-v2) ---------------------------------------------------------------------------------------
    f = w.fn(EA + "check_room_redaction")
    paths = dex.paths(f, [D.sym("ev"), D.sym("pl_event"), D.sym("rules"), D.sym("sender_pl")])
    scen = [(dict(sender_pl=sp, redact_pl=rp, same_server_as_redacted=ss), ("-", {})) for sp, rp, ss in itertools.product(lv, lv, (True, False))]
    compare(ctx, w, f, paths, rule, scen, lambda sc, fl: A.Scenario(
        ints=[(r"^sender_pl$", sc["sender_pl"]), (r"get_as_int_or_default\(pl_event, RoomPowerLevelsIntField::Redact", sc["redact_pl"])],
        # the event ID's server against the server of the redacted event's ID (either order)
        eqs=[(r"^EventId::server_name\(Event::event_id\(ev\)\)==EventId::server_name\(Event::redacts\(ev\)\.Some\.0\)$|"
              r"^EventId::server_name\(Event::redacts\(ev\)\.Some\.0\)==EventId::server_name\(Event::event_id\(ev\)\)$", sc["same_server_as_redacted"])]), spec.room_redaction, "redaction")

    # ---- top level -----------------------------------------------------------------------------------------------
    f = w.fn(EA + "auth_check")
    paths = dex.paths(f, [D.sym("rules"), D.sym("ev"), D.sym("fetch")])
    types = ["RoomCreate", "RoomAliases", "RoomMember", "RoomThirdPartyInvite", "RoomPowerLevels", "RoomRedaction", "RoomMessage"]
    scen = []
    for t, cis, cia, (fed, same), sks, sm, (sp, ip, rp), (at, isme), vf in itertools.product(
            types, (True, False), (True, False), ((True, False), (False, True), (False, False)), (True, False), ("Join", "Invite", "Leave", "Ban", "Knock"),
            ((0, 1, 1), (1, 1, 0), (1, 0, 2), (2, 1, 2)), ((False, False), (True, True), (True, False)), vs(flags_in(paths))):
        if not cis and not cia:
            continue
        scen.append((dict(type=t, create_in_state=cis, create_in_auth_events=cia, federate=fed, same_server_as_creator=same, state_key_is_sender_server=sks,
                          sender_membership=sm, sender_pl=sp, invite_pl=ip, required_pl=rp, state_key_starts_with_at=at, state_key_is_sender=isme), vf))
    KEY_FIELDS["top"] = ["type", "create_in_state", "create_in_auth_events", "federate", "same_server_as_creator", "sender_membership"]

    SK = r"Event::state_key\(ev\)(\.Some\.0)?"

    def build_top(sc, fl):
        return A.Scenario(
            enums=[(r"^Event::event_type\(ev\)$", sc["type"])] + std_enums(sc), bools=flag_bools(fl) + [
                (r"Iterator::any\(Event::auth_events\(ev\)", sc["create_in_auth_events"]), (r"RoomCreateEvent::federate\(.*\)\.Ok\.0$", sc["federate"]),
                (r"str::starts_with\(Event::state_key\(ev\)\.Some\.0, '@'\)", sc["state_key_starts_with_at"])],
            ints=[(PL_USER.format(r"Event::sender\(ev\)"), sc["sender_pl"]), (PL_FIELD.format("Invite"), sc["invite_pl"]),
                  # the level required for THIS event's type and state key
                  (r"event_power_level\(FetchStateExt::room_power_levels_event\(fetch\), Event::event_type\(ev\), Event::state_key\(ev\), rules\)", sc["required_pl"])],
            eqs=[(r"UserId::server_name\(Event::sender\(.*room_create_event.*==UserId::server_name\(Event::sender\(ev\)\)|UserId::server_name\(Event::sender\(ev\)\)==UserId::server_name", sc["same_server_as_creator"]),
                 # the state key compared as Option (`state_key() == Some(x)`) or unwrapped inside a closure (`k == x`), either operand order
                 (SK + r"==(Option::Some\()?ServerName::as_str|(Option::Some\()?ServerName::as_str.*==" + SK, sc["state_key_is_sender_server"]),
                 (SK + r"==(Option::Some\()?UserId::as_str|(Option::Some\()?UserId::as_str.*==" + SK, sc["state_key_is_sender"])],
            wrappers=[(r"^FetchStateExt::room_create_event\(fetch\)$", "Ok" if sc["create_in_state"] else "Err"),
                      (r"^Event::state_key\(ev\)$", "Some")])
    compare(ctx, w, f, paths, rule, scen, build_top, spec.top_level, "top")

    # the key set a third-party invite's signature is checked against: "any public key in the m.room.third_party_invite event" is the top-level
    # `public_key` AND every `public_keys[].public_key`, unconditionally
    ctx.rule("C08.third-party-keys", "RoomThirdPartyInviteEvent::public_keys: every successful path returns the keys of BOTH `public_key` and `public_keys` (one does not "
                                     "replace the other)")
    cands = [g for g in w.all_fns() if g["path"].endswith("::public_keys") and "third_party_invite::RoomThirdPartyInviteEvent" in g["path"] and "body" in g]
    if len(cands) != 1:
        ctx.missing("C08.third-party-keys", "C08.third-party-keys:public_keys", "RoomThirdPartyInviteEvent::public_keys not found")
    else:
        fk = cands[0]
        kp = [p for p in D.Dex(w.lookup, adt_discr=w.adt_discr, unroll=1, inline=helper_inline,
                               effects=lambda n: n.rsplit("::", 1)[-1] in ("extend", "insert", "push", "append")).paths(fk, [D.sym("self")])
              if p.kind == "ret" and D.show(p.ret).startswith("Result::Ok(")]
        # the returned set is built in one expression (chain + collect) or filled step by step (extend / insert): both sources must feed it
        text = lambda p: D.show(p.ret) + " " + " ".join(" ".join(U.shows(e[1])) for e in p.effects)
        partial = [text(p)[:200] for p in kp if not (re.search(r"\.public_key\b", text(p)) and re.search(r"\.public_keys\b", text(p)))]
        ctx.check(bool(kp) and not partial, "C08.third-party-keys", "C08.third-party-keys:public_keys", w.where(fk),
                  bad_msg=f"a successful path returns only a part of the keys: {partial[:1]} - a signature made with the other key no longer matches, so a valid third-party "
                          f"invite is rejected")
    from . import C08_levels
    C08_levels.run(ctx, w, spec, versions)

    ctx.extra_cov = {"programs": 14, "disagreements_checked": ctx.analysed.get("scenarios", 0),
                     "samples": [{"function": "check_room_member_knock", "scenario": {"join_rule": "Public", "flags": "V7"}, "spec": "reject"},
                                 {"function": "check_room_member_leave", "scenario": {"sender_is_target": False, "sender_pl": 1, "kick_pl": 1, "target_pl": 1}, "spec": "reject"}]}
    ctx.floor("scenarios compared", ctx.analysed.get("scenarios", 0), 10000)
    ctx.assumptions += ["spec/auth_rules.py transcribes the specification's authorization rules (v1.14) faithfully",
                        "opaque observations (membership lookups, level getters) are modelled as uninterpreted values: their parsing is decided elsewhere (C20 defaults) or not at all"]
