"""C03 — event signatures: per-version signer rules, required-signer table, verify_event / hash_and_sign_event pipelines."""
import itertools
import re
from .. import dex as D, world as W, mir as M
from . import tables as T, util as U
from .C05 import m_clone

LEVEL = "other"
EXPLANATION = (
    "SignaturesRules / RedactionRules per room version are const-evaluated and compared with the specification through "
    "RoomVersionId::rules(). The required-signer set is extracted (DEX) from servers_to_check_signatures with "
    "is_invite_via_third_party_id inlined and compared with the specification's model under every valuation of "
    "{type is m.room.member, membership, third_party_invite present, join_authorised_via_users_server present, the two flags}. "
    "verify_event and hash_and_sign_event are decided by ordered effects and operand provenance: redaction with the version's "
    "rules, signatures checked over the redacted canonical JSON for every required server before any Ok, Verified::All only "
    "when the stored hash equals content_hash of the unredacted object, hash stored before redaction and signing.")
FN = "ruma_signatures::functions"
CLONE = {"<alloc::collections::btree::map::BTreeMap<K, V, A> as core::clone::Clone>::clone": m_clone}


def scenario_valuation(sc):
    """Valuation of the atoms of servers_to_check_signatures for a well-formed event described by `sc`."""
    def val(atom):
        t = D.show_atom(atom)
        if atom[0] == "bool":
            if t == "rules.check_event_id_server":
                return sc["check_event_id_server"]
            if t == "rules.check_join_authorised_via_users_server":
                return sc["check_join"]
            return None
        if atom[0] == "eq":
            subj = D.show(atom[1])
            lit = atom[2][1] if D.is_const(atom[2]) else None
            if "get(object, 'type')" in subj:
                return sc["type"] == lit
            if "'membership'" in subj:
                return sc["membership"] == lit
            return None
        if atom[0] == "variant":
            subj = D.show(atom[1])
            var = atom[2]
            positive = var in ("Some", "Ok", "String", "Object")
            if "'third_party_invite'" in subj and not subj.endswith(".Some.0"):
                return (var == "Some") == sc["tpi"]
            if "'join_authorised_via_users_server'" in subj and subj.endswith("'join_authorised_via_users_server')"):
                return (var == "Some") == sc["jav"]
            # everything else is well-formed: present, of the right JSON type, parses
            if var in ("Some", "Ok", "String", "Object", "None", "Err"):
                return positive
            return None
        return None
    return val


def spec_signers(sc):
    s = set()
    member = sc["type"] == "m.room.member"
    if not (member and sc["membership"] == "invite" and sc["tpi"]):
        s.add("sender")
    if sc["check_event_id_server"]:
        s.add("event_id")
    if sc["check_join"] and member and sc["membership"] == "join" and sc["jav"]:
        s.add("authoriser")
    return s


def classify(arg):
    t = D.show(arg)
    if "join_authorised_via_users_server" in t:
        return "authoriser"
    if "'event_id'" in t:
        return "event_id"
    if "'sender'" in t:
        return "sender"
    return "?" + t[:60]


def hash_and_sign_rule(ctx, w, rule):
    dexa = D.Dex(w.lookup, adt_discr=w.adt_discr, effects=lambda n: True, models=CLONE, unroll=2, inline=U.sig_inline)
    # ---- hash_and_sign_event --------------------------------------------------------------------
    ctx.rule(rule, "hash_and_sign_event: content_hash(object) -> hashes.sha256 = its unpadded base64 -> redact a copy (taken after the "
                                  "hash is stored) -> sign_json(redacted) -> signatures copied back from the redacted copy")
    f = w.fn(f"{FN}::hash_and_sign_event")
    paths = dexa.paths(f, [D.sym("entity"), D.sym("kp"), D.sym("object"), D.sym("rr")])
    okp = [p for p in paths if p.kind == "ret" and U.is_ok(p.ret)]
    ctx.floor("hash_and_sign success paths", len(okp), 1)
    wb = write_back(w, f)
    for p in okp:
        names = [e[0].rsplit("::", 1)[-1] for e in p.effects]
        def idx(pred):
            for i, e in enumerate(p.effects):
                if pred(e):
                    return i
            return -1
        # the map the steps work on: the caller's event itself, or ONE copy of it that is written back when everything has succeeded
        stores = [e for e in p.effects if e[0].endswith("::insert") and len(e[1]) == 3 and e[1][1] == D.C("sha256")]
        mW = re.search(r"entry\((clone\(object\)|object), 'hashes'\)", D.show(stores[0][1][0])) if stores else None
        W_ = mW.group(1) if mW else "object"
        i_hash = idx(lambda e: e[0] == f"{FN}::content_hash" and U.shows(e[1]) == ["object"])
        i_store = idx(lambda e: e[0].endswith("::insert") and len(e[1]) == 3 and e[1][1] == D.C("sha256") and
                      f"entry({W_}, 'hashes')" in D.show(e[1][0]) and D.show(e[1][2]) == "CanonicalJsonValue::String(Base64::encode(functions::content_hash(object).Ok.0))")
        i_clone = idx(lambda e: e[0] == "clone" and U.shows(e[1]) == [W_])
        i_red = idx(lambda e: e[0].endswith("canonical_json::redact") and U.shows(e[1]) == [f"clone({W_})", "rr", "Option::None"])
        i_sign = idx(lambda e: e[0] == f"{FN}::sign_json" and U.shows(e[1]) == ["entity", "kp", f"canonical_json::redact(clone({W_}), rr, Option::None).Ok.0"])
        i_back = idx(lambda e: e[0].endswith("::insert") and len(e[1]) == 3 and D.show(e[1][0]) == W_ and e[1][1] == D.C("signatures") and
                     f"get_mut(canonical_json::redact(clone({W_}), rr, Option::None).Ok.0, 'signatures')" in D.show(e[1][2]))
        order = [i_hash, i_store, i_clone, i_red, i_sign, i_back]
        ctx.check(all(i >= 0 for i in order) and order == sorted(order), rule, f"{rule}:order", w.where(f),
                  bad_msg=f"pipeline steps [hash, store, copy, redact, sign, copy-back] occur at {order} in {names}")
        if W_ != "object":
            # working copy: taken from the caller's event before the hash is stored, and moved back into `*object` after the signatures were copied in
            i_copy = idx(lambda e: e[0] == "clone" and U.shows(e[1]) == ["object"])
            ctx.check(0 <= i_copy < i_store and wb["ok"], rule, f"{rule}:write-back", w.where(f),
                      bad_msg=f"the steps work on a copy of the event ({W_}) but the copy is not moved back into the caller's event after the last step: {wb['why']}")
        else:
            ctx.check(not wb["sites"], rule, f"{rule}:write-back", w.where(f), bad_msg=f"the caller's event is overwritten as a whole: {wb['why']}")


def write_back(w, f):
    """Assignments `*object = <value>` in hash_and_sign_event (third argument): accepted shape = one assignment, of the copy taken from the event itself,
    dominated by the insertion of `signatures` and followed by no further call (nothing can fail afterwards)."""
    import json as _json
    from . import panic_common as PC
    body = f["body"]
    defs = PC.roots(body)
    cfg = M.Cfg(body)
    live = set(cfg.reachable(0))
    sig_blocks = [bi for bi, c in M.calls(body) if c["fn"].endswith("BTreeMap::<K, V, A>::insert") and len(c["args"]) == 3 and
                  '"signatures"' in _json.dumps(PC.expr(body, defs, c["args"][1]))]
    # locals that hold the caller's `&mut` itself: the argument, a move / copy of it (`let event = object;`) or a reborrow (`&mut *object`)
    alias = {3}
    for _ in range(3):
        for b in body["blocks"]:
            for st in b["s"]:
                if st[0] != "=" or not isinstance(st[1], int):
                    continue
                rv = st[2]
                src = None
                if rv[0] == "use" and isinstance(rv[1], dict) and "pl" in rv[1]:
                    src = rv[1]["pl"]
                elif rv[0] == "ref":
                    src = rv[2]
                if isinstance(src, int) and src in alias:
                    alias.add(st[1])
                elif isinstance(src, dict) and src.get("l") in alias and src.get("p") == ["*"] and rv[0] == "ref":
                    alias.add(st[1])
    sites = []
    for bi, b in enumerate(body["blocks"]):
        if bi not in live:
            continue
        for st in b["s"]:
            if st[0] == "=" and isinstance(st[1], dict) and st[1].get("l") in alias and st[1].get("p") == ["*"]:
                sites.append((bi, st))
    why = []
    for bi, st in sites:
        src = _json.dumps(PC.expr(body, defs, st[2][1])) if st[2][0] == "use" else "?"
        if not re.fullmatch(r'\["call", "[^"]*Clone>::clone", \[\["arg", 3\]\]\]', src):
            why.append(f"the value written back is {src[:80]}, not the copy of the event")
        if not any(sb != bi and cfg.dominates(sb, bi) for sb in sig_blocks):
            why.append("the write-back is not dominated by the insertion of `signatures`")
        after = [b2 for b2 in cfg.reachable(bi) if b2 != bi and body["blocks"][b2]["t"][0] == "call"]
        if after:
            why.append("a call follows the write-back (it could fail after the event has been replaced)")
    if not sites:
        why.append("no `*object = ..` assignment")
    return {"ok": len(sites) == 1 and not why, "sites": sites, "why": "; ".join(why) or "one write-back of the copy after the last step"}


def run(ctx):
    fx = ctx.facts("A")
    w = W.World(fx, ["ruma_common", "ruma_signatures"])
    T.version_rules(ctx, w, ["signatures", "redaction"])

    # ---- required signers ---------------------------------------------------------------------
    ctx.rule("C03.signers", "set of servers inserted by servers_to_check_signatures == specification's required signers, for every "
                            "combination of event type / membership / third-party invite / authorising user / version flags")
    dex = D.Dex(w.lookup, adt_discr=w.adt_discr,
                inline=lambda n: n == f"{FN}::is_invite_via_third_party_id" or n.startswith(f"{FN}::servers_to_check_signatures::") or U.sig_inline(n),
                effects=lambda n: "BTreeSet" in n and n.endswith("::insert"))
    f = w.fn(f"{FN}::servers_to_check_signatures")
    paths = dex.paths(f, [D.sym("object"), D.sym("rules")])
    okp = [p for p in paths if p.kind == "ret" and U.is_ok(p.ret)]
    ctx.floor("signer success paths", len(okp), 8)
    n = 0
    # every literal the implementation compares the type / membership with, plus the spec's, plus "something else"
    mem_lits = {a[2][1] for a in D.all_atoms(okp) if a[0] == "eq" and "'membership'" in D.show(a[1]) and D.is_const(a[2])}
    ty_lits = {a[2][1] for a in D.all_atoms(okp) if a[0] == "eq" and "get(object, 'type')" in D.show(a[1]) and D.is_const(a[2])}
    memberships = sorted(mem_lits | {"invite", "join"}) + ["<other>"]
    types = sorted(ty_lits | {"m.room.member"}) + ["<other>"]
    for ty, mem, tpi, jav, ceid, cj in itertools.product(types, memberships, (False, True), (False, True), (False, True), (False, True)):
        sc = dict(type=ty, membership=mem, tpi=tpi, jav=jav, check_event_id_server=ceid, check_join=cj)
        sel = D.evaluate(okp, scenario_valuation(sc))
        tag = f"type={'member' if ty == 'm.room.member' else ty},membership={mem},third_party_invite={tpi},authorising_user={jav},check_event_id={ceid},check_join_authorised={cj}"
        if len(sel) != 1:
            ctx.unrecognised("C03.signers", f"C03.signers:{tag}", w.where(f), f"{len(sel)} success paths under this scenario")
            continue
        got = {classify(e[1][1]) for e in sel[0].effects}
        want = spec_signers(sc)
        n += 1
        if got == want:
            ctx.ok("C03.signers", f"C03.signers:{tag}", w.where(f))
        else:
            # key names the disagreement, not the line
            extra, missing = sorted(got - want), sorted(want - got)
            cls = f"type={'member' if ty == 'm.room.member' else 'other'},membership={(mem if mem != '<other>' else 'leave') if ty == 'm.room.member' else '*'}"
            ctx.violation("C03.signers", f"C03.signers:{cls}:extra={'+'.join(extra) or '-'}:missing={'+'.join(missing) or '-'}", w.where(f),
                          f"scenario [{tag}]: required signers are {sorted(got)}, the specification requires {sorted(want)}")
    ctx.count("signer_scenarios", n)
    # returned set is the one inserted into
    ctx.check(all(D.show(e[1][0]) == D.show(U.payload(p.ret)) for p in okp for e in p.effects), "C03.signers", "C03.signers:returned-set",
              w.where(f), bad_msg="the returned set is not the set the servers were inserted into")

    # the requirements are a conjunction: the set only grows. `insert(a); ...; remove(b)` drops a server that is required for another reason
    # whenever a == b (the sender's server usually IS the event ID's server), which no scenario with distinct symbolic servers shows
    GROW = {"new", "default", "insert", "extend", "from", "from_iter", "contains", "len", "is_empty", "iter", "clone", "append"}
    SHRINK = {"remove", "take", "retain", "clear", "pop_first", "pop_last", "split_off", "drain", "extract_if", "difference", "intersection", "replace"}
    fam = [f] + [g for g in w.crates["ruma_signatures"].all_fns() if g["path"].startswith(f["path"] + "::{closure") and "body" in g]
    set_calls = sorted({M.callee_name(c).rsplit("::", 1)[-1] for g in fam for body in M.all_bodies(g) for _, c in M.calls(body)
                        if re.search(r"BTreeSet|HashSet", M.callee_name(c).rsplit("::", 1)[0])})
    shrink = [c for c in set_calls if c in SHRINK]
    other = [c for c in set_calls if c not in SHRINK and c not in GROW]
    if shrink:
        ctx.violation("C03.signers", "C03.signers:monotone", w.where(f), f"servers_to_check_signatures takes servers out of the required set again ({shrink}): a server "
                      f"required for one reason (event ID's server in v1-v2, authorising user's server) is dropped when it equals the server being removed")
    elif other:
        ctx.unrecognised("C03.signers", "C03.signers:monotone", w.where(f), f"set operations {other} are not known to only add requirements")
    else:
        ctx.ok("C03.signers", "C03.signers:monotone", w.where(f), f"set operations: {set_calls}")

    # ---- verify_event ---------------------------------------------------------------------------
    ctx.rule("C03.verify", "verify_event: redacts a copy with rules.redaction; every server of servers_to_check_signatures(object, rules.signatures) "
                           "is verified over canonical_json(redacted) with `?` before any Ok; Verified::All iff stored sha256 decodes and equals "
                           "content_hash(unredacted object); missing/ill-typed hashes or signatures are errors")
    dexa = D.Dex(w.lookup, adt_discr=w.adt_discr, effects=lambda n: True, models=CLONE, unroll=2, inline=U.sig_inline)
    f = w.fn(f"{FN}::verify_event")
    paths = dexa.paths(f, [D.sym("pkm"), D.sym("object"), D.sym("rules")])
    okp = [p for p in paths if p.kind == "ret" and U.is_ok(p.ret)]
    ctx.floor("verify_event success paths", len(okp), 4)
    RED = "canonical_json::redact(clone(object), rules.redaction, Option::None).Ok.0"
    CJ = f"String::as_bytes(functions::canonical_json({RED}).Ok.0)"
    SERVERS = "functions::servers_to_check_signatures(object, rules.signatures).Ok.0"
    SIGS = "get(object, 'signatures').Some.0.Object.0"
    for p in okp:
        tv = U.true_variants(p)
        nexts = [(s, v) for s, v in tv.items() if s.startswith("Iterator::next(") and SERVERS in s]
        somes = [s for s, v in nexts if v == "Some"]
        nones = [s for s, v in nexts if v == "None"]
        verifs = [e for e in p.effects if e[0] == f"{FN}::verify_canonical_json_for_entity"]
        tag = f"servers={len(somes)}:{D.show(U.payload(p.ret))}"
        good = len(nones) == 1 and len(verifs) == len(somes)
        for s_, e in zip(sorted(somes), verifs):
            a = U.shows(e[1])
            good &= a[0] == f"ServerName::as_str({s_}.Some.0)" and a[1] == "pkm" and a[2].endswith(SIGS) and a[3] == CJ
            res = D.show(dex_ret(e))
            good &= tv.get(res) == "Ok"
        ctx.check(good, "C03.verify", f"C03.verify:all-servers:{tag}", w.where(f),
                  bad_msg=f"not every required server is verified (over the redacted canonical JSON, with the event's signatures) before Ok: "
                          f"{[U.shows(e[1])[:1] for e in verifs]} vs {somes}")
        # hash status
        eqs = [(a, t) for a, t in p.conds if a[0] == "eq" and "content_hash(object)" in D.show_atom(a)]
        parse = [v for s, v in tv.items() if "parse(" in s and "'sha256'" in s]
        status = D.show(U.payload(p.ret))
        if status == "Verified::All":
            good = parse == ["Ok"] and len(eqs) == 1 and eqs[0][1] and "'sha256').Some.0.String.0).Ok.0" in D.show_atom(eqs[0][0])
            # the comparison is whole-value equality of the two digests: each operand is the stored (parsed) digest or the computed one,
            # seen through length-preserving views only (a zip/fold, prefix or sub-slice comparison accepts a truncated stored digest)
            if good:
                sides = [D.show(x) for x in eqs[0][0][1:3]]
                stored = [x for x in sides if "'sha256').Some.0.String.0" in x and "content_hash(" not in x]
                computed = [x for x in sides if "content_hash(object).Ok.0" in x and "'sha256'" not in x]
                whole = len(stored) == 1 and len(computed) == 1 and all(WHOLE_VIEW.fullmatch(x) for x in sides)
                ctx.check(whole, "C03.verify", f"C03.verify:hash-equality:whole-digest:{tag}", w.where(f),
                          bad_msg=f"Verified::All does not require the whole stored digest to equal the whole computed digest: {sides}")
        else:
            good = status == "Verified::Signatures" and (parse == ["Err"] or (len(eqs) == 1 and not eqs[0][1]))
        ch = [e for e in p.effects if e[0] == f"{FN}::content_hash"]
        good &= len(ch) == 1 and U.shows(ch[0][1]) == ["object"]
        ctx.check(good, "C03.verify", f"C03.verify:hash-status:{tag}:{parse}", w.where(f),
                  bad_msg=f"{status} is returned under conditions {[(D.show_atom(a)[:80], t) for a, t in eqs]} parse={parse}")
    errs = {D.show(p.ret) for p in paths if p.kind == "ret" and U.is_err(p.ret)}
    for needle in ("field_missing_from_object('hashes')", "field_missing_from_object('signatures')", "not_of_type('signatures'"):
        ctx.check(any(needle in e for e in errs), "C03.verify", f"C03.verify:error:{needle}", w.where(f), bad_msg=f"no error path for {needle}")
    # no success path may carry a failed verification
    bad = [p for p in okp if any(v == "Err" and "verify_canonical_json_for_entity" in s for s, v in U.true_variants(p).items())]
    ctx.check(not bad, "C03.verify", "C03.verify:no-ignored-failure", w.where(f), bad_msg="a failed signature verification does not fail verify_event")

    hash_and_sign_rule(ctx, w, "C03.hash_and_sign")
    # the required signers are the SERVER NAMES of the sender, of the event id (v1-v2) and of the authorising user: the accessors that cut the
    # server name out of these identifiers must split where the validator looked (an `rfind(':')` takes `8448` out of `$e:host:8448`)
    from . import C10 as _C10
    _C10.split_agreement(ctx, W.World(fx, ["ruma_common", "ruma_identifiers_validation"]), "C03.server-of-id", only=("event_id::EventId", "user_id::UserId"))
    # C03 relies on redaction being the specification's and idempotent (the signed / reference-hashed form is the redacted event, and
    # verification redacts again): the redaction rules of C04 are part of this check
    from . import C04 as _C04
    _C04.run(ctx)
    # "every required server's signature is verified" rests on the per-entity verification of C02 (at least one signature of the entity is actually
    # checked, none failed): those rules are part of this check
    from . import C02 as _C02
    _C02.run(ctx)
    # what is signed / hashed is the canonical JSON form: the canonical-JSON rules of C01 are part of this check
    from . import C01 as _C01
    _C01.run(ctx)
    ctx.assumptions += ["Ed25519 / SHA-256 strength and the behaviour of mutated events follow from C04/C05 tables plus cryptography; not decided here"]
    ctx.samples += [{"scenario": "m.room.member invite with third_party_invite, v1", "signers": ["event_id"]},
                    {"scenario": "m.room.member join with authorising user, v8+", "signers": ["sender", "authoriser"]}]


# a digest operand: Base64::parse(..).Ok.0 / content_hash(object).Ok.0 under views that keep every byte
WHOLE_VIEW = re.compile(r"(?:(?:\w+::)*(?:as_bytes|as_ref|as_slice|as_inner|into_inner|deref|borrow|clone|to_vec|to_owned|encode|to_string)\()*"
                        r"(?:Base64::parse\(BTreeMap::get\(BTreeMap::get\(object, 'hashes'\)\.Some\.0\.Object\.0, 'sha256'\)\.Some\.0\.String\.0\)\.Ok\.0"
                        r"|functions::content_hash\(object\)\.Ok\.0)\)*")


def dex_ret(effect):
    name, args = effect[0], effect[1]
    return D.sym(f"{D.short_name(name)}({', '.join(D.show(a) for a in args)})")
