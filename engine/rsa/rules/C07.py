"""C07 — resolved state equals state resolution v2: structural clauses only (pipeline order and data flow, power events, sort keys, mainline, auth check, set algebra)."""
import json, re
from .. import dex as D, world as W, mir as M, authmodel as A
from . import util as U, tables as T, panic_common as PC

LEVEL = "other"
EXPLANATION = (
    "Structural clauses of the specification's algorithm, decided from MIR: (1) resolve's pipeline: separate -> auth difference chained with "
    "the conflicted events, filtered to known events -> power events -> reverse_topological_power_sort -> iterative_auth_check from the "
    "unconflicted state -> remaining events -> mainline_sort on the resolved (m.room.power_levels, \"\") -> iterative_auth_check from the "
    "partial state -> unconflicted entries written last; each stage's input is the previous stage's output (operand provenance). "
    "(2) is_power_event's decision table equals the specification's definition. (3) the Kahn sort: comparator (power level descending, "
    "timestamp ascending, id ascending) wrapped in Reverse inside a max-heap, nodes pushed only when their out-set became empty, each "
    "popped node emitted once. (4) mainline: positions from rev().enumerate(), no-ancestor default vs. the index range (known finding: "
    "both start at 0). (5) iterative_auth_check inserts the event iff auth_check returned Ok. (6) get_auth_chain_diff keeps ids with "
    "count < number of sets; separate marks a pair unconflicted iff it occurs in every set. Equality of the result with the "
    "specification on all histories is NOT decided (needs executions of a reference model).")
SR = "ruma_state_res::"


def run(ctx):
    fx = ctx.facts("A")
    w = W.World(fx, ["ruma_state_res", "ruma_common", "ruma_events"])

    # ---- pipeline -------------------------------------------------------------------------------------------
    ctx.rule("C07.pipeline", "resolve: stage order and data flow of the v2 algorithm; unconflicted state extended last")
    f = w.fn(SR + "resolve")
    stage = lambda n: n in (SR + "separate", SR + "get_auth_chain_diff", SR + "reverse_topological_power_sort", SR + "iterative_auth_check", SR + "mainline_sort") or \
        re.search(r"HashMap::<[^>]*>::(extend|get)$", n) is not None or n.endswith("Extend<(K, V)>>::extend") or n.endswith("::extend")
    dex = D.Dex(w.lookup, adt_discr=w.adt_discr, ctors=w.ctors, unroll=0, effects=stage, max_paths=100000)
    ps = dex.paths(f, [D.sym("rules"), D.sym("state_sets"), D.sym("auth_chain_sets"), D.sym("fetch_event")])
    full = [p for p in ps if p.kind == "ret" and U.is_ok(p.ret) and len([e for e in p.effects if e[0] == SR + "iterative_auth_check"]) == 2]
    ctx.floor("full resolution paths", len(full), 1)
    for p in full[:1]:
        eff = [(e[0].rsplit("::", 1)[-1], U.shows(e[1])) for e in p.effects]
        names = [n for n, _ in eff]
        order = [n for n in names if n in ("separate", "get_auth_chain_diff", "reverse_topological_power_sort", "iterative_auth_check", "mainline_sort", "extend")]
        good = order == ["separate", "get_auth_chain_diff", "reverse_topological_power_sort", "iterative_auth_check", "mainline_sort", "iterative_auth_check", "extend"]
        ctx.check(good, "C07.pipeline", "C07.pipeline:order", w.where(f), bad_msg=f"stages run in order {order}")
        d = {n: a for n, a in eff}
        args = {}
        for n, a in eff:
            args.setdefault(n, []).append(a)
        SEP = "ruma_state_res::separate(IntoIterator::into_iter(state_sets))"
        rt = args.get("reverse_topological_power_sort", [[]])[0]
        ok_rt = len(rt) == 4 and "is_power_event_id" not in rt[0] and rt[0].startswith("Iterator::collect(Iterator::cloned(Iterator::filter(HashSet::iter(") and rt[2] == "rules"
        # the conflicted set: auth difference chained with the conflicted values, filtered by fetch_event
        allc = rt[1] if len(rt) > 1 else ""
        ok_set = "Iterator::chain(ruma_state_res::get_auth_chain_diff(auth_chain_sets), Iterator::flatten(HashMap::into_values(" + SEP + ".1)))" in allc and "Iterator::filter(" in allc
        ctx.check(ok_rt and ok_set, "C07.pipeline", "C07.pipeline:conflicted-set", w.where(f), bad_msg=f"power sort input {rt[:2]}"[:300])
        iac = args.get("iterative_auth_check", [])
        ok1 = len(iac) == 2 and iac[0][0] == "rules" and iac[0][1].startswith("ruma_state_res::reverse_topological_power_sort(") and iac[0][1].endswith(".Ok.0") and iac[0][2] == SEP + ".0"
        ms = args.get("mainline_sort", [[]])[0]
        loop_form = remaining_by_loop(w, f)
        ok2 = len(ms) == 3 and (ms[0].startswith("Iterator::collect(Iterator::cloned(Iterator::filter(HashSet::iter(") or (ms[0] == "Vec::new()" and loop_form)) and \
            "HashMap::get(ruma_state_res::iterative_auth_check(" in ms[1] and "StateEventType::RoomPowerLevels" in ms[1]
        ok3 = len(iac) == 2 and iac[1][1].startswith("ruma_state_res::mainline_sort(") and iac[1][1].endswith(".Ok.0") and iac[1][2].startswith("ruma_state_res::iterative_auth_check(rules, ruma_state_res::reverse_topological_power_sort(") and iac[1][2].endswith(".Ok.0")
        ctx.check(ok1, "C07.pipeline", "C07.pipeline:power-events-auth", w.where(f), bad_msg=f"first iterative_auth_check gets {iac[:1]}"[:300])
        ctx.check(ok2, "C07.pipeline", "C07.pipeline:mainline-input", w.where(f), bad_msg=f"mainline_sort gets {ms}"[:300])
        ctx.check(ok3, "C07.pipeline", "C07.pipeline:remaining-auth", w.where(f), bad_msg=f"second iterative_auth_check gets {iac[1:]}"[:300])
        ext = args.get("extend", [[]])[-1]
        ok4 = len(ext) == 2 and ext[0].startswith("ruma_state_res::iterative_auth_check(rules, ruma_state_res::mainline_sort(") and ext[1] == SEP + ".0" and names[-1] == "extend" and \
            D.show(p.ret) == f"Result::Ok({ext[0]})"
        ctx.check(ok4, "C07.pipeline", "C07.pipeline:unconflicted-last", w.where(f), bad_msg=f"final extend {ext}, returns {D.show(p.ret)[:120]}"[:300])
    # the two filters: power events, and "not a power event that was sorted"
    clos = {fn["path"]: fn for fn in w.all_fns() if fn["path"].startswith(SR + "resolve::{closure") and "body" in fn}
    calls_by_clo = {p: [M.callee_name(c) for _, c in M.calls(fn["body"])] for p, fn in clos.items()}
    ctx.check(any(SR + "is_power_event_id" in cs for cs in calls_by_clo.values()), "C07.pipeline", "C07.pipeline:power-filter", w.where(f), bad_msg="control events are not selected by is_power_event_id")
    ctx.check(any(any(re.search(r"HashSet::<[^>]*>::contains$", c) for c in cs) for cs in calls_by_clo.values()) or remaining_by_loop(w, f), "C07.pipeline", "C07.pipeline:remaining-filter", w.where(f),
              bad_msg="remaining events are not `full set minus sorted power events`")

    # ---- power events -----------------------------------------------------------------------------------------
    ctx.rule("C07.power_event", "is_power_event: (power_levels | join_rules | create, \"\") or a leave/ban membership whose sender differs from the state key; nothing else")
    f = w.fn(SR + "is_power_event")
    dexp = D.Dex(w.lookup, adt_discr=w.adt_discr, ctors=w.ctors, unroll=0, inline=lambda n: "{closure" in n)
    ps = dexp.paths(f, [D.sym("ev")])
    types = ["RoomPowerLevels", "RoomJoinRules", "RoomCreate", "RoomMember", "RoomMessage"]
    n = 0
    atoms = sorted({a for a in D.all_atoms(ps)}, key=repr)
    bad = []
    for ty in types:
        for sk_empty in (True, False):
            for mem in ("Leave", "Ban", "Join", "Invite", "Knock", "_Custom"):
                for mem_ok in (True, False):
                    for sender_is_target in (True, False):
                        sc = A.Scenario(enums=[(r"^Event::event_type\(ev\)$", ty), (r"membership\(.*\)\.Ok\.0$", mem)],
                                        eqs=[(r"Event::state_key\(.*\)==Option::Some\(''\)|Option::Some\(''\)==Event::state_key", sk_empty),
                                             (r"Option::Some\(UserId::as_str\(Event::sender\(.*==.*state_key|state_key.*==Option::Some\(UserId::as_str", sender_is_target)],
                                        wrappers=[(r"^RoomMemberEvent::membership\(RoomMemberEvent::new\(ev\)\)$", "Ok" if mem_ok else "Err")])
                        cache = {a: sc(a) for a in atoms}
                        sel = [p for p in ps if all(cache.get(a) is None or cache[a] == t for a, t in p.conds)]
                        got = set()
                        for p in sel:
                            got.add(D.eval_bool(p.ret, sc))
                        if ty in ("RoomPowerLevels", "RoomJoinRules", "RoomCreate"):
                            want = sk_empty
                        elif ty == "RoomMember":
                            want = mem_ok and mem in ("Leave", "Ban") and not sender_is_target
                        else:
                            want = False
                        n += 1
                        if got != {want}:
                            bad.append((ty, sk_empty, mem, mem_ok, sender_is_target, got, want))
    ctx.check(not bad, "C07.power_event", "C07.power_event:table", w.where(f), ok_msg=f"{n} scenarios", bad_msg=f"{len(bad)} disagreements, first {bad[:2]}")
    ctx.count("scenarios", n)

    # ---- Kahn sort --------------------------------------------------------------------------------------------------
    ctx.rule("C07.sort", "lexicographical_topological_sort: power level descending, then timestamp and id ascending (Reverse in a max-heap pops the smallest); a node is "
                         "pushed only when its out-set is empty; every popped node is emitted exactly once")
    cmpf = [p for p in w.fn_index if p.startswith("<" + SR + "lexicographical_topological_sort::TieBreaker<") and p.endswith(" as core::cmp::Ord>::cmp")]
    if cmpf:
        fc = w.fn(cmpf[0])
        dx = D.Dex(w.lookup, adt_discr=w.adt_discr)
        psx = dx.paths(fc, [D.sym("self"), D.sym("other")])
        r = re.sub(r"\b\w+::cmp\(", "cmp(", D.show(psx[0].ret)) if len(psx) == 1 else ""
        ctx.check("cmp(other.power_level, self.power_level)" in r and "cmp(self.origin_server_ts, other.origin_server_ts)" in r and "cmp(self.event_id, other.event_id)" in r,
                  "C07.sort", "C07.sort:directions", w.where(fc), bad_msg=f"comparator {r[:200]}")
    else:
        ctx.missing("C07.sort", "C07.sort:directions", "TieBreaker::cmp not found")
    f = w.fn(SR + "lexicographical_topological_sort")
    # helper functions nested in the sort (an extracted `ready_entry(node, key_fn)`) are part of it
    dexs = D.Dex(w.lookup, adt_discr=w.adt_discr, ctors=w.ctors, unroll=1,
                 inline=lambda n: n.startswith(SR + "lexicographical_topological_sort::") and "{closure" not in n and "<" not in n[len(SR):],
                 effects=lambda n: "BinaryHeap" in n or n.endswith("Vec::<T, A>::push") or n.endswith("Vec::<T>::push") or n.endswith("::is_empty") or n.endswith("HashSet::<T, S>::remove"),
                 max_paths=200000)
    try:
        ps = dexs.paths(f, [D.sym("graph"), D.sym("key_fn")])
        pushes_guarded, pops_emitted = True, True
        n_push = 0
        for p in ps:
            if p.kind not in ("ret", "loop"):
                continue
            conds = [(D.show_atom(a), t) for a, t in p.conds]
            for i, e in enumerate(p.effects):
                m = e[0].rsplit("::", 1)[-1]
                if m == "push" and ("BinaryHeap" in e[0] or ("Reverse" in D.show(e[1][1]) and "TieBreaker" in D.show(e[1][1]))):
                    n_push += 1
                    # guarded by `is_empty(out-set)` true on this path
                    tb = D.show(e[1][1])
                    guard = any(t and "is_empty(" in s_ for s_, t in conds)
                    pushes_guarded = pushes_guarded and guard
            pops = [a for a, t in p.conds if t and a[0] == "variant" and a[2] == "Some" and re.fullmatch(r"BinaryHeap::pop\([^.]*\)(#\d+)?", D.show(a[1]))]
            emitted = [e for e in p.effects if e[0].rsplit("::", 1)[-1] == "push" and "BinaryHeap" not in e[0] and "Reverse" not in D.show(e[1][1]) and "event_id" in D.show(e[1][1])]
            if p.kind == "ret" and U.is_ok(p.ret) and len(pops) != len(emitted):
                pops_emitted = False
        ctx.check(n_push > 0 and pushes_guarded, "C07.sort", "C07.sort:ready-only", w.where(f), bad_msg="a node is pushed to the heap without its out-set being empty")
        ctx.check(pops_emitted, "C07.sort", "C07.sort:emit-once", w.where(f), bad_msg="popped nodes and emitted nodes differ")
    except D.Unrecognised as e:
        ctx.unrecognised("C07.sort", "C07.sort:loop", w.where(f), str(e))
    heap = [t for t in f["body"]["locals"] if t.startswith("alloc::collections::binary_heap::BinaryHeap<core::cmp::Reverse<")]
    ctx.check(bool(heap), "C07.sort", "C07.sort:reverse-heap", w.where(f), bad_msg="heap elements are not wrapped in Reverse")

    # ---- mainline ----------------------------------------------------------------------------------------------------
    ctx.rule("C07.mainline", "mainline positions come from rev().enumerate(); an event without mainline ancestor must sort strictly before every mainline position")
    f = w.fn(SR + "mainline_sort")
    names = [M.callee_name(c) for _, c in M.calls(f["body"])]
    ctx.check(any(n_.endswith("Iterator::rev") for n_ in names) and any(n_.endswith("Iterator::enumerate") for n_ in names), "C07.mainline", "C07.mainline:positions", w.where(f),
              bad_msg="mainline positions are not rev().enumerate()")
    # index offset in the map closure vs default of get_mainline_depth
    offset = None
    for cf in w.all_fns():
        if cf["path"].startswith(SR + "mainline_sort::{closure") and "body" in cf and any(t.startswith("(usize, &") or "(usize," in t for t in cf["body"]["locals"][:3]):
            dx = D.Dex(w.lookup, adt_discr=w.adt_discr, ctors=w.ctors)
            psx = dx.paths(cf, [D.sym("env"), ("tup", (D.sym("idx"), D.sym("eid")))])
            if len(psx) == 1 and psx[0].ret is not None and psx[0].ret[0] == "tup" and len(psx[0].ret[1]) == 2:
                second = D.show(psx[0].ret[1][1])
                offset = 0 if second == "idx" else (1 if second.replace(" ", "") in ("AddWithOverflow(idx,1)",) else second)
    fd = w.fn(SR + "get_mainline_depth")
    dxd = D.Dex(w.lookup, adt_discr=w.adt_discr, ctors=w.ctors, unroll=0)
    default = None
    for p in dxd.paths(fd, [D.sym("event"), D.sym("mainline_map"), D.sym("fetch_event")]):
        if p.kind == "ret" and U.is_ok(p.ret) and D.is_const(U.payload(p.ret)):
            default = U.payload(p.ret)[1]
    if offset is None or default is None:
        ctx.unrecognised("C07.mainline", "C07.mainline:default-depth", w.where(fd), f"could not read index offset ({offset}) / default depth ({default})")
    else:
        ctx.check(isinstance(offset, int) and default < offset, "C07.mainline", "C07.mainline:default-depth-collides", w.where(fd),
                  bad_msg=f"events without a mainline ancestor get depth {default}, mainline positions start at {offset}: they tie with events attached to the oldest "
                          f"mainline event and are then ordered by timestamp, whereas the specification orders them strictly first")

    # ---- the walk to the closest mainline event is not cut short ---------------------------------------------------------------------------
    ctx.rule("C07.mainline-walk", "get_mainline_depth gives the default depth only when the walk up the power-levels chain has ended (no event, or an event "
                                  "without a power-levels auth event): never while a next power-levels event is still to be looked up (no bound on the walk)")
    dexw = D.Dex(w.lookup, adt_discr=w.adt_discr, ctors=w.ctors, unroll=1, max_paths=400000, inline=lambda n_: "{closure" in n_)
    try:
        wps = [p for p in dexw.paths(fd, [D.sym(x) for x in ["event", "mainline_map", "fetch_event"]]) if p.kind == "ret"]
        cut = []
        n_def = 0
        for p in wps:
            if not (U.is_ok(p.ret) and D.is_const(U.payload(p.ret))):
                continue
            n_def += 1
            pending = False
            for a, t in p.conds:
                sa = D.show_atom(a)
                if "is_type_and_key(" in sa and t:
                    pending = True                       # a power-levels auth event was found: it is the next event of the walk
                elif re.search(r"HashMap::get\(mainline_map, ", sa):
                    pending = False                      # ... and it has been looked up in the mainline
            if pending:
                cut.append([D.show_atom(a)[:70] for a, t in p.conds if t][-2:])
        ctx.check(n_def >= 2 and not cut, "C07.mainline-walk", "C07.mainline-walk:default-only-at-the-end", w.where(fd),
                  bad_msg=f"the default depth is returned while a power-levels event found in the auth events has not been looked up yet (last conditions: "
                          f"{cut[:1]}): an event whose chain of off-mainline power-levels events is longer than the bound sorts as if it predated the mainline")
    except D.Unrecognised as e:
        ctx.unrecognised("C07.mainline-walk", "C07.mainline-walk:default-only-at-the-end", w.where(fd), str(e))

    # ---- iterative auth check -------------------------------------------------------------------------------------------
    ctx.rule("C07.auth", "iterative_auth_check adds the event to the resolved state iff auth_check returned Ok, under its own (type, state key)")
    f = w.fn(SR + "iterative_auth_check")
    body = f["body"]
    defs = PC.roots(body)
    cfg = M.Cfg(body)
    ac = [(bi, c) for bi, c in M.calls(body) if M.callee_name(c).endswith("event_auth::auth_check")]
    ins = [(bi, c) for bi, c in M.calls(body) if re.search(r"HashMap::<[^>]*>::insert$", M.callee_name(c)) and json.dumps(PC.expr(body, defs, c["args"][0])).startswith('["arg", 3]')]
    good = len(ac) == 1 and len(ins) == 1
    if good:
        # the insert is reachable from the auth_check only through the Ok arm of the switch on its result
        acb, insb = ac[0][0], ins[0][0]
        sw = None
        cur = ac[0][1]["target"]
        for _ in range(6):
            t = body["blocks"][cur]["t"]
            if t[0] == "switch":
                sw = (cur, t)
                break
            nxt = cfg.succ[cur]
            if len(nxt) != 1:
                break
            cur = nxt[0]
        good = sw is not None
        if good:
            # `match r { Ok(()) => .., Err(e) => .. }` lists discriminant 0; `if let Err(e) = r { .. } else { .. }` lists 1 and leaves Ok to `otherwise`
            if any(v == 0 for v, b in sw[1][2]):
                ok_targets = [b for v, b in sw[1][2] if v == 0]
                other = [b for v, b in sw[1][2] if v != 0] + [sw[1][3]]
            else:
                ok_targets = [sw[1][3]] if any(v == 1 for v, b in sw[1][2]) else []
                other = [b for v, b in sw[1][2]]
            good = bool(ok_targets) and cfg.reaches(ok_targets[0], [insb]) and not any(cfg.reaches(o, [insb], avoid=[sw[0], acb]) for o in other if o not in ok_targets)
        keyx = json.dumps(PC.expr(body, defs, ins[0][1]["args"][1]))
        good = good and "with_state_key" in keyx and "Event::event_type" in keyx
    ctx.check(good, "C07.auth", "C07.auth:insert-iff-ok", w.where(f), bad_msg="the event is inserted on a path that does not come from auth_check's Ok result (or under a foreign key)")

    power_level_scan(ctx, w, "C07.power-level-scan")
    # the sort key of a power event is its sender's power level as the authorization rules define it (entry in `users`, else users_default, the
    # creator's 100 without a power-levels event, the defaults of absent fields): the level rules of C08 are part of this property
    from . import C08 as _C08, C08_levels as _C08L
    _C08L.run(ctx, w, _C08.load_model(), T.version_rules(ctx, w, ["authorization"]))
    # iterative_auth_check takes the entries named by auth_types_for_event from the partial state: "authorised against the partial state" holds only
    # if that selection is the specification's, so the auth-event selection rules of C09 are part of this check
    from . import C09 as _C09
    _C09.run(ctx)
    # reverse topological power ordering is the Kahn sort with the TieBreaker order the heap really uses (Ord AND PartialOrd) and the mainline key:
    # the order rules of C06 are part of this check
    from . import C06 as _C06
    _C06.run(ctx)

    # ---- the graph handed to the Kahn sort ----------------------------------------------------------------------------------
    ctx.rule("C07.graph", "add_event_and_auth_chain_to_graph: for every auth event of a visited event that is in the auth difference, the edge event -> auth event is "
                          "recorded - whether or not that auth event was reached before (only the push onto the work list depends on that); no other edge is recorded")
    fg = w.fn(SR + "add_event_and_auth_chain_to_graph")
    try:
        dxg = D.Dex(w.lookup, adt_discr=w.adt_discr, unroll=1, effects=lambda n: n.rsplit("::", 1)[-1] in ("insert", "extend"), inline=lambda n: False, max_paths=100000)
        gp = [p for p in dxg.paths(fg, [D.sym("graph"), D.sym("event_id"), D.sym("auth_diff"), D.sym("fetch")]) if p.kind == "ret"]
        badg, n_true = [], 0
        for p in gp:
            def _views(x):
                while True:
                    m_ = re.match(r"^(?:\w+::)*(?:borrow|clone|deref|as_ref|to_owned)\((.*)\)$", x)
                    if not m_:
                        return x.replace(" ", "")
                    x = m_.group(1)
            want = sorted(_views(re.match(r"^(?:\w+::)*contains\(auth_diff, (.*)\)$", D.show_atom(a)).group(1))
                          for a, t in p.conds if t and re.match(r"^(?:\w+::)*contains\(auth_diff, ", D.show_atom(a)))
            got = sorted(_views(U.shows(e[1])[1]) for e in p.effects if e[0].endswith("::insert") and len(e[1]) == 2 and "graph" in U.shows(e[1])[0])
            n_true += len(want)
            if want != got:
                badg.append(([x[-60:] for x in want[:2]], [x[-60:] for x in got[:2]]))
        ctx.floor("completed paths of add_event_and_auth_chain_to_graph with an auth event in the difference", n_true, 2)
        ctx.check(not badg, "C07.graph", "C07.graph:every-edge", w.where(fg),
                  bad_msg=f"edges recorded differ from the auth events that are in the difference (wanted vs recorded): {badg[:1]} - an edge to an auth event that was already "
                          f"in the graph is dropped, so a power event can be sorted before the event it depends on")
    except D.Unrecognised as e:
        ctx.unrecognised("C07.graph", "C07.graph:every-edge", w.where(fg), str(e))

    # ---- set algebra -----------------------------------------------------------------------------------------------------
    ctx.rule("C07.sets", "get_auth_chain_diff keeps an id iff it is in fewer sets than there are sets; separate: unconflicted iff the (key, id) pair occurs in every state set")
    clos = [fn for fn in w.all_fns() if fn["path"].startswith(SR + "get_auth_chain_diff::{closure") and "body" in fn]
    # accepted shapes: filter_map(|(id, count)| (count < n).then_some(id))  /  filter(|(_, count)| *count < n).map(|(id, _)| id)
    select = pred = proj = False
    caps = set()
    for cf in clos:
        dx = D.Dex(w.lookup, adt_discr=w.adt_discr, ctors=w.ctors)
        ps = dx.paths(cf, [D.sym("env"), ("tup", (D.sym("id"), D.sym("count")))])
        for p in ps:
            for a, t in p.conds:
                m_ = re.fullmatch(r"env\.(?:_ref__)?(\w+)", D.show(a[3])) if a[0] == "cmp" else None
                if m_ and D.show(a[2]) == "count" and t and D.show(p.ret) == "Option::Some(id)":
                    select = True
                    caps.add(m_.group(1))
            r = D.show(p.ret).replace(" ", "")
            m_ = re.fullmatch(r"bool::then_some\(count<env\.(?:_ref__)?(\w+),id\)", r)
            if not p.conds and m_:
                select = True
                caps.add(m_.group(1))
            m_ = re.fullmatch(r"count<env\.(?:_ref__)?(\w+)", r)
            if not p.conds and len(ps) == 1 and m_:
                pred = True
                caps.add(m_.group(1))
            if not p.conds and len(ps) == 1 and r == "id":
                proj = True
    gf = w.fn(SR + "get_auth_chain_diff")
    adaptors = {M.callee_name(c).rsplit("::", 1)[-1] for _, c in M.calls(gf["body"])}
    # the captured bound, whatever it is called, is the number of auth chain sets: a local of get_auth_chain_diff assigned from `len` of the argument
    names_ = gf["body"].get("names") or {}
    defs_ = PC.roots(gf["body"])
    def is_set_count(name):
        for k_, v_ in names_.items():
            if v_ == name:
                d_ = defs_.get(int(k_))
                if d_ is not None and d_[0] == "call" and M.callee_name(d_[1]).rsplit("::", 1)[-1] == "len" and d_[1]["args"] and \
                   json.dumps(PC.expr(gf["body"], defs_, d_[1]["args"][0])).count('["arg", 1]') == 1:
                    return True
        return False
    bound_ok = len(caps) == 1 and is_set_count(next(iter(caps)))
    okd = bound_ok and ((select and "filter_map" in adaptors) or (pred and proj and {"filter", "map"} <= adaptors))
    auth_diff_operand(ctx, w, "C07.sets", "C07.sets:auth-diff-operand")
    ctx.check(okd, "C07.sets", "C07.sets:auth-diff", w.where(w.fn(SR + "get_auth_chain_diff")), bad_msg="auth difference is not `count < num_sets`")
    f = w.fn(SR + "separate")
    eqs = []
    for b in f["body"]["blocks"]:
        for st in b["s"]:
            if st[0] == "=" and st[2][0] == "bin" and st[2][1] == "Eq" and st[2][2].get("k") != "const" and st[2][3].get("k") != "const":
                eqs.append(st)
    defs = PC.roots(f["body"])
    good = False
    for st in eqs:
        a, b_ = json.dumps(PC.expr(f["body"], defs, st[2][2])), json.dumps(PC.expr(f["body"], defs, st[2][3]))
        if ("Iterator>::next" in a) != ("Iterator>::next" in b_):
            good = True
    ctx.check(good and len(eqs) == 1, "C07.sets", "C07.sets:separate", w.where(f), bad_msg="unconflicted test is not `occurrences == number of state sets`")
    ctx.assumptions += ["equality of the resolved state with the specification's algorithm on all histories is not decided"]
    ctx.samples += [{"clause": "unconflicted state written last", "effect": "HashMap::extend(resolved_state, clean) is the final effect before Ok"}]


def power_level_scan(ctx, w, rule):
    # ---- the sort key does not depend on the order of an event's auth_events -------------------------------------------------------
    ctx.rule(rule, "get_power_level_for_sender leaves the loop over the event's auth_events early only once it has seen the power-levels event AND knows "
                                     "the creator (cached, or the create event): the order in which a PDU lists its auth events is arbitrary, and without the "
                                     "creator the function falls back to users_default for every sender")
    fpl = w.fn(SR + "get_power_level_for_sender")
    dexp2 = D.Dex(w.lookup, adt_discr=w.adt_discr, ctors=w.ctors, unroll=2, max_paths=400000, inline=lambda n: "{closure" in n)
    n_break, bad = 0, []
    for pth in dexp2.paths(fpl, [D.sym(x) for x in ["event_id", "rules", "creator_lock", "fetch_event"]]):
        if pth.kind != "ret":
            continue
        conds = [(D.show_atom(a), t) for a, t in pth.conds]
        nexts = [(a, t) for a, t in conds if re.match(r"^(?:\w+::)*next\(", a) and " is " in a and t]     # Iterator::next / iter::next / <I>::next
        if not nexts or nexts[-1][0].endswith(" is None"):
            continue                 # no loop, or the list was exhausted
        n_break += 1
        seen = {("PL" if "RoomPowerLevels" in a else "CR") for a, t in conds if "is_type_and_key(" in a and t}
        cached = ("OnceLock::get(creator_lock) is Some", True) in conds
        need = {"PL"} if cached else {"PL", "CR"}
        if not need <= seen:
            bad.append((sorted(seen), cached))
    ctx.check(n_break >= 2 and not bad, rule, f"{rule}:early-exit", w.where(fpl),
              ok_msg=f"{n_break} early exits, each after the power levels and the creator are known",
              bad_msg=f"the scan of auth_events stops after seeing only {bad[0][0] if bad else '?'} (creator cached: {bad[0][1] if bad else '?'}): an event that lists "
                      f"m.room.power_levels before m.room.create gets users_default instead of the sender's level as its sort key")



def remaining_by_loop(w, f):
    """Loop form of `all_conflicted.iter().filter(|id| !sorted.contains(id)).cloned().collect()`: the vector handed to mainline_sort is a
    Vec::new() that receives exactly one push, of a clone of the element of a loop over the full conflicted set, under a dominating
    `sorted_power_events.contains(element) == false`."""
    import json as _json
    body = f["body"]
    defs = PC.roots(body)
    cfg = M.Cfg(body)
    target = None
    for bi, c in M.calls(body):
        if M.callee_name(c).endswith("ruma_state_res::mainline_sort"):
            e = PC.expr(body, defs, c["args"][0])
            while e[0] == "call" and e[1].rsplit("::", 1)[-1] in ("deref", "as_slice", "as_ref", "borrow") and len(e[2]) == 1:
                e = e[2][0]
            target = e
    if not (target and target[0] == "call" and target[1].endswith("Vec::<T>::new")):
        return False
    pushes = []
    for bi, c in M.calls(body):
        if M.callee_name(c).endswith("::push") and "Vec" in M.callee_name(c):
            recv = PC.expr(body, defs, c["args"][0])
            if recv == target:
                pushes.append((bi, PC.expr(body, defs, c["args"][1])))
    if len(pushes) != 1:
        return False
    bi, val = pushes[0]
    if not (val[0] == "call" and val[1].rsplit("::", 1)[-1] == "clone" and len(val[2]) == 1):
        return False
    elem = val[2][0]
    et = _json.dumps(elem)
    if not ("Iterator>::next" in et and "get_auth_chain_diff" in et):
        return False       # not an element of a loop over the full conflicted set
    for g, truth in PC.dominating_guards(cfg, body, defs, bi):
        if g[0] == "call" and g[1].rsplit("::", 1)[-1] == "contains" and "HashSet" in g[1] and not truth and len(g[2]) == 2:
            probe = g[2][1]
            while probe[0] == "call" and probe[1].rsplit("::", 1)[-1] in ("borrow", "as_ref", "deref") and len(probe[2]) == 1:
                probe = probe[2][0]
            if "reverse_topological_power_sort" in _json.dumps(g[2][0]) and _same_expr(probe, elem):
                return True
    return False


def _same_expr(a, b):
    """Structural equality of two PC.expr trees; a depth-truncated subtree ("?",) matches anything."""
    if a == ("?",) or b == ("?",):
        return True
    if isinstance(a, tuple) and isinstance(b, tuple):
        return len(a) == len(b) and all(_same_expr(x, y) for x, y in zip(a, b))
    return a == b


def auth_diff_operand(ctx, w, rule, key):
    """get_auth_chain_diff only measures (len) and consumes (into_iter / iter) its vector of sets: the count of an id is compared with the
    number of sets that were actually counted, whatever their order."""
    gf = w.fn(SR + "get_auth_chain_diff")
    touch = []
    defs = PC.roots(gf["body"])
    for _, c in M.calls(gf["body"]):
        for o in c["args"][:1]:
            if o.get("k") in ("copy", "move") and (M.pl_local(o["pl"]) == 1 or PC.expr(gf["body"], defs, o) == ("arg", 1)):
                touch.append(M.callee_name(c).rsplit("::", 1)[-1])
    allowed = {"len", "into_iter", "iter", "deref", "as_slice"}
    ctx.check(set(touch) <= allowed and "len" in touch, rule, key, w.where(gf),
              bad_msg=f"get_auth_chain_diff applies {sorted(set(touch) - allowed)} to the vector of auth chain sets: the number of sets counted then differs from "
                      f"num_sets (e.g. Vec::dedup removes adjacent equal chains only, so the result depends on the order of the forks)")
