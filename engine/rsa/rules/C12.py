"""C12 — push evaluation: kind priority, first match, own events, disabled rules, condition dispatch, operator table, key escaping order."""
import re, json
from .. import dex as D, world as W, mir as M, authmodel as A
from . import util as U
from . import panic_common as PC

LEVEL = "other"
EXPLANATION = (
    "Decided from MIR (DEX): the ruleset iterators yield override, content, room, sender, underride in that order, each field wrapped in "
    "the variant of the same kind and wired from the field of the same name; get_match returns None for the user's own events and "
    "otherwise iter().find(applies) (first match, no reordering or filtering), get_actions the actions of that rule or none; every "
    "kind's `applies` is false when `enabled` is false and false for own events; room / sender rules compare room_id / sender with "
    "the rule id, content rules match `content.body`; PushCondition::applies dispatches every variant to its own check and _Custom to "
    "false; word matching is requested exactly for content.body and display names; RoomMemberCountIs' prefix -> operator table; "
    "escape_key escapes backslashes before dots and nested paths are joined with a bare dot; rules of one kind are keyed by rule_id only. "
    "Glob / word-boundary / regex matching semantics and FlattenedJson for all JSON are NOT decided (value-level).")
PU = "ruma_common::push::"
KINDS = [("override_", "Override"), ("content", "Content"), ("room", "Room"), ("sender", "Sender"), ("underride", "Underride")]


def escape_loop_shape(w, f):
    """escape_key written as one pass over key.chars(): with the loop unrolled once, a key of exactly one character c must produce `\\\\` for a
    backslash, `\\.` for a dot and c itself otherwise, consuming exactly one character per iteration. Returns (ok, explanation)."""
    dex = D.Dex(w.lookup, adt_discr=w.adt_discr, unroll=1, effects=lambda n: n.endswith(("String::push", "String::push_str")) or re.search(r"(^|::)next$", n) is not None)
    try:
        paths = dex.paths(f, [D.sym("key")])
    except D.Unrecognised as e:
        return False, f"escape_key has neither the two replace calls nor a recognisable character loop ({e})"
    seen = {}
    for p in paths:
        if p.kind != "ret":
            continue
        conds = [(D.show_atom(a), t) for a, t in p.conds]
        nexts = [e for e in p.effects if e[0].rsplit("::", 1)[-1] == "next"]
        if not nexts:
            # a shortcut that returns the key as it is: only when the key contains neither special character
            sc = [a for a, t in conds if re.match(r"^str::contains\(key, ", a) and not t]
            if len(sc) == 1 and set(re.findall(r"'((?:\\\\)|[^'])'", sc[0])) >= {".", "\\\\"}:
                continue
            return False, f"escape_key returns without looking at the characters under {conds[:2]}"
        if not any(re.search(r"next\(.*\)#2 is None$", a) and t for a, t in conds):
            continue                                   # more than one character: covered by the one-character paths, the loop body is the same
        if len(nexts) != 2:
            return False, f"one loop iteration consumes {len(nexts) - 1} characters (a character after a backslash is copied without being escaped)"
        first = next((re.sub(r" is Some$", "", a) for a, t in conds if re.search(r"next\([^#]*\) is Some$", a) and t), None)
        cls = "other"
        for a, t in conds:
            m = re.fullmatch(re.escape(first or "?") + r"\.Some\.0==(\d+)", a)
            if m and t:
                cls = {92: "backslash", 46: "dot"}.get(int(m.group(1)), "other:" + m.group(1))
        out = ""
        for e in p.effects:
            if e[0].rsplit("::", 1)[-1] in ("push", "push_str"):
                v = e[1][1]
                if D.is_const(v):
                    out += v[1] if isinstance(v[1], str) else chr(v[1])
                elif first and D.show(v) == first + ".Some.0":
                    out += {"backslash": "\\", "dot": "."}.get(cls, "<c>")
                else:
                    out += "<?>"
        seen[cls] = out
    want = {"backslash": "\\\\", "dot": "\\.", "other": "<c>"}
    got = {k: seen.get(k) for k in want}
    if got != want:
        return False, f"a one-character key is escaped as {got}, expected {want}"
    return True, "single pass over chars(): backslash -> two backslashes, dot -> backslash dot, one character consumed per iteration"


def keys_rule(ctx, w, rule):
    """Rules of one kind are identified by rule_id only (shared with C13: the IndexSets keep ids unique per kind only if Hash / Eq agree with the id)."""
    ctx.rule(rule, "rules of one kind are identified by rule_id only: Hash / PartialEq / Equivalent<str> of the three rule types read nothing but rule_id")
    n = 0
    for ty in ("ConditionalPushRule", "PatternedPushRule", "SimplePushRule<T>"):
        for tr, meth in (("core::hash::Hash", "hash"), ("core::cmp::PartialEq", "eq")):
            cands = [p for p in w.fn_index if p.startswith(f"<{PU}{ty} as {tr}") and p.endswith("::" + meth)]
            for p in cands:
                fn = w.fn(p)
                n += 1
                fields = set()
                for body in M.all_bodies(fn):
                    for b in body["blocks"]:
                        for st in b["s"]:
                            collect_fields(st, fields)
                        collect_fields(b["t"], fields)
                ctx.check(fields <= {"rule_id"} and "rule_id" in fields, rule, f"{rule}:{ty}:{tr.rsplit('::', 1)[-1]}", w.where(fn),
                          bad_msg=f"{p} reads fields {sorted(fields)} (uniqueness per kind must depend on rule_id only)")
    ctx.floor("key impls", n, 6)


def list_order_rule(ctx, w, rule):
    """No function of ruma_common::push disturbs the order of a rule list (shared with C13: the order after any edit is the documented one)."""
    ctx.rule(rule, "no function of ruma_common::push disturbs the order of a rule list: the IndexSets are only changed by order-preserving operations "
                               "(insert, shift_remove/shift_take, move_index under C13's rules, retain, extend) - never swap_remove/swap_take, sort or reverse, "
                               "which would change which rule is the FIRST match")
    DISTURB = re.compile(r"indexmap::(set::IndexSet|map::IndexMap)::<.*>::(swap_remove\w*|swap_take|swap_indices|sort\w*|reverse|pop|swap_remove_index)$")
    n_ops, dist = 0, []
    for g in w.all_fns():
        if "body" not in g or not g["path"].replace("<", "").startswith((PU, "ruma_common::push::")) and "ruma_common::push::" not in g["path"]:
            continue
        for body in M.all_bodies(g):
            for _, c in M.calls(body):
                nm = M.callee_name(c)
                if nm.startswith("indexmap::"):
                    n_ops += 1
                    if DISTURB.search(nm):
                        dist.append((re.sub(r"(::\{closure#\d+\})+", "", g["path"]).rsplit("::", 2)[-2:], nm.rsplit("::", 1)[-1], c["line"], g))
    seen_lo = set()
    for gp, op, line, g in dist:
        if ("::".join(gp), op) in seen_lo:
            continue
        seen_lo.add(("::".join(gp), op))
        ctx.violation(rule, f"{rule}:{'::'.join(gp)}:{op}", w.where(g, line),
                      f"{'::'.join(gp)} calls IndexSet::{op}, which moves another rule into the vacated position: the relative order of the remaining (user-defined) "
                      f"rules changes, and with it the first matching rule")
    if not dist:
        ctx.ok(rule, f"{rule}:scan", "", f"{n_ops} indexmap operations in ruma_common::push, none order-disturbing")
    ctx.floor("indexmap operations in ruma_common::push", n_ops, 15)


def word_skip_rule(ctx, w, rule):
    """The literal (no wildcard) branch of matches_word looks at one occurrence of the pattern at a time. After an occurrence without word boundaries it
    moves on to the start of the NEXT WORD: first to the next non-word character at or after the occurrence, then to the next word character. Both steps are
    needed and both predicates matter: skipping to whitespace instead loses an occurrence that follows punctuation (`bobby,bob`), and without the second
    step a pattern that starts with a non-word character is found at offset 0 again and the loop never ends. Decided on the MIR: the value assigned back to
    the loop variable is `value[start..][find(!is_word_char)..][find(is_word_char)..]`."""
    ctx.rule(rule, "matches_word (no wildcard): the text searched next is the rest of the value from the next word on - two nested `find`s, the first with the predicate "
                   "`!c.is_word_char()`, the second with `c.is_word_char()` (progress: at least one character is consumed in every iteration)")
    fs = [g for g in w.all_fns() if g["path"].endswith("StrExt>::matches_word") and "body" in g]
    if len(fs) != 1:
        ctx.missing(rule, f"{rule}:matches_word", "matches_word not found")
        return
    f = fs[0]
    body = f["body"]
    defs = PC.roots(body)
    names = body.get("names") or {}
    vl = [int(k) for k, v in names.items() if v == "value"]
    dx = D.Dex(w.lookup, adt_discr=w.adt_discr, inline=lambda n: False)
    sems = []
    for bi, c in M.calls(body):
        if not M.callee_name(c).endswith("<impl str>::find"):
            continue
        fa = (c.get("fnargs") or [""])[-1]
        m = re.search(r"\{closure@[^:]+:(\d+):\d+", fa)
        if fa in ("&str", "char", "&alloc::string::String"):
            continue                      # the search for the pattern itself
        if not m:
            sems.append("other:" + fa[:60])
            continue
        clo = [g for g in w.all_fns() if g["path"].startswith(f["path"] + "::{closure") and "body" in g and g["span"][1] == int(m.group(1))]
        r = ""
        if len(clo) == 1:
            ps = [p for p in dx.paths(clo[0], [D.sym("env"), D.sym("c")])]
            r = D.show(ps[0].ret) if len(ps) == 1 and not ps[0].conds else ""
        sems.append("neg" if re.fullmatch(r"!\(?(?:\w+::)*is_word_char\(c\)\)?", r) else ("pos" if re.fullmatch(r"(?:\w+::)*is_word_char\(c\)", r) else "other:" + r[:60]))
    reassigned = []
    for b in body["blocks"]:
        for st in b["s"]:
            if st[0] == "=" and st[1] in vl and st[2][0] == "use":
                e = PC.expr(body, defs, st[2][1])
                if "<impl str>::find" in json.dumps(e):        # the initial `value = self` is not a step of the loop
                    reassigned.append(json.dumps(e))
    nested = len(reassigned) == 1 and reassigned[0].count('["agg", "closure", []]') == 3 and reassigned[0].count("<impl str>::find") >= 4
    ctx.check(bool(vl) and sems == ["neg", "pos"] and nested, rule, f"{rule}:matches_word", w.where(f),
              bad_msg=f"the literal branch of matches_word does not move on to the start of the next word (predicates of the skipping searches, in order: {sems}; "
                      f"{len(reassigned)} reassignment(s) of the searched text, nested as non-word-then-word: {nested}): an occurrence after punctuation is skipped, or the "
                      f"same occurrence is found again at offset 0 and the loop does not terminate")


def run(ctx):
    fx = ctx.facts("A")
    w = W.World(fx, ["ruma_common"])
    def helper(n):
        # closures, and private free functions of the push modules other than the ones the rules name
        if "{closure" in n:
            return True
        for mod in (PU + "condition::", PU + "iter::", PU):
            if n.startswith(mod):
                rest = n[len(mod):]
                if "::" not in rest and "<" not in rest:
                    return rest not in ("check_event_match", "insert_and_move_rule")
        return False
    dex = D.Dex(w.lookup, adt_discr=w.adt_discr, unroll=1, inline=helper, ctors=w.ctors)

    ctx.rule("C12.order", "RulesetIter / RulesetIntoIter::next: override, content, room, sender, underride; variant matches field; IntoIterator wires same-named fields")
    for it, wrap in (("RulesetIter<'a>", "AnyPushRuleRef"), ("RulesetIntoIter", "AnyPushRule")):
        f = w.fn(f"<{PU}iter::{it} as core::iter::traits::iterator::Iterator>::next")
        paths = dex.paths(f, [D.sym("self")])
        got = []
        for p in paths:
            nones = [D.show(a[1]) for a, t in p.conds if a[0] == "variant" and t and a[2] == "None"]
            somes = [D.show(a[1]) for a, t in p.conds if a[0] == "variant" and t and a[2] == "Some"]
            if somes:
                got.append((len(nones), [n.split("self.")[1].rstrip(")") for n in nones], somes[0].split("self.")[1].rstrip(")"), D.show(p.ret)))
        got.sort()
        good = len(got) == 5
        for i, (nn, nones, fieldname, ret) in enumerate(got):
            fld, var = KINDS[i]
            good = good and nn == i and fieldname == fld and nones == [k for k, _ in KINDS[:i]] and ret.startswith(f"Option::Some({wrap}::{var}(") and f"next(self.{fld})" in ret
        ctx.check(good, "C12.order", f"C12.order:{it}", w.where(f), bad_msg=f"iteration order / wrapping: {[(g[2], g[3][:50]) for g in got]}")
    for name, ty in ((f"{PU}iter::<impl core::iter::traits::collect::IntoIterator for &'a {PU}Ruleset>::into_iter", "RulesetIter"),
                     (f"{PU}iter::<impl core::iter::traits::collect::IntoIterator for {PU}Ruleset>::into_iter", "RulesetIntoIter")):
        f = w.fn(name)
        ps = dex.paths(f, [D.sym("self")])
        good = len(ps) == 1 and ps[0].ret is not None and ps[0].ret[0] == "adt"
        if good:
            for fld, v in ps[0].ret[3]:
                good = good and f"(self.{fld})" in D.show(v)
            good = good and len(ps[0].ret[3]) == 5
        ctx.check(good, "C12.order", f"C12.order:into_iter:{ty}", w.where(f), bad_msg=f"{[D.show(p.ret)[:200] for p in ps]}")

    ctx.rule("C12.match", "get_match: own event -> None, else the first rule of iter() whose applies() holds; get_actions = its actions or empty")
    f = w.fn(PU + "Ruleset::get_match")
    ps = dex.paths(f, [D.sym("self"), D.sym("event"), D.sym("context")])
    # `iter().find(|r| r.applies(..))` and `for r in iter() { if r.applies(..) { return Some(r) } } None` unroll to the same paths
    own = [p for p in ps if any(a[0] == "eq" and t and "context.user_id" in D.show_atom(a) for a, t in p.conds)]
    other = [p for p in ps if p not in own and p.kind == "ret"]
    good = bool(own) and all(D.show(p.ret) == "Option::None" for p in own) and bool(other)
    okc = bool(other)
    NEXT = "Iterator::next(IntoIterator::into_iter(Ruleset::iter(self)))"
    for p in other:
        conds = [(D.show_atom(a), t) for a, t in p.conds]
        nexts = [(a, t) for a, t in conds if a.startswith(NEXT) and " is " in a]
        appl = [(a, t) for a, t in conds if a.startswith("AnyPushRuleRef::applies(")]
        elems = [a[:-len(" is Some")] + ".Some.0" for a, t in nexts if a.endswith(" is Some") and t]
        r = D.show(p.ret)
        # every applies() is on the element just produced, with (flattened event, context); the first true one is returned
        okc = okc and len(appl) == len(elems) and all(a.startswith(f"AnyPushRuleRef::applies({e}, FlattenedJson::from_raw(event), context)") for (a, t), e in zip(appl, elems))
        if r == "Option::None":
            good = good and all(not t for a, t in appl) and bool(nexts) and nexts[-1][0].endswith(" is None")
        else:
            good = good and bool(appl) and appl[-1][1] is True and all(not t for a, t in appl[:-1]) and r == f"Option::Some({elems[-1]})"
    ctx.check(good, "C12.match", "C12.match:get_match", w.where(f), bad_msg=f"{[D.show(p.ret)[:100] for p in ps]}"[:600])
    ctx.check(okc, "C12.match", "C12.match:find-predicate", w.where(f), bad_msg="the selection predicate is not rule.applies(event, context) on each rule in turn")
    f = w.fn(PU + "Ruleset::get_actions")
    ps = dex.paths(f, [D.sym("self"), D.sym("event"), D.sym("context")])
    rets = {U.true_variants(p).get("Ruleset::get_match(self, event, context)"): D.show(p.ret) for p in ps}
    good = set(rets) == {"Some", "None"} and "actions(" in rets["Some"] and "get_match(self, event, context).Some.0" in rets["Some"] and "actions" not in rets["None"]
    ctx.check(good, "C12.match", "C12.match:get_actions", w.where(f), bad_msg=f"{rets}")

    ctx.rule("C12.kinds", "AnyPushRuleRef::applies: false for own events; Override/Underride -> ConditionalPushRule::applies; Content -> applies_to(\"content.body\"); "
                          "Room/Sender -> enabled && check_event_match(room_id|sender, rule_id); every kind is false when disabled")
    f = w.fn(PU + "iter::AnyPushRuleRef::<'a>::applies")
    ps = dex.paths(f, [D.sym("self"), D.sym("event"), D.sym("context")])
    by = {}
    for p in ps:
        v = [a[2] for a, t in p.conds if a[0] == "variant" and t and D.show(a[1]) == "self"]
        own_ev = any(a[0] == "eq" and t and "context.user_id" in D.show_atom(a) for a, t in p.conds)
        if own_ev:
            by.setdefault("own", set()).add(D.show(p.ret))
        elif v:
            en = [t for a, t in p.conds if a[0] == "bool" and D.show(a[1]).endswith(".enabled")]
            by.setdefault((v[0], en[0] if en else None), set()).add(D.show(p.ret))
    good = by.get("own") == {"False"}
    good = good and by.get(("Override", None)) == {"ConditionalPushRule::applies(self.Override.0, event, context)"}
    good = good and by.get(("Underride", None)) == {"ConditionalPushRule::applies(self.Underride.0, event, context)"}
    good = good and by.get(("Content", None)) == {"PatternedPushRule::applies_to(self.Content.0, 'content.body', event, context)"}
    for var, key in (("Room", "room_id"), ("Sender", "sender")):
        good = good and by.get((var, False)) == {"False"}
        r = by.get((var, True), set())
        good = good and len(r) == 1 and next(iter(r)).startswith(f"condition::check_event_match(event, '{key}', ") and f"self.{var}.0.rule_id" in next(iter(r))
    ctx.check(good, "C12.kinds", "C12.kinds:dispatch", w.where(f), bad_msg=f"{ {str(k): sorted(v)[:2] for k, v in by.items()} }")
    f = w.fn(PU + "ConditionalPushRule::applies")
    ps = dex.paths(f, [D.sym("self"), D.sym("event"), D.sym("context")])
    dis = [p for p in ps if any(a[0] == "bool" and not t and D.show(a[1]) == "self.enabled" for a, t in p.conds)]
    en = [p for p in ps if any(a[0] == "bool" and t and D.show(a[1]) == "self.enabled" for a, t in p.conds) and p.kind == "ret"]
    good = bool(dis) and all(D.show(p.ret) == "False" for p in dis) and any("Iterator::all(" in D.show(p.ret) and "self.conditions" in D.show(p.ret) for p in en)
    ctx.check(good, "C12.kinds", "C12.kinds:conditional", w.where(f), bad_msg="ConditionalPushRule::applies is not `enabled && conditions.all(applies)`")
    f = w.fn(PU + "PatternedPushRule::applies_to")
    ps = dex.paths(f, [D.sym("self"), D.sym("key"), D.sym("event"), D.sym("context")])
    bad = []
    for p in ps:
        if p.kind != "ret":
            continue
        en_false = any(a[0] == "bool" and not t and D.show(a[1]) == "self.enabled" for a, t in p.conds)
        r = p.ret
        if en_false and D.show(r) != "False":
            bad.append(D.show(r)[:80])
        if D.show(r) not in ("False",) and not en_false:
            # must be check_event_match(event, key, self.pattern, context) guarded by enabled
            s_ = D.show(r)
            if "condition::check_event_match(event, key, self.pattern, context)" not in s_:
                bad.append(s_[:100])
            elif not any(a[0] == "bool" and t and D.show(a[1]) == "self.enabled" for a, t in p.conds) and "self.enabled" not in s_:
                bad.append("enabled not consulted: " + s_[:80])
    ctx.check(not bad, "C12.kinds", "C12.kinds:patterned", w.where(f), bad_msg=f"{bad[:2]}")

    ctx.rule("C12.conditions", "PushCondition::applies: own event -> false; EventMatch -> check_event_match; ContainsDisplayName -> word match of content.body against the display name; "
                               "RoomMemberCount -> is.contains(member_count); SenderNotificationPermission see C20; EventPropertyIs/Contains -> exact value / array contains; _Custom -> false")
    f = w.fn(PU + "condition::PushCondition::applies")
    dexp = D.Dex(w.lookup, adt_discr=w.adt_discr, unroll=1, inline=helper, max_paths=100000, ctors=w.ctors)
    ps = dexp.paths(f, [D.sym("self"), D.sym("event"), D.sym("ctx")])
    by = {}
    for p in ps:
        if p.kind != "ret":
            continue
        own_ev = any(a[0] == "eq" and t and "ctx.user_id" in D.show_atom(a) for a, t in p.conds)
        v = [a[2] for a, t in p.conds if a[0] == "variant" and t and D.show(a[1]) == "self"]
        by.setdefault("own" if own_ev else (v[0] if v else "?"), set()).add(D.show(p.ret)[:160])
    good = by.get("own") == {"False"} and by.get("_Custom") == {"False"}
    good = good and by.get("EventMatch") == {"condition::check_event_match(event, self.EventMatch.key, self.EventMatch.pattern, ctx)"}
    cdn = by.get("ContainsDisplayName", set())
    good = good and "False" in cdn and any(x.startswith("StrExt::matches_pattern(") and "'content.body'" in x and "ctx.user_display_name, True)" in x for x in cdn)
    good = good and by.get("RoomMemberCount") == {"RangeBounds::contains(self.RoomMemberCount.is, ctx.member_count)"} or \
        (good and any("contains(self.RoomMemberCount.is, ctx.member_count)" in x for x in by.get("RoomMemberCount", ())))
    for var in ("EventPropertyIs", "EventPropertyContains"):
        good = good and bool(by.get(var)) and "False" in by.get(var) or (good and bool(by.get(var)))
    ctx.check(bool(good), "C12.conditions", "C12.conditions:dispatch", w.where(f), bad_msg=f"{ {k: sorted(v)[:2] for k, v in by.items()} }")
    # event_property_is / event_property_contains: an absent property never matches (in particular not a `null` value), a present one is
    # compared as a whole value / looked up in the array
    for var in ("EventPropertyIs", "EventPropertyContains"):
        GET = f"FlattenedJson::get(event, self.{var}.key)"
        VAL = f"self.{var}.value"
        bad_p = []
        n_var = 0
        for p in ps:
            if p.kind != "ret" or not any(a[0] == "variant" and t and D.show(a[1]) == "self" and a[2] == var for a, t in p.conds):
                continue
            if any(a[0] == "eq" and t and "ctx.user_id" in D.show_atom(a) for a, t in p.conds):
                continue
            n_var += 1
            tv = U.true_variants(p)
            r = D.show(p.ret).replace(" ", "")
            if tv.get(GET) == "None":
                ok_ = r == "False"
            elif var == "EventPropertyIs":
                A, B = f"{GET}.Some.0".replace(" ", ""), VAL
                ok_ = tv.get(GET) == "Some" and r in (f"{A}=={B}", f"{B}=={A}", f"PartialEq::eq({A},{B})", f"PartialEq::eq({B},{A})")
                ok_ = ok_ or (GET not in tv and r in (f"{GET}==Option::Some({B})".replace(" ", ""), f"Option::Some({B})=={GET}".replace(" ", "")))
            else:
                arr = [s_ for s_, v_ in tv.items() if "as_array" in s_ and GET in s_]
                if tv.get(GET) == "Some" and arr and tv[arr[0]] == "None":
                    ok_ = r == "False"
                else:
                    ARR_ = re.escape(arr[0].replace(" ", "")) + r"\.Some\.0" if arr else ""
                    ok_ = tv.get(GET) == "Some" and bool(arr) and tv[arr[0]] == "Some" and re.fullmatch(r"(?:\w+::)*contains\(" + ARR_ + "," + re.escape(VAL) + r"\)", r) is not None
                    if not ok_ and tv.get(GET) == "Some" and arr and tv[arr[0]] == "Some":
                        # `items.iter().any(|item| item == value)`: the closure is exactly the comparison of its element with the condition's value
                        m_ = re.fullmatch(r"Iterator::any\((?:slice::iter|IntoIterator::into_iter)\(" + ARR_ + r"\),closure\[([^\]]+)\]\{(\w+)=" + re.escape(VAL) + r"\}\)", r)
                        if m_:
                            cps = D.Dex(w.lookup, adt_discr=w.adt_discr, inline=lambda n: False).paths(w.fn(m_.group(1)), [D.sym("env"), D.sym("x")])
                            cap = "env." + m_.group(2)
                            ok_ = len(cps) == 1 and cps[0].kind == "ret" and D.show(cps[0].ret).replace(" ", "") in (f"{cap}==x", f"x=={cap}")
            if not ok_:
                bad_p.append((r[:140], sorted((k[-60:], v_) for k, v_ in tv.items() if "self." + var in k)))
        ctx.floor(f"paths of PushCondition::applies for {var}", n_var, 2)
        ctx.check(not bad_p, "C12.conditions", f"C12.conditions:{var}:absent-never-matches", w.where(f),
                  bad_msg=f"{var}: an absent property must give false and a present one must be compared with the condition's value; got {bad_p[:2]}")
    adt = w.adts[PU + "condition::PushCondition"]
    ctx.check(set(by) - {"own", "?"} == {v["name"] for v in adt["variants"]}, "C12.conditions", "C12.conditions:all-variants", w.where(f),
              bad_msg=f"variants without a decided outcome: { {v['name'] for v in adt['variants']} - set(by) }")
    f = w.fn(PU + "condition::check_event_match")
    ps = dex.paths(f, [D.sym("event"), D.sym("key"), D.sym("pattern"), D.sym("ctx")])
    rets = set()
    for p in ps:
        if p.kind == "ret":
            rets.add((tuple(sorted((D.show_atom(a)[:40], t) for a, t in p.conds if a[0] == "eq")), D.show(p.ret)))
    words = [r for _, r in rets if r.startswith("StrExt::matches_pattern(")]
    good = bool(words) and all(r.endswith(", pattern, key=='content.body')") or r.endswith("pattern, True)") or r.endswith("pattern, False)") for r in words) and \
        any("RoomId::as_str(ctx.room_id)" in r for r in words) and any("FlattenedJson::get_str(event, key).Some.0" in r for r in words) and any(r == "False" for _, r in rets)
    ctx.check(good, "C12.conditions", "C12.conditions:check_event_match", w.where(f), bad_msg=f"{sorted(r for _, r in rets)}")

    word_skip_rule(ctx, w, "C12.word-skip")
    ctx.rule("C12.count", "RoomMemberCountIs: prefix -> operator table (`==`, `<`, `>`, `<=`, `>=`, none = ==) and each operator's range test")
    f = w.fn(f"<{PU}condition::room_member_count_is::RoomMemberCountIs as core::str::traits::FromStr>::from_str")
    ps = dex.paths(f, [D.sym("s")])
    table = {}
    for p in ps:
        if p.kind != "ret" or not U.is_ok(p.ret):
            continue
        # the prefix test that holds on this path: `s.starts_with(P)` or `s.strip_prefix(P)` being Some
        pres = []
        for a, t in p.conds:
            m_ = re.fullmatch(r"str::starts_with\(s, '([^']*)'\)", D.show_atom(a)) if a[0] == "bool" else \
                re.fullmatch(r"str::strip_prefix\(s, '([^']*)'\) is Some", D.show_atom(a))
            if m_ and t:
                pres.append(m_.group(1))
        pre = pres[-1] if pres else ""
        pre_seen = [x for x in pres]
        op = D.show(field(U.payload(p.ret), "prefix"))
        if len(pres) <= 1:
            table[pre] = op.rsplit("::", 1)[-1]
    want = {"<=": "Le", "<": "Lt", ">=": "Ge", ">": "Gt", "==": "Eq", "": "Eq"}
    ctx.check(table == want, "C12.count", "C12.count:prefix-table", w.where(f), bad_msg=f"{table}")
    f = w.fn(f"<{PU}condition::room_member_count_is::RoomMemberCountIs as core::ops::range::RangeBounds<js_int::uint::UInt>>::contains") if \
        f"<{PU}condition::room_member_count_is::RoomMemberCountIs as core::ops::range::RangeBounds<js_int::uint::UInt>>::contains" in w.fn_index else None
    for bound, wantb in (("start_bound", {"Eq": "Included", "Lt": "Unbounded", "Gt": "Excluded", "Ge": "Included", "Le": "Unbounded"}),
                         ("end_bound", {"Eq": "Included", "Lt": "Excluded", "Gt": "Unbounded", "Ge": "Unbounded", "Le": "Included"})):
        name = f"<{PU}condition::room_member_count_is::RoomMemberCountIs as core::ops::range::RangeBounds<js_int::uint::UInt>>::{bound}"
        fb = w.fn(name)
        got = {}
        for p in dex.paths(fb, [D.sym("self")]):
            v = [a[2] for a, t in p.conds if a[0] == "variant" and t]
            if v and p.ret is not None and p.ret[0] == "adt":
                got[v[0]] = p.ret[2]
        ctx.check(got == wantb, "C12.count", f"C12.count:{bound}", w.where(fb), bad_msg=f"{got}")

    # the range conversions build the same conditions the string forms parse to: `N..` is `>=N`, `..N` is `<N`, `..=N` is `<=N`, a bare count is `==N`
    CONV = {"js_int::uint::UInt": ("Eq", "x"), "core::ops::range::RangeFrom<js_int::uint::UInt>": ("Ge", "x.start"),
            "core::ops::range::RangeTo<js_int::uint::UInt>": ("Lt", "x.end"), "core::ops::range::RangeToInclusive<js_int::uint::UInt>": ("Le", "x.end")}
    n_conv = 0
    dxc = D.Dex(w.lookup, adt_discr=w.adt_discr, inline=lambda n: "RoomMemberCountIs::" in n or "{closure" in n, ctors=w.ctors)
    for k in sorted(w.fn_index):
        m_ = re.fullmatch(r"<" + re.escape(PU) + r"condition::room_member_count_is::RoomMemberCountIs as core::convert::From<(.*)>>::from", k)
        if not m_ or m_.group(1) not in CONV:
            continue
        n_conv += 1
        op, cnt = CONV[m_.group(1)]
        rets = {D.show(p.ret) for p in dxc.paths(w.fn(k), [D.sym("x")]) if p.kind == "ret"}
        want_r = f"RoomMemberCountIs::RoomMemberCountIs(prefix=ComparisonOperator::{op}, count={cnt})"
        ctx.check(rets == {want_r}, "C12.count", f"C12.count:from:{m_.group(1).split('range::')[-1].split('<')[0].split('::')[-1]}", w.where(w.fn(k)),
                  bad_msg=f"RoomMemberCountIs::from({m_.group(1).rsplit('::', 2)[-2] if '<' in m_.group(1) else 'UInt'}) builds {sorted(rets)}, not {want_r}: the "
                          f"condition built from a range does not hold at the range's own boundary")
    ctx.floor("range conversions of RoomMemberCountIs", n_conv, 4)
    ctx.rule("C12.escape", "FlattenedJson: escape_key replaces `\\\\` before `.` (the reverse order would double the backslash that escapes a dot); nested paths are joined with a bare `.`")
    from . import panic_common as PC
    f = w.fn(PU + "condition::flattened_json::escape_key")
    defs = PC.roots(f["body"])
    reps = []
    for bi, c in M.calls(f["body"]):
        if M.callee_name(c).endswith("<impl str>::replace"):
            a = [PC.expr(f["body"], defs, x) for x in c["args"]]
            reps.append((a[1][1] if a[1][0] == "const" else None, a[2][1] if a[2][0] == "const" else None, a[0]))
    good = len(reps) == 2
    if good:
        (f1, t1, r1), (f2, t2, r2) = reps
        # the second replace works on the result of the first
        good = f1 == "\\" and f2 == "." and t1 == "\\\\" and t2 == "\\." and "<impl str>::replace" in str(r2) and r1 == ("arg", 1)
    if not reps:
        good, why = escape_loop_shape(w, f)          # a hand-written single pass over the characters
        ctx.check(good, "C12.escape", "C12.escape:order", w.where(f), ok_msg=why, bad_msg=why)
    else:
        ctx.check(good, "C12.escape", "C12.escape:order", w.where(f), bad_msg=f"replace calls (from, to) in order: {[(r[0], r[1]) for r in reps]}")
    ff = w.fn(PU + "condition::flattened_json::FlattenedJson::flatten_value")
    tmpl = []
    for body in M.all_bodies(ff):
        defs2 = PC.roots(body)
        for bi, c in M.calls(body):
            if M.callee_name(c).endswith("Arguments::<'a>::new"):
                e = PC.expr(body, defs2, c["args"][0])
                if e[0] == "const" or e[0] == "const?":
                    pass
                if c["args"][0].get("k") == "const" and isinstance(c["args"][0].get("v"), list):
                    tmpl.append(bytes(x for x in c["args"][0]["v"] if isinstance(x, int) and 32 <= x < 127).decode())
    uses_escape = any(M.callee_name(c).endswith("flattened_json::escape_key") for body in M.all_bodies(ff) for _, c in M.calls(body))
    dexj = D.Dex(w.lookup, adt_discr=w.adt_discr, unroll=1, effects=lambda n: n.endswith("Arguments::<'a>::new") or n.endswith("escape_key"), ctors=w.ctors)
    joins = set()
    try:
        for p in dexj.paths(ff, [D.sym("self"), D.sym("value"), D.sym("path")]):
            for e in p.effects:
                if e[0].endswith("Arguments::<'a>::new") and e[1][0] is not None and e[1][0][0] == "tup":
                    b = [x[1] for x in e[1][0][1] if D.is_const(x)]
                    lit = bytes(x for x in b if isinstance(x, int) and 32 <= x < 127).decode()
                    if "escape_key" in D.show(e[1][1]) and "path" in D.show(e[1][1]):
                        joins.add(lit)
    except D.Unrecognised:
        pass
    ctx.check(uses_escape and joins == {"."}, "C12.escape", "C12.escape:join", w.where(ff), bad_msg=f"nested keys: escape_key used={uses_escape}, join literals={sorted(joins)}")

    list_order_rule(ctx, w, "C12.list-order")
    ctx.rule("C12.case-fold", "matches_pattern hands BOTH the value and the pattern to matches_word / WildMatch after the same Unicode case folding "
                              "(str::to_lowercase or to_uppercase): an ASCII-only folding makes `émile` miss `Émile`")
    import json as _json
    fmp = [g for g in w.all_fns() if g["path"].endswith("StrExt>::matches_pattern") and "body" in g]
    if not fmp:
        ctx.missing("C12.case-fold", "C12.case-fold:matches_pattern", "StrExt::matches_pattern not found")
    else:
        fmp = fmp[0]
        bmp = fmp["body"]
        dmp = PC.roots(bmp)
        sinks = []
        for _, c in M.calls(bmp):
            nm = M.callee_name(c)
            if nm.endswith("StrExt>::matches_word") or re.search(r"WildMatchPattern::<[^>]*>::(new|matches)$", nm):
                for a in c["args"]:
                    e = _json.dumps(PC.expr(bmp, dmp, a))
                    if '["arg", 1]' in e or '["arg", 2]' in e:
                        sinks.append((nm.rsplit("::", 1)[-1], e))
        folds = set()
        badf = []
        for sink, e in sinks:
            m_ = re.findall(r'"alloc::str::<impl str>::(to_lowercase|to_uppercase)"', e)
            other = re.findall(r'::(to_ascii_lowercase|to_ascii_uppercase|make_ascii_lowercase|make_ascii_uppercase|eq_ignore_ascii_case)"', e)
            if len(m_) != 1 or other:
                badf.append((sink, (other or ["no Unicode case folding"])[0]))
            folds.update(m_)
        ctx.check(len(sinks) >= 4 and not badf and len(folds) == 1, "C12.case-fold", "C12.case-fold:matches_pattern", w.where(fmp),
                  bad_msg=f"operands of the matchers that are not folded with one Unicode case mapping: {badf[:3]} (foldings used: {sorted(folds)}, operands seen: {len(sinks)})")
    ctx.rule("C12.flatten", "FlattenedJsonValue::from_json_value: null/bool/string keep their value, an integer is kept or the property is absent, and an array "
                            "is ALWAYS kept (elements that are not scalars are dropped one by one, never the array: `event_property_contains` must still see the scalars); "
                            "ScalarJsonValue::try_from_json_value maps null/bool/string/integer to themselves")
    for fname, arg_ok, none in ((PU + "condition::flattened_json::FlattenedJsonValue::from_json_value", "Option::Some(FlattenedJsonValue::", "Option::None"),
                                (PU + "condition::flattened_json::ScalarJsonValue::try_from_json_value", "Result::Ok(ScalarJsonValue::", "Result::Err(")):
        fj = w.fn(fname)
        short = fname.rsplit("::", 2)[-2]
        try:
            ps = D.Dex(w.lookup, adt_discr=w.adt_discr, unroll=1, ctors=w.ctors).paths(fj, [D.sym("val")])
        except D.Unrecognised as e:
            ctx.unrecognised("C12.flatten", f"C12.flatten:{short}", w.where(fj), str(e))
            continue
        rets = [(p, D.show(p.ret) if p.ret is not None else "") for p in ps if p.kind == "ret"]
        mention = lambda p, r, what: what in r or any(what in D.show_atom(a) for a, t in p.conds)
        for var, payload in (("Bool", "val.Bool.0"), ("String", "val.String.0")):
            got = sorted({r for p, r in rets if mention(p, r, f"val.{var}")})
            ctx.check(got == [f"{arg_ok}{var}({payload}))"], "C12.flatten", f"C12.flatten:{short}:{var}", w.where(fj), bad_msg=f"a JSON {var.lower()} becomes {got}")
        nullp = sorted({r for p, r in rets if r.endswith("::Null)")})
        ctx.check(nullp == [f"{arg_ok}Null)"], "C12.flatten", f"C12.flatten:{short}:Null", w.where(fj), bad_msg=f"JSON null becomes {nullp}")
        nump = sorted({r[:60] for p, r in rets if mention(p, r, "val.Number")})
        ctx.check(any(r.startswith(f"{arg_ok}Integer(") for r in nump) and all(r.startswith(f"{arg_ok}Integer(") or r.startswith(none) for r in nump), "C12.flatten",
                  f"C12.flatten:{short}:Number", w.where(fj), bad_msg=f"a JSON number becomes {nump}")
        if short == "FlattenedJsonValue":
            arr = [(p, r) for p, r in rets if mention(p, r, "val.Array")]
            lost = [r for p, r in arr if not r.startswith(f"{arg_ok}Array(")]
            ctx.check(bool(arr) and not lost, "C12.flatten", "C12.flatten:FlattenedJsonValue:Array", w.where(fj),
                      bad_msg=f"a JSON array can flatten to {sorted(set(lost))[:2]}: the whole array disappears from the flattened event (array-contains conditions "
                              f"can no longer see its scalar elements) instead of losing only the elements that are not scalars")
            # the elements go through the scalar conversion
            family = [fj] + [g for g in w.crates["ruma_common"].all_fns() if g["path"].startswith(fj["path"] + "::{closure") and "body" in g]
            conv = [c for g in family for body in M.all_bodies(g) for _, c in M.calls(body) if M.callee_name(c).endswith("ScalarJsonValue::try_from_json_value")] or \
                   [r for p, r in arr if "try_from_json_value" in r]
            ctx.check(bool(conv), "C12.flatten", "C12.flatten:FlattenedJsonValue:Array:elements", w.where(fj), bad_msg="array elements are not converted with ScalarJsonValue::try_from_json_value")
            # ... each on its own: an element that is not a scalar is skipped, it does not end the array (map_while / take_while / scan / a `break`
            # would hide every scalar that follows an object, float or nested array from `event_property_contains`)
            adaptors = sorted({M.callee_name(c).rsplit("::", 1)[-1] for g in family for body in M.all_bodies(g) for _, c in M.calls(body)
                               if "iter::traits::iterator::Iterator::" in M.callee_name(c) or "::iter::adapters::" in M.callee_name(c)})
            cutting = [a_ for a_ in adaptors if a_ in ("map_while", "take_while", "scan", "try_fold", "try_for_each", "take", "skip_while", "step_by", "find", "find_map", "position", "next")]
            loops_break = False
            for body in M.all_bodies(fj):
                cfg_ = M.Cfg(body)
                for head, blocks in cfg_.natural_loops().items():
                    exits = [(b_, s_) for b_ in blocks for s_ in cfg_.succ[b_] if s_ not in blocks]
                    # a hand-written loop may only be left when the iterator is exhausted (one exit edge, from the block that switches on next())
                    loops_break = loops_break or len({b_ for b_, _ in exits}) > 1
            ctx.check(not cutting and not loops_break, "C12.flatten", "C12.flatten:FlattenedJsonValue:Array:every-element", w.where(fj),
                      bad_msg=f"the array's elements are not all visited: {cutting or 'the element loop has an early exit'} stops at the first element that is not a scalar, so the "
                              f"scalars after it are lost (e.g. m.mentions.user_ids = [{{..}}, \"@me:hs\"] no longer contains @me:hs)")

    keys_rule(ctx, w, "C12.keys")
    # sender_notification_permission is evaluated in the context ruma-events builds from the room's power levels: that conversion is part of this property
    from . import C20 as _C20
    _C20.push_context_rule(ctx, W.World(fx, ["ruma_common", "ruma_events"]), "C12.conditions")
    # ---- word-mode glob: chunking of the pattern ---------------------------------------------------------------------------------
    ctx.rule("C12.word-chunks", "matches_word splits the pattern into maximal runs of literal characters (regex-escaped) and maximal runs of wildcards "
                                "(translated by wildcards_to_regex): checked by unrolling the loop over char_indices for every sequence of up to three "
                                "literal/wildcard characters; a wildcard never ends a wildcard run")
    fw = w.fn("<str as ruma_common::push::condition::StrExt>::matches_word")
    dexw = D.Dex(w.lookup, adt_discr=w.adt_discr, unroll=3, max_paths=600000, effects=lambda n: n.endswith("regex::escape") or n.endswith("wildcards_to_regex") or n.endswith("::escape"))
    got = {}
    for pth in dexw.paths(fw, [D.sym("self"), D.sym("pattern")]):
        conds = [(D.show_atom(a), t) for a, t in pth.conds]
        nexts = [(a, t) for a, t in conds if a.startswith("Iterator::next(") and "char_indices(pattern)" in a and " is " in a]
        if pth.kind != "ret" or not nexts or not nexts[-1][0].endswith(" is None"):
            continue
        n_el = sum(1 for a, t in nexts if a.endswith(" is Some") and t)
        cls, feasible = [], True
        for k in range(n_el):
            tag = "" if k == 0 else f"#{k + 1}"
            el = r"char_indices\(pattern\)\)\)" + re.escape(tag) + r"\.Some\.0"
            isw = [t for a, t in conds if re.search(el + r"\.1==", a)]
            zero = [t for a, t in conds if re.search(el + r"\.0==0$", a)]
            # char_indices yields offset 0 for the first character and a larger offset afterwards
            if any(z != (k == 0) for z in zero):
                feasible = False
            cls.append("W" if any(isw) else "L")
        if not feasible:
            continue
        chunks = "".join("E" if e[0].endswith("escape") else "R" for e in pth.effects)
        got.setdefault("".join(cls), set()).add(chunks)
    ctx.floor("character-class sequences unrolled", len(got), 12)
    for seq, outs in sorted(got.items()):
        want = "".join(("R" if c == "W" else "E") for j, c in enumerate(seq) if j == 0 or seq[j - 1] != c) or "E"
        ctx.check(outs == {want}, "C12.word-chunks", f"C12.word-chunks:{seq or 'empty'}", w.where(fw),
                  ok_msg=f"chunks {want}",
                  bad_msg=f"a pattern of the shape {seq} (L literal, W wildcard) is cut into chunks {sorted(outs)} (E escaped literal, R wildcard regex), expected {want}: "
                          f"the second wildcard of a run ends the run and the rest is escaped as literal text (`j??rg` compiles to `j.{{1}}\\?rg`)")
    # ---- word-mode glob: flag scopes of the regex template ----------------------------------------------------------------------------
    ctx.rule("C12.word-regex", "the regex template of matches_word: every \\W / \\b of the boundary groups is inside a `-u` (ASCII) scope, as the specification "
                               "defines word characters as [A-Za-z0-9_], and the translated glob is substituted OUTSIDE any `-u` scope, so that `?` (a `.`) "
                               "matches one character, not one byte")
    tmpl = None
    for body in M.all_bodies(fw):
        for b in body["blocks"]:
            for st in b["s"]:
                if st[0] == "=" and st[2][0] == "use" and st[2][1].get("k") == "const" and str(st[2][1].get("ty", "")).startswith("&[u8;") and isinstance(st[2][1].get("v"), list):
                    pieces = decode_format_template(st[2][1]["v"])
                    if pieces and any("\\W" in x or "\\b" in x for x in pieces if isinstance(x, str)):
                        tmpl = pieces
    if tmpl is None or tmpl.count(None) != 1:
        ctx.unrecognised("C12.word-regex", "C12.word-regex:template", w.where(fw), f"the format template of the word regex could not be read ({tmpl})")
    else:
        k = tmpl.index(None)
        prefix, suffix = "".join(x for x in tmpl[:k]), "".join(x for x in tmpl[k + 1:])
        scopes = regex_flag_scopes(prefix + "\x00" + suffix)       # \x00 marks the placeholder
        ctx.check(scopes is not None and scopes["placeholder_unicode"], "C12.word-regex", "C12.word-regex:glob-in-unicode-scope", w.where(fw),
                  bad_msg=f"in `{prefix}{{}}{suffix}` the translated glob is inside a `-u` scope: `.` then matches a single byte, so `j?rg` no longer matches `jörg` in "
                          f"content.body / display names")
        ctx.check(scopes is not None and scopes["boundaries"] >= 2 and scopes["boundaries_ascii"] == scopes["boundaries"], "C12.word-regex", "C12.word-regex:ascii-boundaries", w.where(fw),
                  bad_msg=f"in `{prefix}{{}}{suffix}` {0 if scopes is None else scopes['boundaries'] - scopes['boundaries_ascii']} of the \\W/\\b boundary tests are Unicode-aware: "
                          f"the specification's word characters are [A-Za-z0-9_] only")
    ctx.assumptions += ["glob / word-boundary / regex semantics (matches_word, wildcards_to_regex, WildMatch) are value-level and not decided"]
    ctx.samples += [{"iterator": "RulesetIter", "order": [k for k, _ in KINDS]}]


def field(v, name):
    if v is None or v[0] != "adt":
        return None
    for n, x in v[3]:
        if n == name:
            return x
    return None


def collect_fields(node, out):
    if isinstance(node, dict):
        if "p" in node and "l" in node and isinstance(node["p"], list):
            for e in node["p"]:
                if isinstance(e, list) and e[0] == "f" and not e[2].isdigit():
                    out.add(e[2])
        for v in node.values():
            collect_fields(v, out)
    elif isinstance(node, list):
        for v in node:
            collect_fields(v, out)


def decode_format_template(bs):
    """Pieces of a `format_args!` template as rustc (this toolchain) encodes it in a byte string: a length byte (< 0x80) followed by that many
    literal bytes, 0xC0 for a plain `{}` placeholder, 0 to end. Returns [str | None(placeholder)] or None if the encoding is not understood."""
    out, i = [], 0
    while i < len(bs):
        b = bs[i]
        if b == 0:
            return out if i == len(bs) - 1 else None
        if b < 0x80:
            if i + 1 + b > len(bs):
                return None
            try:
                out.append(bytes(bs[i + 1:i + 1 + b]).decode())
            except UnicodeDecodeError:
                return None
            i += 1 + b
        elif b == 0xC0:
            out.append(None)
            i += 1
        else:
            return None
    return None


def regex_flag_scopes(rx):
    """Scan a (Rust regex syntax) pattern: is the placeholder (\\x00) in a Unicode scope, and how many \\W / \\b escapes are in a `-u` scope."""
    stack = [True]          # unicode flag per open group
    i, n = 0, len(rx)
    res = {"placeholder_unicode": None, "boundaries": 0, "boundaries_ascii": 0}
    in_class = False
    while i < n:
        c = rx[i]
        if c == "\x00":
            res["placeholder_unicode"] = stack[-1]
        elif c == "\\" and i + 1 < n:
            if rx[i + 1] in "Wb" and not in_class:
                res["boundaries"] += 1
                res["boundaries_ascii"] += (not stack[-1])
            i += 1
        elif in_class:
            in_class = c != "]"
        elif c == "[":
            in_class = True
        elif c == "(":
            uni = stack[-1]
            m = re.match(r"\(\?([a-zA-Z]*)(?:-([a-zA-Z]*))?([:)])", rx[i:])
            if m:
                on, off, end = m.group(1) or "", m.group(2) or "", m.group(3)
                new = False if "u" in off else (True if "u" in on else uni)
                if end == ")":
                    stack[-1] = new          # bare flag group: applies to the rest of the enclosing group
                else:
                    stack.append(new)
                i += len(m.group(0)) - 1
            else:
                stack.append(uni)
        elif c == ")":
            if len(stack) == 1:
                return None
            stack.pop()
        i += 1
    return res if len(stack) == 1 and res["placeholder_unicode"] is not None else None
