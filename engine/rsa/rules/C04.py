"""C04 — redaction keeps exactly the spec's keys per room version (exhaustive table), structure of apply / entry points."""
import re
from .. import dex as D, world as W, facts as F
from . import tables as T

LEVEL = "other"
EXPLANATION = (
    "Static decision-table extraction (DEX) over rustc MIR of /repo: the retained-key functions of "
    "ruma_common::canonical_json are abstractly interpreted with symbolic (rules, event type, key); the resulting "
    "table (literal | other) x flags is evaluated for the eleven RedactionRules constants obtained through "
    "RoomVersionId::rules() and compared cell by cell with spec/redaction.json. Structural rules on "
    "RetainedKeys::apply and the three entry points decide that values are re-inserted untouched and nothing else is written."
)
CJ = "ruma_common::canonical_json"
OTHER = "\0other"


def flag_of(v):
    """'rules.keep_x' symbol -> flag name."""
    if D.is_sym(v) and v[1].startswith("rules."):
        return v[1][len("rules."):]
    return None


def valuation(key_sym, key, flags):
    def val(atom):
        if atom[0] == "eq" and atom[1] == key_sym and D.is_const(atom[2]):
            return key == atom[2][1]
        if atom[0] == "bool":
            f = flag_of(atom[1])
            if f is not None:
                if f not in flags:
                    raise D.Unrecognised(f"unknown redaction flag {f}")
                return flags[f]
        return None
    return val


def eval_paths(paths, key_sym, key, flags):
    """Paths consistent with key == `key` (OTHER = none of the literals) and the given flag values."""
    return D.evaluate(paths, valuation(key_sym, key, flags))


def literals(paths, key_sym):
    return sorted({a[2][1] for a in D.all_atoms(paths) if a[0] == "eq" and a[1] == key_sym and D.is_const(a[2])})


def resolve_bool(v, flags, key_sym=None, key=None):
    return D.eval_bool(v, valuation(key_sym, key, flags))


def unwrap_ok(v):
    if v is not None and v[0] == "adt" and v[2] == "Ok":
        return v[3][0][1]
    return None


def run(ctx):
    fx = ctx.facts("A")
    w = W.World(fx, ["ruma_common"])
    versions = T.version_rules(ctx, w, ["redaction"])
    spec = T.load_spec("redaction.json")
    flags_of = {}
    for ver, val in versions.items():
        red = [x for n, x in val[3] if n == "redaction"][0]
        flags_of[ver] = {n: x[1] for n, x in red[3]}
    if len(flags_of) < 11:
        ctx.missing("C04.flags", "C04.flags", "could not obtain RedactionRules for all 11 versions")
        return

    dex = D.Dex(w.lookup, inline=lambda n: n.startswith(CJ + "::"), adt_discr=w.adt_discr,
                effects=lambda n: "btree::map::BTreeMap" in n)
    rules_s, key_s, ty_s, val_s = D.sym("rules"), D.sym("key"), D.sym("event_type"), D.sym("value")

    # ---- R2 top-level keys ---------------------------------------------------------------------
    ctx.rule("C04.top", "top-level key table of is_event_key_retained (every literal + 'any other key') equals the spec's kept "
                        "top-level keys for each of the 11 room versions")
    f = w.fn(f"{CJ}::is_event_key_retained")
    paths = dex.paths(f, [rules_s, key_s])
    lits = literals(paths, key_s)
    ctx.floor("top-level key literals", len(lits), 15)
    cells = 0
    for ver, flags in flags_of.items():
        want = set(spec["top_level"][ver])
        for key in lits + sorted(want - set(lits)) + [OTHER]:
            ps = eval_paths(paths, key_s, key, flags)
            got = None
            if len(ps) == 1 and ps[0].kind == "ret":
                got = resolve_bool(ps[0].ret, flags, key_s, key)
            kname = "<other>" if key == OTHER else key
            if got is None:
                ctx.unrecognised("C04.top", f"C04.top:{ver}:{kname}", w.where(f), f"no unique boolean outcome ({len(ps)} paths)")
                continue
            exp = key in want
            cells += 1
            ctx.check(got == exp, "C04.top", f"C04.top:{ver}:{kname}", w.where(f),
                      bad_msg=f"room version {ver[1:]}: top-level key `{kname}` is {'kept' if got else 'dropped'}, "
                              f"the specification says {'kept' if exp else 'dropped'}")
    # the table may depend on nothing but the key and the rules
    for p in paths:
        for a in list(D.all_atoms([p])):
            ok = (a[0] == "eq" and a[1] == key_s) or (a[0] == "bool" and flag_of(a[1]))
            if not ok:
                ctx.violation("C04.top", "C04.top:foreign-atom", w.where(f), f"retention depends on {D.show_atom(a)}")

    # ---- R3 content keys -----------------------------------------------------------------------
    ctx.rule("C04.content", "content-key table: retained_event_content_keys(type, rules) and every predicate it dispatches to, "
                            "evaluated for 11 versions x (every special event type + any other type) x (every literal key + any other key), "
                            "equals spec/redaction.json")
    f = w.fn(f"{CJ}::retained_event_content_keys")
    tpaths = dex.paths(f, [ty_s, rules_s])
    types = literals(tpaths, ty_s)
    ctx.floor("special event types", len(types), 7)
    callable_tables = {}

    def table_for(callable_v):
        if callable_v in callable_tables:
            return callable_tables[callable_v]
        if callable_v[0] == "clo":
            fn = w.fn(callable_v[1])
            ps = dex.paths(fn, [callable_v, rules_s, key_s, val_s])
        elif callable_v[0] == "fn":
            fn = w.fn(callable_v[1])
            ps = dex.paths(fn, [rules_s, key_s, val_s])
        else:
            raise D.Unrecognised(f"retain-key callable {D.show(callable_v)}")
        callable_tables[callable_v] = (fn, ps)
        return fn, ps

    for ver, flags in flags_of.items():
        for ty in types + sorted(set(spec["content"]) - set(types)) + [OTHER]:
            tname = "<other>" if ty == OTHER else ty
            want = set(spec["content"].get(ty, {}).get(ver, [])) if ty != OTHER else set()
            ps = eval_paths(tpaths, ty_s, ty, flags)
            if len(ps) != 1 or ps[0].kind != "ret" or ps[0].ret is None or ps[0].ret[0] != "adt":
                ctx.unrecognised("C04.content", f"C04.content:{ver}:{tname}", w.where(f), f"no unique RetainedKeys outcome ({len(ps)} paths)")
                continue
            r = ps[0].ret
            if r[2] == "None":
                cells += 1
                ctx.check(not want, "C04.content", f"C04.content:{ver}:{tname}:*", w.where(f),
                          bad_msg=f"v{ver[1:]} {tname}: all content keys dropped, the specification keeps {sorted(want)}")
                continue
            if r[2] == "All":
                cells += 1
                ctx.check(want == {"*"}, "C04.content", f"C04.content:{ver}:{tname}:*", w.where(f),
                          bad_msg=f"v{ver[1:]} {tname}: all content keys kept, the specification keeps only {sorted(want)}")
                continue
            if r[2] != "Some":
                ctx.unrecognised("C04.content", f"C04.content:{ver}:{tname}", w.where(f), f"unknown RetainedKeys variant {r[2]}")
                continue
            if want == {"*"}:
                ctx.violation("C04.content", f"C04.content:{ver}:{tname}:*", w.where(f),
                              f"v{ver[1:]} {tname}: the specification keeps all content keys, the implementation filters them")
                continue
            cfn, kpaths = table_for(r[3][0][1])
            klits = literals(kpaths, key_s)
            plain_want = {k for k in want if ":" not in k}
            sub_want = {k.split(":")[0]: k.split(":")[1] for k in want if ":" in k}
            for key in klits + sorted((plain_want | set(sub_want)) - set(klits)) + [OTHER]:
                kname = "<other>" if key == OTHER else key
                kps = [p for p in eval_paths(kpaths, key_s, key, flags) if p.kind == "ret"]
                okp = [p for p in kps if unwrap_ok(p.ret) is not None]
                cells += 1
                k = f"C04.content:{ver}:{tname}:{kname}"
                if len(okp) != 1:
                    ctx.unrecognised("C04.content", k, w.where(cfn), f"no unique Ok outcome ({len(okp)} of {len(kps)} paths)")
                    continue
                p = okp[0]
                b = resolve_bool(unwrap_ok(p.ret), flags, key_s, key)
                muts = [e for e in p.effects if e[0].rsplit("::", 1)[-1] not in ("is_empty", "get", "len", "contains_key")]
                if key in sub_want:
                    # kept, reduced to one member, dropped when that leaves it empty
                    good = b is None and len(muts) == 1 and muts[0][0].endswith("::retain") and retain_only(dex, w, muts[0], sub_want[key]) \
                        and is_not_empty_of(unwrap_ok(p.ret), muts[0][1][0])
                    if good:
                        # the emptiness test looks at the map AFTER the reduction (tested before it, a non-empty object without the member is kept as `{}`
                        # by the first redaction and dropped by the second: redaction is not idempotent and a signed redacted copy stops verifying)
                        names = [e[0].rsplit("::", 1)[-1] for e in p.effects]
                        if "is_empty" in names and "retain" in names and max(i for i, n_ in enumerate(names) if n_ == "is_empty") < names.index("retain"):
                            good = False
                    ctx.check(good, "C04.content", k, w.where(cfn),
                              bad_msg=f"v{ver[1:]} {tname}.{kname}: must be kept reduced to its `{sub_want[key]}` member (dropped if empty)")
                    # the only other outcome may be the 'not an object' error
                    continue
                if b is None:
                    ctx.unrecognised("C04.content", k, w.where(cfn), f"outcome {D.show(unwrap_ok(p.ret))} is not a boolean of key and flags")
                    continue
                exp = key in plain_want
                ctx.check(b == exp and not muts, "C04.content", k, w.where(cfn),
                          bad_msg=f"room version {ver[1:]}: content key `{kname}` of {tname} is {'kept' if b else 'dropped'}"
                                  f"{' and its value is modified' if muts else ''}, the specification says {'kept' if exp else 'dropped'} untouched")
    ctx.count("table_cells", cells)
    ctx.floor("redaction table cells", cells, 400)
    for (cfn, kpaths) in callable_tables.values():
        for p in kpaths:
            for a, _ in p.conds:
                ok = (a[0] == "eq" and a[1] == key_s) or (a[0] == "bool" and flag_of(a[1])) or \
                     (a[0] == "variant" and "value" in D.show(a[1]))
                if not ok:
                    ctx.violation("C04.content", f"C04.content:foreign-atom:{cfn['path']}", w.where(cfn),
                                  f"retention depends on {D.show_atom(a)}")

    # ---- R5 apply ------------------------------------------------------------------------------
    ctx.rule("C04.apply", "RetainedKeys::apply: All writes nothing; None only clears; Some re-inserts exactly the (key, value) pairs "
                          "taken from the old map for which the predicate returned Ok(true), and propagates its error")
    dex2 = D.Dex(w.lookup, adt_discr=w.adt_discr, effects=lambda n: "btree::map::BTreeMap" in n or n.endswith("mem::take"))
    f = w.fn(f"{CJ}::RetainedKeys::apply")
    ap = dex2.paths(f, [D.sym("self"), rules_s, D.sym("object")])
    seen_insert = 0
    for p in ap:
        var = dict((a[1], a[2]) for a, t in p.conds if a[0] == "variant" and t)
        selfv = var.get(D.sym("self"))
        muts = [e for e in p.effects if e[0].rsplit("::", 1)[-1] in ("insert", "clear", "remove", "retain", "extend", "append", "entry", "take")]
        if selfv == "All":
            ctx.check(not muts and p.kind == "ret", "C04.apply", "C04.apply:All", w.where(f), bad_msg="RetainedKeys::All must not touch the object")
        elif selfv == "None":
            ctx.check([e[0].rsplit("::", 1)[-1] for e in muts] == ["clear"], "C04.apply", "C04.apply:None", w.where(f),
                      bad_msg="RetainedKeys::None must only clear the object")
        elif selfv == "Some":
            for e in muts:
                m = e[0].rsplit("::", 1)[-1]
                if m == "take":
                    continue
                if m != "insert":
                    ctx.violation("C04.apply", f"C04.apply:Some:{m}", w.where(f, e[2]), f"unexpected write `{m}` on the object")
                    continue
                seen_insert += 1
                obj, k, v = (D.show(x) for x in e[1])
                src_ok = obj == "object" and k.endswith(".Some.0.0") and v.endswith(".Some.0.1") and k[:-2] == v[:-2] \
                    and "next" in k and "mem::take(object)" in k
                # the insert must be guarded by the predicate's Ok(true) on this very pair
                guard = any(t and a[0] == "bool" and D.show(a[1]).startswith("apply(self.Some.0; rules, " + k + ", " + v + ")") and
                            D.show(a[1]).endswith(".Ok.0") for a, t in p.conds)
                ctx.check(src_ok and guard, "C04.apply", "C04.apply:Some:insert", w.where(f, e[2]),
                          bad_msg=f"insert({obj}, {k}, {v}) is not the old entry guarded by the predicate (guard={guard})")
        else:
            ctx.unrecognised("C04.apply", "C04.apply:shape", w.where(f), repr(p)[:160])
    # error propagation: a path where the predicate returned Err must return that Err
    errp = [p for p in ap if any(a[0] == "variant" and a[2] == "Err" and t for a, t in p.conds)]
    ctx.check(bool(errp) and all(p.ret and p.ret[0] == "adt" and p.ret[2] == "Err" for p in errp), "C04.apply", "C04.apply:error", w.where(f),
              bad_msg="predicate error is not propagated")
    ctx.floor("apply insert sites", seen_insert, 1)

    # ---- R6 entry points -----------------------------------------------------------------------
    ctx.rule("C04.entry", "redact_in_place writes the event only through RetainedKeys::apply (content with the type's keys, top level with "
                          "is_event_key_retained) and the requested unsigned.redacted_because; redact and redact_content_in_place go through the same functions")
    eff = lambda n: "btree::map::BTreeMap" in n or n.startswith(CJ)
    # free functions of the module other than the named ones are private helpers: inlined, so a helper extraction looks the same
    KEEP = {"redact", "redact_in_place", "redact_content_in_place", "retained_event_content_keys", "is_event_key_retained", "try_from_json_map",
            "to_canonical_value"}
    def helper(n):
        rest = n[len(CJ) + 2:] if n.startswith(CJ + "::") else None
        return rest is not None and "::" not in rest and "<" not in rest and "{" not in rest and rest not in KEEP and not rest.startswith("is_room_") \
            and not rest.endswith("_retained_keys")
    dex3 = D.Dex(w.lookup, adt_discr=w.adt_discr, effects=eff, inline=helper)
    f = w.fn(f"{CJ}::redact_in_place")
    rp = dex3.paths(f, [D.sym("event"), rules_s, D.sym("because")])
    okp = [p for p in rp if p.kind == "ret" and p.ret and p.ret[2] == "Ok"]
    ctx.floor("redact_in_place success paths", len(okp), 2)
    top_closures = set()
    for i, p in enumerate(okp):
        has_content = any(a[0] == "variant" and "get_mut(event, 'content')" in D.show(a[1]) and a[2] == "Some" and t for a, t in p.conds)
        because = [a[2] for a, t in p.conds if a[0] == "variant" and a[1] == D.sym("because") and t]
        applies, inserts, others = [], [], []
        for e in p.effects:
            if helper(e[0]):
                continue    # an inlined private helper: its body was analysed in place
            m = e[0].rsplit("::", 1)[-1]
            if e[0] == f"{CJ}::RetainedKeys::apply":
                applies.append(e)
            elif m == "insert":
                inserts.append(e)
            elif m in ("get", "get_mut", "from_iter", "retained_event_content_keys", "some", "not_of_type", "field_missing_from_object", "into", "new"):
                continue
            else:
                others.append(e)
        key = f"C04.entry:redact_in_place:content={has_content}:because={because[0] if because else '?'}"
        good = not others
        shows = [[D.show(x) for x in e[1]] for e in applies]
        top = [s for s in shows if s[2] == "event"]
        cont = [s for s in shows if s[2] != "event"]
        mclo = re.search(r"closure\[([^\]]*redact_in_place::\{closure#\d+\})\]", top[0][0]) if len(top) == 1 else None
        good &= len(top) == 1 and mclo is not None
        top_closures.add(mclo.group(1) if mclo else None)
        if has_content:
            good &= len(cont) == 1 and cont[0][0].startswith("canonical_json::retained_event_content_keys(") and \
                "get(event, 'type')" in cont[0][0] and cont[0][0].endswith(", rules)") and "get_mut(event, 'content')" in cont[0][2]
        else:
            good &= not cont
        if because == ["Some"]:
            ev_ins = [e for e in inserts if D.show(e[1][0]) == "event"]
            fresh_ins = [e for e in inserts if D.show(e[1][0]) == "BTreeMap::new()"]
            good &= len(ev_ins) == 1 and ev_ins[0][1][1] == D.C("unsigned") and len(ev_ins) + len(fresh_ins) == len(inserts)
            if good and not fresh_ins:
                # unsigned built in one expression: from_iter([("redacted_because", because)])
                good &= "'redacted_because', because.Some.0" in D.show(ev_ins[0][1][2])
            elif good:
                # unsigned built as a fresh map that receives the one entry and is then stored
                good &= len(fresh_ins) == 1 and fresh_ins[0][1][1] == D.C("redacted_because") and "because.Some.0" in D.show(fresh_ins[0][1][2]) and \
                    p.effects.index(fresh_ins[0]) < p.effects.index(ev_ins[0]) and \
                    re.fullmatch(r"(?:CanonicalJsonValue::Object|(?:\w+::)*(?:into|from))\(BTreeMap::new\(\)\)", D.show(ev_ins[0][1][2])) is not None
        else:
            good &= not inserts
        ctx.check(good, "C04.entry", key, w.where(f), bad_msg=f"unexpected writes: applies={shows} inserts={[[D.show(x) for x in e[1]] for e in inserts]} others={[e[0] for e in others]}")
    # the top-level closure is exactly Ok(is_event_key_retained(rules, key))
    # the closure actually passed to the top-level apply (whatever its ordinal)
    if len(top_closures) != 1 or None in top_closures:
        raise F.MissingAnchor(f"top-level predicate closure of redact_in_place not identified: {sorted(map(str, top_closures))}")
    clo = w.fn(next(iter(top_closures)))
    dex4 = D.Dex(w.lookup, adt_discr=w.adt_discr)
    cp = dex4.paths(clo, [D.sym("env"), rules_s, key_s, val_s])
    ctx.check(len(cp) == 1 and D.show(cp[0].ret) == "Result::Ok(canonical_json::is_event_key_retained(rules, key))", "C04.entry",
              "C04.entry:top-closure", w.where(clo), bad_msg=f"top-level predicate is {[repr(p) for p in cp]}"[:300])
    # redact -> redact_in_place -> Ok(object)
    f = w.fn(f"{CJ}::redact")
    rp = dex3.paths(f, [D.sym("object"), rules_s, D.sym("because")])
    okp = [p for p in rp if p.kind == "ret" and p.ret and p.ret[2] == "Ok"]
    good = len(okp) == 1 and D.show(okp[0].ret) == "Result::Ok(object)" and \
        [(e[0], [D.show(x) for x in e[1]]) for e in okp[0].effects] == [(f"{CJ}::redact_in_place", ["object", "rules", "because"])]
    ctx.check(good, "C04.entry", "C04.entry:redact", w.where(f), bad_msg=f"redact is not redact_in_place + Ok(object): {rp!r}"[:300])
    f = w.fn(f"{CJ}::redact_content_in_place")
    rp = dex3.paths(f, [D.sym("content"), rules_s, D.sym("event_type")])
    good = len(rp) == 1 and D.show(rp[0].ret) == "RetainedKeys::apply(canonical_json::retained_event_content_keys(event_type, rules), rules, content)"
    ctx.check(good, "C04.entry", "C04.entry:redact_content_in_place", w.where(f), bad_msg=f"{rp!r}"[:300])
    ctx.count("dex_paths", dex.npaths)
    ctx.assumptions += ["BTreeMap::{insert,clear,into_iter,retain} behave as documented",
                        "spec/redaction.json and spec/room_versions.json transcribe the Matrix specification v1.14 correctly"]
    ctx.samples += [{"cell": "V11 / m.room.member / third_party_invite", "expected": "kept reduced to `signed`"},
                    {"cell": "V5 / m.room.aliases / aliases", "expected": "kept"},
                    {"cell": "V11 / top-level / origin", "expected": "dropped"}]
    ctx.extra_cov = {"exhaustive": True}


def retain_only(dex, w, eff, member):
    """The closure passed to BTreeMap::retain keeps exactly the key equal to `member`."""
    clo = eff[1][1]
    if clo is None or clo[0] != "clo":
        return False
    fn = w.fn(clo[1])
    k = D.sym("k")
    ps = dex.paths(fn, [clo, k, D.sym("v")])
    lits = literals(ps, k)
    if lits != [member]:
        return False
    for key in (member, OTHER):
        val = lambda a: (key == a[2][1]) if a[0] == "eq" and a[1] == k else None
        sel = D.evaluate(ps, val)
        if len(sel) != 1 or D.eval_bool(sel[0].ret, val) != (key == member):
            return False
    return True


def is_not_empty_of(v, obj):
    return v is not None and v[0] == "natom" and v[1][0] == "bool" and "is_empty(" + D.show(obj) + ")" in D.show(v[1][1])
