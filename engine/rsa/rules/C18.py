"""C18 — typed event (de)serialization: dispatch agreement, redaction detection, Raw<T> wrapper, serde skip/required symmetry."""
import re
from .. import dex as D, world as W, mir as M, strenum as S
from . import util as U, panic_common as PC

LEVEL = "other"
EXPLANATION = (
    "(A8) For every generated `Any*Event` enum the literal arms of its Deserialize are read from MIR (string comparison -> typed "
    "from_str::<Kind<Content>> -> variant): the content type's StaticEventContent::TYPE (const-evaluated) must be the literal or map to the "
    "same event-type variant as the literal (declared alias), the variant constructed must be the one whose event type enum variant "
    "spells that TYPE, and the fallback builds _Custom. The kind-level Deserialize picks the redacted form iff "
    "unsigned.redacted_because is present. Raw<T>: constructors/accessors move the boxed RawValue untouched, deserialize parses "
    "exactly json.get(), get_field scans every key (last occurrence wins, like a full parse). (A9) For every derived Serialize/"
    "Deserialize pair: a field that may be skipped on output is never required on input. NOT decided: fixpoint of each content type "
    "under a second round trip (hand-written serde helpers), key-order independence, accessors equal to the JSON.")
EV = "ruma_events::"


def arms_of(fn):
    """[(literal | ('prefix', p), from_str type, variant)] read along the true edge of each string comparison."""
    body = fn["body"]
    cfg = M.Cfg(body)
    out = []
    for bi, b in enumerate(body["blocks"]):
        t = b["t"]
        if t[0] != "call":
            continue
        c = t[1]
        name = M.callee_name(c)
        lit = None
        if name.endswith("<impl core::cmp::PartialEq for str>::eq") and c["args"][1].get("k") == "const" and isinstance(c["args"][1].get("v"), str):
            lit = c["args"][1]["v"]
        elif name.endswith("<impl str>::starts_with") and c["args"][1].get("k") == "const" and isinstance(c["args"][1].get("v"), str):
            lit = ("prefix", c["args"][1]["v"])
        if lit is None or c.get("target") is None:
            continue
        sw = body["blocks"][c["target"]]["t"]
        if sw[0] != "switch":
            continue
        true_t = sw[3] if any(v == 0 for v, _ in sw[2]) else [bb for v, bb in sw[2] if v == 1][0]
        # follow the true edge until a from_str call and the enum variant aggregate
        ty, variant = None, None
        cur, seen = true_t, set()
        for _ in range(60):
            if cur in seen:
                break
            seen.add(cur)
            blk = body["blocks"][cur]
            for st in blk["s"]:
                if st[0] == "=" and st[2][0] == "agg" and st[2][1].get("k") == "adt" and st[2][1]["adt"].startswith(EV + "enums::Any") and variant is None and ty is not None:
                    variant = st[2][1]["variant"]
            tt = blk["t"]
            if tt[0] == "call":
                n2 = M.callee_name(tt[1])
                if (n2.endswith("from_str") or n2.endswith("from_raw_json_value") or n2.endswith("from_json_str")) and ty is None and tt[1].get("fnargs"):
                    cand = [a for a in tt[1]["fnargs"] if a.startswith(EV)]
                    if cand:
                        ty = cand[-1]
                if n2.endswith("PartialEq for str>::eq") or n2.endswith("<impl str>::starts_with"):
                    break
                if tt[1].get("target") is None:
                    break
                cur = tt[1]["target"]
            elif tt[0] == "switch":
                # Result match after from_str: take the Ok arm (value 0)
                oks = [bb for v, bb in tt[2] if v == 0]
                cur = oks[0] if oks else tt[3]
            elif tt[0] in ("goto", "drop", "assert"):
                cur = cfg.succ[cur][0] if cfg.succ[cur] else None
            else:
                break
            if cur is None or (variant and ty):
                break
        out.append((lit, ty, variant))
    return out


def type_const(types, c):
    if c in types:
        return types[c]
    mod, _, last = c.rpartition("::")
    for pre in ("PossiblyRedacted", "Redacted", "Sync", "Original", "OriginalSync"):
        if last.startswith(pre) and f"{mod}::{last[len(pre):]}" in types:
            return types[f"{mod}::{last[len(pre):]}"]
    # event structs that are their own kind (m.room.redaction): use the content type of the same module
    if last.endswith("Event"):
        base = last
        for pre in ("OriginalSync", "Original", "Sync"):
            if base.startswith(pre):
                base = base[len(pre):]
        return types.get(f"{mod}::{base}Content")
    return None


def content_of(ty):
    """Kind<Content> -> Content (innermost generic argument that is a ruma_events path)"""
    m = re.findall(r"(ruma_events::[\w:]+)", ty or "")
    return m[-1] if m else None


SER_IMPL = re.compile(r"<impl serde_core::ser::Serialize for (.*)>::serialize$")


def _literal_table(w, fn, args, lit_of=None):
    """literal -> variant, read off the successful paths of a function that matches a string against literals and builds enum variants."""
    dex = D.Dex(w.lookup, adt_discr=w.adt_discr, inline=lambda n: "{closure" in n, ctors=w.ctors)
    table, odd = {}, []
    for p in dex.paths(fn, args):
        if p.kind != "ret":
            continue
        r = D.show(p.ret)
        m = re.match(r"^(?:Result::Ok\()?(?:\w+::)*(\w+)::(\w+)\b", r)
        if not m or r.startswith("Result::Err"):
            continue
        lits = [re.search(r"=='([^']*)'$", D.show_atom(a)) for a, t in p.conds if a[0] == "eq" and t]
        lits = [x.group(1) for x in lits if x]
        if not lits:
            continue            # fallback arm (custom value)
        if table.get(lits[-1], m.group(2)) != m.group(2):
            odd.append((lits[-1], table[lits[-1]], m.group(2)))
        table[lits[-1]] = m.group(2)
    return table, odd


def _variant_strings(w, fn):
    """variant -> literal for an accessor `fn(&self) -> &str` that matches on self."""
    dex = D.Dex(w.lookup, adt_discr=w.adt_discr, inline=lambda n: "{closure" in n, ctors=w.ctors)
    out = {}
    for p in dex.paths(fn, [D.sym("self")]):
        v = [a[2] for a, t in p.conds if a[0] == "variant" and t and D.show(a[1]) == "self"]
        if v and p.kind == "ret" and D.is_const(p.ret) and isinstance(p.ret[1], str):
            out[v[0]] = p.ret[1]
    return out


def _snake(name):
    return re.sub(r"(?<!^)(?=[A-Z])", "_", name).lower()


def string_dispatch_rule(ctx, w, rule):
    """Hand-written string dispatch tables that must agree with the derived / sibling ones:
    JoinRule: Serialize is derived (`tag = "join_rule", rename_all = "snake_case"`), Deserialize is a hand-written match on the tag - every arm's
    literal must be the snake_case name of the variant it builds, and every variant must have an arm (else `knock_restricted` comes back as
    `restricted`). MessageType: `new(msgtype, ..)`, Deserialize and `msgtype()` are three tables over the same literals - they must agree."""
    ctx.rule(rule, "JoinRule::deserialize: literal == snake_case(variant) for every arm, all variants covered, and == as_str(); "
                   "MessageType::new / Deserialize / msgtype(): the same literal <-> variant table")
    # ---- JoinRule
    kj = [k for k in w.fn_index if re.fullmatch(r"<ruma_events::room::join_rules::JoinRule as serde_core::de::Deserialize<'de>>::deserialize", k)]
    if len(kj) == 1:
        tj, odd = _literal_table(w, w.fn(kj[0]), [D.sym("de")])
        adt = w.adts.get("ruma_events::room::join_rules::JoinRule")
        variants = {v["name"] for v in adt["variants"]} - {"_Custom"} if adt else set()
        bad = {l: v for l, v in tj.items() if _snake(v) != l}
        missing = sorted(variants - set(tj.values()))
        ctx.floor("arms of JoinRule::deserialize", len(tj), 5)
        ctx.check(not bad and not missing and not odd, rule, f"{rule}:JoinRule:deserialize", w.where(w.fn(kj[0])),
                  bad_msg=f"JoinRule's hand-written Deserialize disagrees with its derived Serialize (snake_case of the variant): arms {bad}, variants never built {missing}: the value "
                          f"changes on a typed round trip (e.g. `knock_restricted` is read into another variant and written back under that variant's name)")
        fa = [k for k in w.fn_index if k == "ruma_events::room::join_rules::JoinRule::as_str"]
        if fa:
            vs = _variant_strings(w, w.fn(fa[0]))
            badv = {v: l for v, l in vs.items() if tj.get(l) != v}
            ctx.check(bool(vs) and not badv, rule, f"{rule}:JoinRule:as_str", w.where(w.fn(fa[0])), bad_msg=f"JoinRule::as_str disagrees with Deserialize: {badv}")
    else:
        ctx.missing(rule, f"{rule}:JoinRule:deserialize", "JoinRule's Deserialize impl not found")
    # ---- MessageType
    MT = "ruma_events::room::message::MessageType"
    fnew = [k for k in w.fn_index if k == MT + "::new"]
    fde = [k for k in w.fn_index if re.fullmatch(r"ruma_events::room::message::content_serde::<impl serde_core::de::Deserialize<'de> for " + re.escape(MT) + r">::deserialize", k)]
    fms = [k for k in w.fn_index if k == MT + "::msgtype"]
    if fnew and fde and fms:
        tn, odd1 = _literal_table(w, w.fn(fnew[0]), [D.sym("msgtype"), D.sym("body"), D.sym("data")])
        td, odd2 = _literal_table(w, w.fn(fde[0]), [D.sym("de")])
        vs = _variant_strings(w, w.fn(fms[0]))
        inv = {l: v for v, l in vs.items()}
        ctx.floor("arms of MessageType::new", len(tn), 8)
        diff = {l: (tn.get(l), td.get(l), inv.get(l)) for l in sorted(set(tn) | set(td) | set(inv)) if len({tn.get(l), td.get(l), inv.get(l)}) != 1}
        ctx.check(not diff and not odd1 and not odd2, rule, f"{rule}:MessageType", w.where(w.fn(fnew[0])),
                  bad_msg=f"MessageType::new / Deserialize / msgtype() disagree on (literal: new, deserialize, msgtype()) {diff}: the string given to the constructor is not the one "
                          f"msgtype() and serialization return, or the payload is parsed as another message type")
    else:
        ctx.missing(rule, f"{rule}:MessageType", "MessageType::new / Deserialize / msgtype not found")
    # ---- AuthData (ruma-client-api; present in build configuration B only, i.e. on the thorough tier)
    AD = "ruma_client_api::uiaa::AuthData"
    fnew = [k for k in w.fn_index if k == AD + "::new"]
    fde = [k for k in w.fn_index if k == f"<{AD} as serde_core::de::Deserialize<'de>>::deserialize"]
    if fnew and fde:
        tn, odd1 = _literal_table(w, w.fn(fnew[0]), [D.sym("auth_type"), D.sym("session"), D.sym("data")])
        td, odd2 = _literal_table(w, w.fn(fde[0]), [D.sym("de")])
        ctx.floor("arms of AuthData::new", len(tn), 7)
        diff = {l: (tn.get(l), td.get(l)) for l in sorted(set(tn) | set(td)) if tn.get(l) != td.get(l)}
        ctx.check(not diff and not odd1 and not odd2, rule, f"{rule}:AuthData", w.where(w.fn(fnew[0])),
                  bad_msg=f"AuthData::new and AuthData's Deserialize disagree on (type string: new, deserialize) {diff}: the specified spelling is kept as a custom "
                          f"value by one entry point and parsed into the dedicated variant by the other")


def wire_kind_rule(ctx, w, rule):
    """VoipVersionId is written as the JSON integer 0 for V0 and as a string for everything else, and read back by kind (visit_u64 / visit_str). The
    string table behind From<&str> / visit_str must therefore not produce a variant that is written as an integer: `"version": "0"` would come back as
    `"version": 0` - a present value changed by one typed round trip."""
    ctx.rule(rule, "VoipVersionId: no string is mapped (From<&str> / visit_str) to a variant that Serialize writes as an integer")
    VV = "ruma_common::identifiers::voip_version_id::"
    ff = [k for k in w.fn_index if k == VV + "from"]
    fs = [k for k in w.fn_index if k == f"<{VV}VoipVersionId as serde_core::ser::Serialize>::serialize"]
    if not ff or not fs:
        ctx.missing(rule, f"{rule}:VoipVersionId", "string table or Serialize of VoipVersionId not found")
        return
    table, odd = _literal_table(w, w.fn(ff[0]), [D.sym("s")])
    dex = D.Dex(w.lookup, adt_discr=w.adt_discr, inline=lambda n: False, ctors=w.ctors, effects=lambda n: "serialize_" in n.rsplit("::", 1)[-1])
    as_int = set()
    n_paths = 0
    for p in dex.paths(w.fn(fs[0]), [D.sym("self"), D.sym("ser")]):
        n_paths += 1
        v = [a[2] for a, t in p.conds if a[0] == "variant" and t and D.show(a[1]).lstrip("*&") in ("self", "(self)")]
        if v and any(e[0].rsplit("::", 1)[-1] in ("serialize_u64", "serialize_i64", "serialize_u32", "serialize_u8", "serialize_i32") for e in p.effects):
            as_int.add(v[0])
    ctx.floor("paths of VoipVersionId::serialize", n_paths, 2)
    # an integer written on a path that has not tested the variant (`match self.as_str() { "0" => serialize_u64(0), .. }`): the kind follows the spelling
    int_paths_without_variant = sum(1 for p in dex.paths(w.fn(fs[0]), [D.sym("self"), D.sym("ser")])
                                    if any(e[0].rsplit("::", 1)[-1] in ("serialize_u64", "serialize_i64", "serialize_u32", "serialize_u8", "serialize_i32") for e in p.effects)
                                    and not [a for a, t in p.conds if a[0] == "variant" and t and D.show(a[1]).lstrip("*&") in ("self", "(self)")])
    if int_paths_without_variant:
        ctx.violation(rule, f"{rule}:VoipVersionId:integer-by-spelling", w.where(w.fn(fs[0])),
                      "Serialize for VoipVersionId writes an integer on a path that has not tested which variant `self` is (the decision follows the string form): the custom "
                      "string \"0\" is written as the integer 0 and comes back as V0 - a present value changes kind on a round trip")
        return
    clash = {l: v for l, v in table.items() if v in as_int}
    ctx.check(bool(as_int) and not clash and not odd, rule, f"{rule}:VoipVersionId", w.where(w.fn(ff[0])),
              ok_msg=f"written as integers: {sorted(as_int)}; string table: {table}",
              bad_msg=f"the string table of VoipVersionId maps {clash} although {sorted(as_int)} are written as JSON integers (integer variants found: {bool(as_int)}): a call event with "
                      f"`\"version\": \"0\"` is re-serialized with `\"version\": 0`")


def custom_msgtype_rule(ctx, w):
    """An unknown `msgtype` is kept as MessageType::_Custom, whose payload collects EVERY other key of the JSON object it is parsed from in a
    flattened map. RoomMessageEventContent (and ..WithoutRelation) parse the message type from the whole content object and serialize
    `m.mentions` / the relation (`m.relates_to`, `m.new_content`) themselves: unless those keys are taken out of the custom payload, they are
    written twice and the text no longer parses (`duplicate field`). Decided from the call graph of the two hand-written Deserialize impls:
    the keys the outer type writes itself are removed from a serde_json map there (directly or in a private helper of the module)."""
    rule = "C18.custom-msgtype"
    ctx.rule(rule, "Deserialize for RoomMessageEventContent / RoomMessageEventContentWithoutRelation: the keys the content type serializes itself are removed from the "
                   "catch-all map of a custom message type (m.mentions; with relation also m.relates_to and m.new_content)")
    need = {"RoomMessageEventContent": {"m.mentions", "m.relates_to", "m.new_content"}, "RoomMessageEventContentWithoutRelation": {"m.mentions"}}
    MOD = "ruma_events::room::message::content_serde::"
    n = 0
    for g in w.all_fns():
        m = re.search(r"content_serde::<impl serde_core::de::Deserialize<'de> for ruma_events::room::message::(?:\w+::)*(RoomMessageEventContent(?:WithoutRelation)?)>::deserialize$", g["path"])
        if not m or "body" not in g:
            continue
        n += 1
        fam = [g]
        for body in M.all_bodies(g):
            for _, c in M.calls(body):
                cn = M.callee_name(c)
                if cn.startswith(MOD) and "<" not in cn[len(MOD):]:
                    fam += [h for h in w.fn_index.get(cn, []) if "body" in h]
        removed = set()
        for h in fam:
            for body in M.all_bodies(h):
                defs_ = PC.roots(body)
                for _, c in M.calls(body):
                    cn = M.callee_name(c)
                    if cn.rsplit("::", 1)[-1] in ("remove", "shift_remove", "swap_remove", "remove_entry") and ("serde_json::map::Map" in cn or "BTreeMap" in cn) and len(c["args"]) >= 2:
                        e_ = PC.expr(body, defs_, c["args"][1])
                        if e_[0] == "const" and isinstance(e_[1], str):
                            removed.add(e_[1])
        missing = sorted(need[m.group(1)] - removed)
        ctx.check(not missing, rule, f"{rule}:{m.group(1)}", w.where(g),
                  bad_msg=f"{m.group(1)}: a custom message type is parsed from the whole content object and keeps {missing} in its data, which {m.group(1)} writes itself as well: "
                          f"after one parse the content serializes those keys twice (e.g. a reply with an unknown msgtype), and parsing that text fails with `duplicate field`")
    ctx.floor("hand-written deserializers of the room message content", n, 2)


def unique_keys_rule(ctx, w):
    """C18.unique-keys: a derived Serialize never writes one key twice into the same JSON object. serde_json writes duplicate keys as they come,
    and reading the text back then fails (`duplicate field`) or, under an untagged fallback, silently lands in another variant. Two compositions
    can duplicate a key although each type is fine alone: (1) an internally tagged enum writes its tag and then the fields of a newtype variant's
    payload - the payload must not write that key itself (own `tag`, or a field of that name); (2) a `flatten`ed field's keys are written into
    the parent's object - they must be disjoint from the parent's own keys."""
    ctx.rule("C18.unique-keys", "derived Serialize of ruma-common / ruma-events: the tag of an internally tagged enum is not also written by the payload type of a newtype "
                                "variant, and the constant keys of a flattened field's type are disjoint from the keys of the struct it is flattened into")
    impls = {}
    for fn in w.all_fns():
        m_ = SER_IMPL.search(fn["path"]) if "body" in fn else None
        if m_:
            impls[m_.group(1)] = fn

    def keys_of(ty):
        fn = impls.get(ty)
        if fn is None:
            return None
        keys = set()
        for body in M.all_bodies(fn):
            defs_ = None
            for _, c in M.calls(body):
                n_ = M.callee_name(c)
                last = n_.rsplit("::", 1)[-1]
                if last in ("serialize_field", "serialize_entry") and len(c["args"]) >= 2:
                    if c["args"][1].get("k") == "const" and isinstance(c["args"][1].get("v"), str):
                        keys.add(c["args"][1]["v"])
                    elif c["args"][1].get("k") in ("copy", "move"):
                        # serialize_entry(&mut map, "key", &value): the key is a reference to a promoted constant
                        if defs_ is None:
                            defs_ = PC.roots(body)
                        e_ = PC.expr(body, defs_, c["args"][1])
                        while e_[0] in ("field", "variant", "cast") and len(e_) > 1 and isinstance(e_[1], tuple):
                            e_ = e_[1]
                        if e_[0] == "const" and isinstance(e_[1], str):
                            keys.add(e_[1])
                        elif e_[0] == "const?" and fn.get("promoted"):
                            for pb in fn["promoted"]:
                                for b_ in pb["blocks"]:
                                    for st in b_["s"]:
                                        if st[0] == "=" and st[2][0] == "use" and st[2][1].get("k") == "const" and isinstance(st[2][1].get("v"), str):
                                            keys.add(st[2][1]["v"])
                if last == "serialize_tagged_newtype" and len(c["args"]) >= 5 and c["args"][3].get("k") == "const":
                    keys.add(c["args"][3]["v"])
        return keys
    n_tag, n_flat = 0, 0
    for ty, fn in sorted(impls.items()):
        own = keys_of(ty)
        for body in M.all_bodies(fn):
            for _, c in M.calls(body):
                n_ = M.callee_name(c)
                fa = c.get("fnargs") or []
                if n_.endswith("::serialize_tagged_newtype") and len(c["args"]) >= 6 and c["args"][3].get("k") == "const" and len(fa) >= 2:
                    n_tag += 1
                    tag, variant, payload = c["args"][3]["v"], c["args"][2].get("v"), fa[1].lstrip("&")
                    pk = keys_of(payload)
                    if pk is None:
                        ctx.ok("C18.unique-keys", f"C18.unique-keys:tag:{ty}::{variant}", w.where(fn), f"payload {payload} has no derived Serialize in the analysed crates", nontrivial=False)
                    else:
                        ctx.check(tag not in pk, "C18.unique-keys", f"C18.unique-keys:tag:{ty}::{variant}", w.where(impls[payload]),
                                  bad_msg=f"{ty}::{variant} is written as the tag `{tag}` followed by the fields of {payload}, and {payload} writes the key `{tag}` "
                                          f"itself: the JSON object has the key twice (reading it back fails or falls through to an untagged variant)")
                elif n_.endswith("::serialize") and any("FlatMapSerializer" in x for x in fa) and fa:
                    child = fa[0].lstrip("&")
                    ck = keys_of(child)
                    if ck is None:
                        continue        # a map / Option / type without derived Serialize: keys are data
                    n_flat += 1
                    both = sorted((own or set()) & ck)
                    ctx.check(not both, "C18.unique-keys", f"C18.unique-keys:flatten:{ty}<-{child}", w.where(fn),
                              bad_msg=f"{ty} flattens {child}, which writes key(s) {both} that {ty} writes too")
    # generic helpers (`struct Helper<'a, T> { key: .., #[serde(flatten)] inner: T }`): the flattened type is known at the call sites only
    generic = {}
    for ty, fn in impls.items():
        own = keys_of(ty)
        for body in M.all_bodies(fn):
            for _, c in M.calls(body):
                fa = c.get("fnargs") or []
                if M.callee_name(c).endswith("::serialize") and any("FlatMapSerializer" in x for x in fa) and fa and re.fullmatch(r"&*\w", fa[0]):
                    generic[ty.split("<")[0]] = (own or set(), fn)
    n_gen = 0
    for ty, fn in sorted(impls.items()):
        for body in M.all_bodies(fn):
            for _, c in M.calls(body):
                fa = c.get("fnargs") or []
                if not (M.callee_name(c).endswith("::serialize") and fa):
                    continue
                base = fa[0].lstrip("&").split("<")[0]
                if base not in generic or "<" not in fa[0]:
                    continue
                inner = fa[0][fa[0].index("<") + 1:fa[0].rindex(">")]
                args = [a_.strip().lstrip("&") for a_ in re.split(r",\s*(?![^<]*>)", inner) if not a_.strip().startswith("'")]
                for child in args:
                    ck = keys_of(child)
                    if ck is None:
                        continue
                    n_gen += 1
                    both = sorted(generic[base][0] & ck)
                    ctx.check(not both, "C18.unique-keys", f"C18.unique-keys:flatten:{base.rsplit('::', 1)[-1]}<{child.rsplit('::', 1)[-1]}>@{ty.rsplit('::', 1)[-1]}", w.where(fn),
                              bad_msg=f"{ty} serializes through {base}<{child}>, which writes {sorted(generic[base][0])} and flattens {child}, which writes key(s) {both} itself: "
                                      f"the JSON text has the key twice")
    ctx.floor("instantiations of generic flatten helpers", n_gen, 1)
    ctx.floor("internally tagged newtype variants", n_tag, 10)
    ctx.floor("flattened fields with a derived Serialize", n_flat, 5)


def no_borrowed_str_rule(ctx, w, rule, floor=1200):
    """Nothing is requested from the deserializer as a borrowed &str / &[u8] (shared with C19: a string enum's hand-written Deserialize that reads its tag
    as &str rejects every spelling that needs a JSON escape)."""
    ctx.rule(rule, "no field or element is requested from the deserializer as `&str` / `&[u8]` (directly or inside Option): serde_json can lend a "
                                    "string only when it contains no escape sequence, so `\"caf\\u00e9\"` or `\"a\\\"b\"` would fail where the same value "
                                    "spelled without escapes succeeds (use Cow<str> with #[serde(borrow)] or String)")
    n_reads, borrowed = 0, []
    for fn in w.all_fns():
        if "body" not in fn:
            continue
        for body in M.all_bodies(fn):
            for _, c in M.calls(body):
                nm = M.callee_name(c)
                if re.search(r"(MapAccess|SeqAccess)(<'de>)?::next_(value|element|key|entry)(_seed)?$", nm) or nm.endswith("Deserialize<'de>>::deserialize"):
                    n_reads += 1
                    fa = c.get("fnargs") or []
                    if any(re.search(r"(^|<|, )&('\w+ )?(str|\[u8\])(>|,|$)", a) for a in fa):
                        borrowed.append((fn, c["line"], [a for a in fa if "str" in a or "[u8]" in a][:1]))
    for fn, line, ty_ in borrowed[:6]:
        ctx.violation(rule, f"{rule}:{PC.key_path(fn['path'])[:150]}", w.where(fn, line),
                      f"reads a value as {ty_}: deserialization fails for input whose string contains a JSON escape (e.g. a state key `@caf\\u00e9:hs`), "
                      f"although the same value without escapes is accepted")
    if not borrowed:
        ctx.ok(rule, f"{rule}:scan", "", f"{n_reads} deserializer reads, none for a borrowed string")
    ctx.floor("deserializer reads scanned", n_reads, floor)



def dispatch_rule(ctx, w, rule):
    """Every arm of the generated Any*Event deserializers (literal or wildcard prefix) agrees with the event type enum's own string table."""
    types = {k[1:k.index(" as ")]: v["v"] for k, v in w.values.items() if k.endswith("StaticEventContent>::TYPE")}
    ctx.floor("content types with a TYPE constant", len(types), 100)
    enums = S.discover(w)
    # event type enum tables
    tables = {}
    for e, d in enums.items():
        if d["kind"] == "event_type":
            Fe, Fp, fb, G, pr = S.tables(w, e, d)
            tables[e.rsplit("::", 1)[-1]] = (Fe, Fp, G)

    ctx.rule(rule, "every literal arm of the generated Any*Event deserializers parses the kind of the content type whose TYPE is that literal (or a declared alias of it) "
                             "and builds the variant of the same event type; unknown types fall back to _Custom")
    type_enum_of = {"AnyStateEvent": "StateEventType", "AnySyncStateEvent": "StateEventType", "AnyStrippedStateEvent": "StateEventType", "AnyInitialStateEvent": "StateEventType",
                    "AnyMessageLikeEvent": "MessageLikeEventType", "AnySyncMessageLikeEvent": "MessageLikeEventType", "AnyEphemeralRoomEvent": "EphemeralRoomEventType",
                    "AnySyncEphemeralRoomEvent": "EphemeralRoomEventType", "AnyGlobalAccountDataEvent": "GlobalAccountDataEventType",
                    "AnyRoomAccountDataEvent": "RoomAccountDataEventType", "AnyToDeviceEvent": "ToDeviceEventType"}
    n_arms = 0
    for any_enum, tenum in sorted(type_enum_of.items()):
        p = f"<{EV}enums::{any_enum} as serde_core::de::Deserialize<'de>>::deserialize"
        if p not in w.fn_index:
            ctx.missing(rule, f"{rule}:{any_enum}", f"{p} not found")
            continue
        fn = w.fn(p)
        arms = arms_of(fn)
        Fe, Fp, G = tables.get(tenum, ({}, [], {}))
        lit_arms = [a for a in arms if isinstance(a[0], str)]
        ctx.floor(f"{any_enum} literal arms", len(lit_arms), 1)
        for lit, ty, variant in arms:
            n_arms += 1
            key = f"{rule}:{any_enum}:{lit if isinstance(lit, str) else lit[1] + '*'}"
            c = content_of(ty)
            if c is None or variant is None:
                ctx.unrecognised(rule, key, w.where(fn), f"could not read the arm (type {ty}, variant {variant})")
                continue
            tconst = type_const(types, c)
            if isinstance(lit, str):
                same_type = tconst == lit or (tconst is not None and Fe.get(lit) is not None and Fe.get(lit) == Fe.get(tconst))
                # the variant of the Any enum is named like the event type enum variant of the literal
                tv = Fe.get(lit)
                ctx.check(bool(same_type) and tv == variant, rule, key, w.where(fn),
                          bad_msg=f"`{lit}` is parsed as {c} (TYPE = {tconst!r}) into variant {variant}; the event type enum maps `{lit}` to {tv}")
            else:
                prefix = lit[1]
                tv = [v for pfx, v in Fp if pfx == prefix]
                ok = tconst is not None and (tconst.startswith(prefix) or tconst == prefix + "*") and tv == [variant]
                ctx.check(ok, rule, key, w.where(fn), bad_msg=f"prefix `{prefix}` is parsed as {c} (TYPE = {tconst!r}) into {variant}; prefix arms of the type enum: {Fp}")
        # fallback _Custom
        has_custom = any(st[0] == "=" and st[2][0] == "agg" and st[2][1].get("k") == "adt" and st[2][1].get("variant") == "_Custom" and st[2][1]["adt"].endswith(any_enum)
                         for b in fn["body"]["blocks"] for st in b["s"])
        # `.map(Self::_Custom)`: the constructor passed as a function value
        has_custom = has_custom or any(o.get("k") == "const" and (o.get("fn") or "").endswith(f"{any_enum}::_Custom")
                                       for _, c in M.calls(fn["body"]) for o in c["args"])
        ctx.check(has_custom, rule, f"{rule}:{any_enum}:fallback", w.where(fn), bad_msg="unknown event types are not turned into the _Custom variant")
    ctx.count("dispatch_arms", n_arms)
    ctx.floor("dispatch arms", n_arms, 150)



def run(ctx):
    thorough = ctx.tier == "thorough"
    fx = ctx.facts("A")
    w = W.World(fx, ["ruma_events", "ruma_common"])
    dispatch_rule(ctx, w, "C18.dispatch")

    # ---- redaction detection ---------------------------------------------------------------------------------
    ctx.rule("C18.redacted", "kind-level Deserialize (MessageLikeEvent, StateEvent, their Sync forms): Redacted iff unsigned.redacted_because is present")
    dex = D.Dex(w.lookup, adt_discr=w.adt_discr, ctors=w.ctors, inline=lambda n: "{closure" in n)
    n_kinds = 0
    for kind in ("MessageLikeEvent", "SyncMessageLikeEvent", "StateEvent", "SyncStateEvent"):
        p = f"<{EV}kinds::{kind}<C> as serde_core::de::Deserialize<'de>>::deserialize"
        if p not in w.fn_index:
            ctx.missing("C18.redacted", f"C18.redacted:{kind}", f"{p} not found")
            continue
        n_kinds += 1
        fn = w.fn(p)
        ps = dex.paths(fn, [D.sym("de")])
        res = {}
        for pp in ps:
            if pp.kind != "ret" or not U.is_ok(pp.ret):
                continue
            conds = {D.show_atom(a): t for a, t in pp.conds}
            present = [t for s_, t in conds.items() if s_.endswith(".redacted_because is Some")]
            unsigned_some = [t for s_, t in conds.items() if s_.endswith(".unsigned is Some")]
            keyp = "present" if (present == [True]) else "absent"
            res.setdefault(keyp, set()).add(U.payload(pp.ret)[2])
        ctx.check(res.get("present") == {"Redacted"} and res.get("absent") == {"Original"}, "C18.redacted", f"C18.redacted:{kind}", w.where(fn), bad_msg=f"{res}")
        # ... and on nothing else: the only facts a successful path looks at are "this parse succeeded" and the presence of unsigned / redacted_because
        foreign = sorted({D.show_atom(a) for pp in ps if pp.kind == "ret" and U.is_ok(pp.ret) for a, t in pp.conds
                          if not re.search(r"( is Ok|\.unsigned is (Some|None)|\.redacted_because is (Some|None))$", D.show_atom(a))})
        ctx.check(not foreign, "C18.redacted", f"C18.redacted:{kind}:only-the-parsed-value", w.where(fn),
                  bad_msg=f"the Original/Redacted choice also depends on {[x[:110] for x in foreign][:2]}: a test on the raw text is not a test on the JSON value "
                          f"(a key may be spelled with \\u escapes), so an event with unsigned.redacted_because can be routed to the Original variant")
    ctx.floor("possibly-redacted kinds", n_kinds, 4)

    # ---- Raw<T> ------------------------------------------------------------------------------------------------------
    ctx.rule("C18.raw", "Raw<T>: from_json / json / into_json / cast move the boxed RawValue untouched; deserialize(_as) parse exactly json.get(); "
                        "get_field visits every key of the object (no early exit), so the last occurrence wins as in a full parse")
    R = "ruma_common::serde::raw::Raw::<T>::"
    J = r"self\.json(\.0\.pointer)?"
    expect = {"from_json": r"Raw::Raw\(json=json, _ev=.*\)", "json": J, "into_json": J,
              "deserialize": r"de::from_str\(RawValue::get\(" + J + r"\)\)", "deserialize_as": r"de::from_str\(RawValue::get\(" + J + r"\)\)"}
    for m, rx in expect.items():
        fn = w.fn(R + m)
        # the accessors may be written in terms of each other (deserialize = deserialize_as::<T>): sibling methods are inlined
        dexr = D.Dex(w.lookup, adt_discr=w.adt_discr, inline=lambda n: n.startswith(R) and "::" not in n[len(R):] and "{" not in n)
        ps = dexr.paths(fn, [D.sym("json") if m == "from_json" else D.sym("self")])
        r = D.show(ps[0].ret) if len(ps) == 1 else ""
        ctx.check(re.fullmatch(rx, r) is not None, "C18.raw", f"C18.raw:{m}", w.where(fn), bad_msg=f"{m} is {r[:120]}")
    fn = w.fn(R + "cast")
    names = [M.callee_name(c) for _, c in M.calls(fn["body"])]
    ctx.check(all(n_.endswith("into_json") or n_.endswith("from_json") for n_ in names) and len(names) == 2, "C18.raw", "C18.raw:cast", w.where(fn), bad_msg=f"cast calls {names}")
    vm = [p for p in w.fn_index if p.startswith("<ruma_common::serde::raw::Raw<T>::get_field::SingleFieldVisitor<") and p.endswith("::visit_map")]
    if len(vm) != 1:
        ctx.missing("C18.raw", "C18.raw:get_field", f"visit_map of get_field not found ({len(vm)})")
    else:
        fn = w.fn(vm[0])
        cfg = M.Cfg(fn["body"])
        loops = cfg.natural_loops()
        good = len(loops) == 1
        for head, blocks in loops.items():
            for b in blocks:
                for s_ in cfg.succ[b]:
                    if s_ in blocks:
                        continue
                    t = fn["body"]["blocks"][b]["t"]
                    # exits: the `?` error arms and the exhausted key iterator; never a "found it" exit
                    if t[0] != "switch":
                        good = False
            nv = [b for b in blocks if fn["body"]["blocks"][b]["t"][0] == "call" and M.callee_name(fn["body"]["blocks"][b]["t"][1]).endswith("MapAccess::next_value")]
            good = good and len(nv) == 2
        ctx.check(good, "C18.raw", "C18.raw:get_field", w.where(fn), bad_msg="get_field's key loop can stop before the last key (first occurrence would win, unlike a full parse)")

    # ---- A9 serde symmetry -----------------------------------------------------------------------------------------------
    ctx.rule("C18.symmetry", "for every derived Serialize/Deserialize pair of ruma-common and ruma-events: no field that may be skipped when serializing is required when deserializing")
    skip, req = {}, {}
    for fn in w.all_fns():
        if "body" not in fn:
            continue
        p = fn["path"]
        ms = re.search(r"<impl serde_core::ser::Serialize for (.*)>::serialize$", p)
        md = re.search(r"<impl serde_core::de::Deserialize<'de> for (.*)>::deserialize::__Visitor.*::visit_map$", p)
        if not ms and not md:
            continue
        for body in M.all_bodies(fn):
            for _, c in M.calls(body):
                n_ = M.callee_name(c)
                if ms and n_.endswith("::skip_field") and c["args"][1].get("k") == "const":
                    skip.setdefault(ms.group(1), set()).add(c["args"][1].get("v"))
                if md and n_.endswith("de::missing_field") and c["args"][0].get("k") == "const":
                    fty = (c.get("fnargs") or ["", ""])[1] if len(c.get("fnargs") or []) > 1 else ""
                    if not fty.startswith("core::option::Option<"):
                        req.setdefault(md.group(1), set()).add(c["args"][0].get("v"))
    n_pairs = 0
    for ty in sorted(set(skip) | set(req)):
        if ty in skip and ty in req:
            n_pairs += 1
        both = skip.get(ty, set()) & req.get(ty, set())
        if ty in skip:
            ctx.check(not both, "C18.symmetry", f"C18.symmetry:{ty}", "", ok_msg=f"skippable {sorted(skip[ty])}",
                      bad_msg=f"{ty}: field(s) {sorted(both)} can be omitted by Serialize but are required by Deserialize (the type cannot read back its own output)")
    ctx.count("types_with_skippable_fields", len(skip))
    ctx.count("types_with_required_fields", len(req))
    ctx.floor("derived types with skippable fields", len(skip), 50)
    unique_keys_rule(ctx, w)
    custom_msgtype_rule(ctx, w)
    string_dispatch_rule(ctx, w, "C18.string-dispatch")
    wire_kind_rule(ctx, w, "C18.wire-kind")
    # the two hand-written deserializers of m.room.redaction (full / sync) must accept the same events: both `redacts` locations are valid
    from . import C17 as _C17
    _C17.redacts_fallback_rule(ctx, w, "C18.redaction-siblings")
    # ---- nothing is read as a borrowed string -----------------------------------------------------------------------------------------------
    no_borrowed_str_rule(ctx, w, "C18.no-borrowed-str")
    defaults_rule(ctx, w, "C18.defaults", req)
    map_drained_rule(ctx, w, "C18.map-drained")
    redacted_keys_rule(ctx, w, "C18.redacted-keys")
    # ---- serde visitors accept transient strings -----------------------------------------------------------------------------------
    ctx.rule("C18.visitors", "every serde Visitor of the workspace that accepts a string (or bytes) in a specialised form (visit_borrowed_str, "
                             "visit_string / visit_borrowed_bytes, visit_byte_buf) also implements the general visit_str / visit_bytes: serde_json hands "
                             "escaped strings (e.g. an object key written with \\u0070) over as transient &str, which falls to the default `invalid type` "
                             "error otherwise")
    vis = {}
    for pth in w.fn_index:
        mm = re.match(r"^<(.+) as serde_core::de::Visitor<'[\w_]+>>::(visit_\w+)$", pth)
        if mm:
            vis.setdefault(mm.group(1), set()).add(mm.group(2))
    n_vis = 0
    for ty, meths in sorted(vis.items()):
        for special, general in ((("visit_borrowed_str", "visit_string"), "visit_str"), (("visit_borrowed_bytes", "visit_byte_buf"), "visit_bytes")):
            if any(x in meths for x in special):
                n_vis += 1
                ctx.check(general in meths, "C18.visitors", f"C18.visitors:{ty}:{general}", w.where(w.fn(f"<{ty} as serde_core::de::Visitor<'de>>::{[x for x in special if x in meths][0]}")) if False else "",
                          bad_msg=f"{ty} implements {sorted(x for x in special if x in meths)} but not {general}: strings that the deserializer cannot borrow "
                                  f"from the input (escaped JSON strings) are rejected")
    str_visitors = [t for t, ms in vis.items() if "visit_str" in ms]
    ctx.floor("visitors accepting strings", len(str_visitors), 100)
    # the key visitor of Raw::get_field in particular
    kv = [t for t in vis if t.endswith("get_field::FieldVisitor<'_>") or "get_field::FieldVisitor" in t]
    ctx.check(bool(kv) and all("visit_str" in vis[t] for t in kv), "C18.visitors", "C18.visitors:Raw::get_field:key-visitor", "",
              bad_msg=f"the key visitor of Raw::get_field implements {sorted(vis[kv[0]]) if kv else '?'}, not visit_str: a top-level key written with an escape makes get_field fail")
    if ctx.tier == "thorough":
        from .. import witness
        witness.check(ctx, "C18.witness", {"C18RawFields": "Raw<T> fields are accessible from another crate: the JSON text can be replaced without going through from_json/new"})
    ctx.assumptions += ["content fixpoint under a second round trip for each of ~270 content types (hand-written serde helpers) is not decided"]
    ctx.samples += [{"enum": "AnyStateEvent", "arm": "m.room.aliases", "parsed_as": "StateEvent<RoomAliasesEventContent>", "variant": "RoomAliases"}]


def defaults_rule(ctx, w, rule, req, floor=20, only=None):
    """The values a `skip_serializing_if` predicate lets a derived Serialize omit are the values the derived Deserialize fills in for a missing field.
    `req`: type -> fields its Deserialize requires (from the symmetry scan), `only`: optional filter on the type path."""
    # ---- what may be omitted is what a missing field is read as ------------------------------------------------------------------------
    ctx.rule(rule, "per derived Serialize/Deserialize pair: the values a `skip_serializing_if` predicate lets Serialize omit are, with multiplicity, the "
                             "values Deserialize fills in for a missing field (`is_default` <-> Default::default(), `x == 50` <-> a default function returning 50, ...): "
                             "otherwise a present value is silently replaced by another one on a round trip")
    from collections import Counter
    dexv = D.Dex(w.lookup, adt_discr=w.adt_discr)
    memo = {}

    def fn_value(name):
        """What a zero-argument default function returns / which value a one-argument predicate accepts, as a class label."""
        if name in memo:
            return memo[name]
        out = None
        if re.search(r" as core::default::Default>::default$", name):
            out = "default"
        elif name == "core::option::Option::<T>::is_none":
            out = "none"
        elif re.search(r"::(is_empty|is_undefined)$", name):
            out = "default"
        else:
            f = w.lookup(name)
            if f is not None and "body" in f:
                try:
                    ps = [p for p in dexv.paths(f, [D.sym("x")] * f["body"]["argc"]) if p.kind == "ret"]
                except D.Unrecognised:
                    ps = []
                if len(ps) == 1 and not ps[0].conds:
                    r = D.show(ps[0].ret)
                    m = re.fullmatch(r"x==(.+)|(.+)==x", r)
                    if f["body"]["argc"] == 0:
                        out = r
                    elif r == "x":
                        out = "True"
                    elif m:
                        v = m.group(1) or m.group(2)
                        if v == "Default::default()":
                            out = "default"
                        elif re.fullmatch(r"[\w:]+\(\)", v):
                            cands = [k for k in w.fn_index if k.endswith("::" + v[:-2].split("::")[-1])]
                            if len(cands) > 1:      # several modules have a function of that name: the one next to the predicate is meant
                                cands = [k for k in cands if k.rsplit("::", 1)[0] == name.rsplit("::", 1)[0]]
                            out = fn_value(cands[0]) if len(cands) == 1 else None
                        else:
                            out = v
                    elif f["body"]["argc"] == 1 and re.fullmatch(r"[\w:]+\(x\)==.+", r):
                        # the predicate looks at a projection of the value only (`x.as_secs() == 20`): it also omits values that are not the default
                        out = "any value with " + r
                elif len(ps) == 2 and f["body"]["argc"] == 1:
                    # `self == &Self::default()` style methods (derived PartialEq against the default value)
                    calls = [M.callee_name(c) for _, c in M.calls(f["body"])]
                    if any(c.endswith("Default>::default") for c in calls) and any(c.endswith("::eq") for c in calls):
                        out = "default"
        if out is None and name.endswith("::is_default") and w.lookup(name) is not None and "body" in w.lookup(name):
            # `self.a == 0 && self.b == 0` against a derived Default whose fields are all Default::default() of integer types
            ty0 = name[:-len("::is_default")]
            fd_ = w.lookup(f"<{ty0} as core::default::Default>::default")
            if fd_ is not None and "body" in fd_:
                dexc = D.Dex(w.lookup, adt_discr=w.adt_discr, ctors=w.ctors)
                try:
                    pd = [p_ for p_ in dexc.paths(fd_, []) if p_.kind == "ret"]
                    pp = [p_ for p_ in dexc.paths(w.lookup(name), [D.sym("self")]) if p_.kind == "ret"]
                except D.Unrecognised:
                    pd, pp = [], []
                if len(pd) == 1 and pp:
                    fields = dict(re.findall(r"(\w+)=(Default::default\(\)|0|false)", D.show(pd[0].ret)))
                    n_f = D.show(pd[0].ret).count("=")
                    zero = set()
                    good = len(fields) == n_f and n_f > 0
                    for p_ in pp:
                        atoms = [(D.show_atom(a_), t_) for a_, t_ in p_.conds]
                        if all(t_ for _, t_ in atoms) and D.show(p_.ret) != "False":
                            for t in [a_ for a_, _ in atoms] + [D.show(p_.ret)]:
                                mm = re.fullmatch(r"self\.(\w+)==0", t)
                                if mm:
                                    zero.add(mm.group(1))
                                elif t != "True":
                                    good = False
                        elif D.show(p_.ret) != "False":
                            good = False
                    if good and zero == set(fields):
                        out = "default"
        if out is None and name.endswith("::is_default") and w.lookup(name) is not None and "body" in w.lookup(name):
            # `T::is_default(&self)`: accepted as "the Default value" when it consults the same default-value functions as T's Default / new
            ty_ = name[:-len("::is_default")]
            mine = {M.callee_name(c) for _, c in M.calls(w.lookup(name)["body"]) if (w.lookup(M.callee_name(c)) or {}).get("body", {}).get("argc") == 0}
            theirs = set()
            for cand in (f"<{ty_} as core::default::Default>::default", f"{ty_}::new"):
                g = w.lookup(cand)
                if g is not None and "body" in g:
                    theirs |= {M.callee_name(c) for _, c in M.calls(g["body"]) if (w.lookup(M.callee_name(c)) or {}).get("body", {}).get("argc") == 0}
            theirs.discard(f"{ty_}::new")
            if mine and mine == theirs:
                out = "default"
        memo[name] = out
        return out

    skipv, defv, unknown = {}, {}, {}
    for fn in w.all_fns():
        if "body" not in fn or (only is not None and not only(fn["path"])):
            continue
        p = fn["path"]
        ms = re.search(r"<impl serde_core::ser::Serialize for (.*)>::serialize$", p)
        md = re.search(r"<impl serde_core::de::Deserialize<'de> for (.*)>::deserialize::__Visitor.*::visit_map$", p)
        if ms:
            body = fn["body"]
            cfg = M.Cfg(body)
            dfs = PC.roots(body)
            for bi, c in M.calls(body):
                if M.callee_name(c).endswith("::skip_field"):
                    gs = [g for g in PC.dominating_guards(cfg, body, dfs, bi) if g[0][0] == "call"]
                    if not gs:
                        continue
                    name, truth = gs[-1][0][1], gs[-1][1]
                    v = fn_value(name) if truth else None
                    if v is None:
                        unknown.setdefault(ms.group(1), set()).add(name)
                    else:
                        skipv.setdefault(ms.group(1), Counter())[v] += 1
        if md:
            for _, c in M.calls(fn["body"]):
                n_ = M.callee_name(c)
                if "missing_field" in n_ or n_.startswith(("serde_core::", "core::fmt", "core::result", "core::option", "<core::result", "<core::option")):
                    continue
                if re.search(r" as core::default::Default>::default$", n_) or (w.lookup(n_) is not None and (w.lookup(n_).get("body") or {}).get("argc") == 0):
                    v = fn_value(n_)
                    if v is not None:
                        defv.setdefault(md.group(1), Counter())[v] += 1
    def norm(counter):
        out_ = Counter()
        for k_, n_ in counter.items():
            out_[re.sub(r"^Vec\((.*)\)$", r"\1", k_)] += n_
        return out_
    skipv = {t_: norm(c_) for t_, c_ in skipv.items()}
    defv = {t_: norm(c_) for t_, c_ in defv.items()}
    n_types = 0
    for ty in sorted(skipv):
        if ty not in defv and ty not in req and not any(k != "none" for k in skipv[ty]):
            continue
        if not any(p_.endswith(f"for {ty}>::deserialize") or f"for {ty}>::deserialize::" in p_ for p_ in w.fn_index):
            continue                                # Serialize-only type
        n_types += 1
        short = {c: n_ for c, n_ in skipv[ty].items() if c != "none" and n_ > defv.get(ty, Counter()).get(c, 0)}
        if ty in unknown:
            ctx.unrecognised(rule, f"{rule}:{ty}", "", f"skip predicate(s) {sorted(unknown[ty])} not evaluated")
        else:
            ctx.check(not short, rule, f"{rule}:{ty}", "",
                      bad_msg=f"{ty}: Serialize may omit {dict(skipv[ty])} (value -> number of fields) but a missing field is read as {dict(defv.get(ty, {}))}: "
                              f"{ {c: n_ for c, n_ in short.items()} } field(s) come back with a different value (e.g. a level of 50 omitted and read back as 0)")
    ctx.floor(f"types examined for skip/default agreement ({rule})", n_types, floor)


def predicate_coverage_rule(ctx, w, rule, floor=1, only=None):
    """A struct-valued field with `skip_serializing_if = "T::is_empty"` (a method written by hand on a workspace struct) is omitted when the method says so
    and read back as T::default(). The method therefore has to look at EVERY field of T: a field it forgets (sync v3 `Rooms::is_empty` and `knock`) is
    dropped from the wire whenever the fields it does look at are empty. Decided on the MIR of the predicate: the set of fields of `self` it projects
    (or `self` handed whole to another function, e.g. `self == &Self::default()`) against the field list of the ADT."""
    ctx.rule(rule, "hand-written one-argument predicates on workspace structs used in `skip_serializing_if` (T::is_empty, T::is_default ..): the predicate reads every "
                   "field of T (or hands `self` whole to another function); a forgotten field is lost on the wire when the others are empty")
    import json as _json
    preds = {}
    for fn in w.all_fns():
        if "body" not in fn or (only is not None and not only(fn["path"])):
            continue
        if not re.search(r"<impl serde_core::ser::Serialize for (.*)>::serialize$", fn["path"]):
            continue
        body = fn["body"]
        if not any(M.callee_name(c).endswith("::skip_field") for _, c in M.calls(body)):
            continue
        cfg = M.Cfg(body)
        dfs = PC.roots(body)
        for bi, c in M.calls(body):
            if M.callee_name(c).endswith("::skip_field"):
                for g, truth in PC.dominating_guards(cfg, body, dfs, bi):
                    if g[0] == "call" and truth:
                        preds.setdefault(g[1], fn)
    n = 0
    for name, user in sorted(preds.items()):
        f = w.lookup(name)
        if f is None or "body" not in f or f["body"].get("argc") != 1:
            continue
        ty = str(f["body"]["locals"][1]).lstrip("&").strip()
        adt = w.adts.get(ty)
        if adt is None or adt["kind"] != "Struct" or not name.startswith(ty + "::"):
            continue
        fields = [fl["name"] for v in adt["variants"] for fl in v["fields"]]
        if len(fields) < 2 or all(x.isdigit() for x in fields):
            continue
        n += 1
        read, whole = set(), False
        for body in M.all_bodies(f):
            # locals that are plain copies / reborrows of self
            selfs = {1}
            for b in body["blocks"]:
                for st in b["s"]:
                    if st[0] == "=" and isinstance(st[2], list) and st[2][0] in ("use", "ref", "copy", "move"):
                        src = st[2][-1] if st[2][0] != "ref" else st[2][2]
                        pl = src.get("pl") if isinstance(src, dict) and "pl" in src else src
                        if isinstance(pl, int) and pl in selfs:
                            selfs.add(st[1])
                        elif isinstance(pl, dict) and pl.get("l") in selfs and all(x == "*" for x in pl.get("p", [])):
                            selfs.add(st[1])
            txt = _json.dumps(body["blocks"])
            for m in re.finditer(r'\{"l": (\d+), "p": \[(?:"\*", )*\["f", \d+, "(\w+)"\]', txt):
                if int(m.group(1)) in selfs:
                    read.add(m.group(2))
            for _, c in M.calls(body):
                for a in c["args"]:
                    pl = a.get("pl")
                    if (isinstance(pl, int) and pl in selfs) or (isinstance(pl, dict) and pl.get("l") in selfs and all(x == "*" for x in pl.get("p", []))):
                        whole = True
        missing = [x for x in fields if x not in read]
        key = f"{rule}:{name}"
        if missing and not whole:
            ctx.violation(rule, key, w.where(f),
                          f"{name} is the `skip_serializing_if` predicate of a field of type {ty} (in {user['path'].split(' for ', 1)[-1][:80]}) but does not look at "
                          f"{missing}: a value whose other fields are empty is omitted although {missing[0]} carries data, and is read back as the default")
        else:
            ctx.ok(rule, key, w.where(f), f"reads {sorted(read)}" + (" / passes self on" if whole else ""))
    ctx.floor(f"hand-written struct predicates used to skip a field ({rule})", n, floor)


def map_drained_rule(ctx, w, rule, floor=20):
    """serde_json checks, after visit_map returns Ok, that the map has been read to its end (`trailing characters` / `invalid length` otherwise). A
    hand-written visit_map therefore has to pull entries until the map says None - inside a loop -, also when it is not interested in them: reading a
    fixed number of entries makes every object with more (unknown) fields fail."""
    ctx.rule(rule, "every hand-written Visitor::visit_map of the workspace (not serde-derive's __Visitor) pulls keys / entries from the MapAccess inside a loop: "
                   "a map is read to its end whatever the number of (unknown) fields")
    n = 0
    for g in w.all_fns():
        if "body" not in g or not g["path"].endswith("::visit_map") or "__Visitor" in g["path"] or "__FieldVisitor" in g["path"]:
            continue
        n += 1
        body = g["body"]
        cfg = M.Cfg(body)
        loops = set()
        for _, bl in cfg.natural_loops().items():
            loops |= set(bl)
        pulls = [(bi, c) for bi, c in M.calls(body) if re.search(r"MapAccess.*::next_(key|entry|key_seed|entry_seed)$", M.callee_name(c))]
        outside = [c for bi, c in pulls if bi not in loops]
        deleg = any("MapAccessDeserializer" in M.callee_name(c) for _, c in M.calls(body))
        key = f"{rule}:{PC.key_path(g['path'])[-150:] if hasattr(PC, 'key_path') else g['path'][-150:]}"
        if pulls and not deleg and (outside or not any(bi in loops for bi, _ in pulls)):
            ctx.violation(rule, key, w.where(g, (outside or [pulls[0][1]])[0]["line"]),
                          f"{g['path'][-120:]} pulls an entry from the map outside any loop: an object with more fields than the fixed number of reads is rejected "
                          f"by the deserializer's end-of-map check (unknown extra fields must never cause failure)")
        else:
            ctx.ok(rule, key, w.where(g), f"{len(pulls)} pull site(s), all in a loop" if pulls else "delegates the map / reads nothing")
    ctx.floor("hand-written visit_map functions", n, floor)


def redacted_keys_rule(ctx, w, rule, floor=30):
    """`RedactedXEventContent` is what is left of `XEventContent` after redaction: the same fields under the same wire keys, fewer of them. A key of the
    redacted type that the original type does not have (a serde rename lost on one of the siblings) is read from and written to a place where the
    specification has nothing: the field is dropped when a redacted event is parsed and re-serialized under another name."""
    ctx.rule(rule, "for every pair (XEventContent, RedactedXEventContent) with derived Serialize: the wire keys of the redacted type are a subset of the wire keys of "
                   "the original type (constant keys passed to serialize_field / serialize_entry / skip_field)")
    ser = {}
    for g in w.all_fns():
        m = re.search(r"<impl serde_core::ser::Serialize for (.*)>::serialize$", g["path"])
        if not m or "body" not in g:
            continue
        keys = set()
        for _, c in M.calls(g["body"]):
            if M.callee_name(c).rsplit("::", 1)[-1] in ("serialize_field", "serialize_entry", "skip_field"):
                keys |= {a["v"] for a in c["args"] if a.get("k") == "const" and a.get("ty") == "&str"}
        ser[m.group(1)] = (keys, g)
    n = 0
    for ty, (keys, g) in sorted(ser.items()):
        mod, _, name = ty.rpartition("::")
        if not (name.startswith("Redacted") and name.endswith("EventContent")):
            continue
        orig = f"{mod}::{name[len('Redacted'):]}"
        if orig not in ser:
            continue
        n += 1
        extra = sorted(keys - ser[orig][0])
        ctx.check(not extra, rule, f"{rule}:{ty}", w.where(g),
                  bad_msg=f"{name} reads / writes the key(s) {extra}, which {name[len('Redacted'):]} does not have (it has {sorted(ser[orig][0])}): the field kept by redaction "
                          f"is looked for under another name, dropped when a redacted event is parsed and written back under a key the specification does not define")
    ctx.floor("(original, redacted) content type pairs", n, floor)
