"""C17 — entry points for untrusted data never panic / abort / hang: site inventory with guards, recursion inventory, loop exits, statics."""
import re
from .. import dex as D, world as W, mir as M
from . import util as U, panic_common as PC

LEVEL = "other"
EXPLANATION = (
    "A3 over every non-test body (hand-written and macro-generated) of ruma-common, ruma-identifiers-validation, ruma-signatures, "
    "ruma-state-res, ruma-html, ruma-events and ruma-federation-api as rustc lowers them: every potential panic / truncation / bounds "
    "site (unwrap/expect, panic!/unreachable!/assert!, slice and str indexing, bounds / overflow / div-by-zero assertions, Vec/String/"
    "IndexSet positional operations, RefCell borrows, narrowing and float casts) must be discharged by a rule the checker verifies "
    "(const-only code, derive counters, usize + small constant, dominating bound/non-emptiness test, `..` range, RefCell guard with no "
    "conflicting borrow while live) or be a reviewed site of spec/panic_allow.json (exact key, one-line reason). Anything else - in "
    "particular any new site - fails. Recursion is limited to the reviewed tree walks (depth = input nesting), every loop has an exit "
    "edge, and no writable static exists besides tracing call sites (a rejected input cannot affect later calls). Termination in "
    "general, allocation size and panics inside dependencies are not decided.")
CRATES = ['ruma_common', 'ruma_identifiers_validation', 'ruma_signatures', 'ruma_state_res', 'ruma_html', 'ruma_events', 'ruma_federation_api']
# Reviewed recursion: each is a walk over a tree produced from the input; depth = nesting depth of that input.
RECURSION_OK = {   # anchor function -> (module every member of its component must belong to, reviewed depth bound)
    "ruma_common::push::condition::flattened_json::FlattenedJson::flatten_value":
        ("ruma_common::push::condition::flattened_json", "JSON nesting, bounded by serde_json's recursion limit (128) on the parser that produced the Raw value"),
    "ruma_html::sanitizer_config::clean::<impl ruma_html::sanitizer_config::SanitizerConfig>::clean_node":
        ("ruma_html::sanitizer_config::clean", "DOM depth; does not descend below max_depth (100) when sanitizing"),
    "ruma_html::html::NodeRef::serialize": ("ruma_html::html", "DOM depth (linear in input nesting)"),
    "<ruma_common::canonical_json::value::CanonicalJsonValue as core::convert::TryFrom<serde_json::value::Value>>::try_from":
        ("ruma_common::canonical_json", "nesting depth of a serde_json::Value: 128 at most when it was parsed by serde_json, otherwise built by the caller"),
    "ruma_common::canonical_json::value::<impl core::convert::From<ruma_common::canonical_json::value::CanonicalJsonValue> for serde_json::value::Value>::from":
        ("ruma_common::canonical_json", "nesting depth of a CanonicalJsonValue, itself produced by the conversion above"),
}


ACCESSOR = re.compile(r"(SeqAccess|MapAccess)(<'de>)?::(next_element|next_element_seed|next_key|next_key_seed|next_value|next_value_seed|next_entry|next_entry_seed)$")


def stream_errors(ctx, w, rule):
    """A streaming serde accessor that returned an error makes no promise about its position: asking it again may return the same error
    forever (serde_json's SeqAccess at end of input, or after a malformed separator, does not consume anything). A visitor loop must leave
    on the first error."""
    ctx.rule(rule, "hand-written and ruma-derive-generated serde visitors: on every path, once SeqAccess::next_element* / MapAccess::next_* has returned "
                   "Err the accessor is not asked again (a loop that `continue`s on an element error does not terminate on truncated input)")
    n = 0
    for fn in w.all_fns():
        if "body" not in fn:
            continue
        mac = fn.get("mac") or []
        if any(m.endswith("Deserialize") for m in mac):
            continue                      # serde's own derive output: every accessor result is propagated with `?`
        if not any(ACCESSOR.search(M.callee_name(c)) for body in M.all_bodies(fn) for _, c in M.calls(body)):
            continue
        n += 1
        key = f"{rule}:{PC.key_path(fn['path'])}"
        dex = D.Dex(w.lookup, adt_discr=w.adt_discr, unroll=1, effects=lambda nm: ACCESSOR.search(nm) is not None, max_paths=200000)
        try:
            paths = dex.paths(fn, [D.sym(f"a{i}") for i in range(fn["body"]["argc"])])
        except D.Unrecognised as e:
            ctx.unrecognised(rule, key, w.where(fn), str(e))
            continue
        bad = None
        for p in paths:
            n_acc = len(p.effects)
            for a, t in p.conds:
                sa = D.show_atom(a)
                if not (t and sa.endswith(" is Err")):
                    continue
                # the Err must be the accessor's own result (directly, or seen through Result::transpose), not that of something computed from an item
                m = re.fullmatch(r"(?:Result::transpose\()?(?:SeqAccess|MapAccess)::(next_\w+)\(([^()]*)\)(#(\d+))?\)?(?:\.Some\.0)? is Err", sa)
                if not m:
                    continue
                k = int(m.group(4)) if m.group(4) else 1
                # position of the k-th call of that accessor method on that receiver among the path's accessor calls
                same = [i for i, e in enumerate(p.effects) if e[0].rsplit("::", 1)[-1] == m.group(1) and D.show(e[1][0]) == m.group(2)]
                if len(same) < k:
                    continue
                later = [e for e in p.effects[same[k - 1] + 1:] if D.show(e[1][0]) == m.group(2)]
                if later:
                    bad = (sa, later[0][0].rsplit("::", 1)[-1])
                    break
            if bad:
                break
        ctx.check(bad is None, rule, key, w.where(fn),
                  bad_msg=f"after `{bad[0][:110] if bad else ''}` the visitor calls {bad[1] if bad else ''} on the same accessor again: on input that ends inside the "
                          f"sequence (or has a malformed separator) the accessor returns the same error without consuming anything, so the loop never ends")
    ctx.floor(f"visitors examined ({rule})", n, 20)


def redacts_fallback_rule(ctx, w, rule):
    """The reviewed `expect("At least one redacts field is set")` of ruma_events::room::redaction::redacts holds because (a) the hand-written
    deserializers of the redaction event refuse an event in which BOTH `redacts` fields are missing and (b) the helper falls back from the field
    its room version prefers to the OTHER one. Both halves are decided: every panicking path of the helper has both fields None, and both
    deserializers raise missing_field("redacts") exactly under both-None (a stricter sibling rejects valid events, see C18)."""
    ctx.rule(rule, "redaction::redacts panics only when redacts AND content_redacts are None (the fallback is the other field, for every room version); the "
                   "deserializers of OriginalRoomRedactionEvent and OriginalSyncRoomRedactionEvent refuse exactly the events with both fields missing")
    if "ruma_events" not in w.crates:
        return
    f = w.fn("ruma_events::room::redaction::redacts")
    dex = D.Dex(w.lookup, adt_discr=w.adt_discr, inline=lambda n: "{closure" in n, ctors=w.ctors)
    paths = dex.paths(f, [D.sym("rv"), D.sym("redacts"), D.sym("content_redacts")])
    pan = [p for p in paths if p.kind == "panic"]
    bad = []
    for p in pan:
        tv = U.true_variants(p)
        if not (tv.get("redacts") == "None" and tv.get("content_redacts") == "None"):
            bad.append(sorted((k, v) for k, v in tv.items() if "redacts" in k))
    rets_bad = [D.show(p.ret) for p in paths if p.kind == "ret" and D.show(p.ret) not in ("redacts.Some.0", "content_redacts.Some.0")]
    ctx.floor("panicking paths of redaction::redacts", len(pan), 2)
    ctx.check(not bad and not rets_bad, rule, f"{rule}:helper", w.where(f),
              bad_msg=f"redaction::redacts can panic although one of the two fields is set (conditions {bad[:1]}; other returns {rets_bad[:1]}): the fallback does not "
                      f"go to the other field, so an event the deserializer accepted panics in .redacts(room_version)")
    n = 0
    for g in w.all_fns():
        m = re.search(r"event_serde::<impl serde_core::de::Deserialize<'de> for ruma_events::room::redaction::(Original(?:Sync)?RoomRedactionEvent)>::deserialize$", g["path"])
        if not m or "body" not in g:
            continue
        n += 1
        mp = [p for p in dex.paths(g, [D.sym("de")]) if p.kind == "ret" and "missing_field('redacts')" in D.show(p.ret)]
        okd = bool(mp)
        for p in mp:
            nones = [k for k, v in U.true_variants(p).items() if v == "None" and k.endswith("redacts")]
            okd = okd and any(k.endswith(".content.redacts") for k in nones) and any(k.endswith(".redacts") and not k.endswith(".content.redacts") for k in nones)
        ctx.check(okd, rule, f"{rule}:deserialize:{m.group(1)}", w.where(g),
                  bad_msg=f"{m.group(1)}: missing_field(\"redacts\") is not raised exactly when both the event-level and the content `redacts` are absent "
                          f"(its sibling accepts the same event; v11 events carry only content.redacts, v1-v10 events only the event-level one)")
    ctx.floor("hand-written redaction event deserializers", n, 2)


def tree_link_rule(ctx, w, rule="C17.tree-links"):
    """The reviewed `expect`s of ruma_html::html (parent_and_index: "child should be in parent's children") rest on one invariant of the tree:
    a node's `parent` link is set exactly while it is in that parent's `children` list. The invariant is kept by pairing, which is decided
    here: a function that takes nodes out of a `children` vector also resets a `parent` link, and a function that puts a node into one also
    sets it. (html5ever calls reparent_children for misnested formatting elements; a stale link there panics in the next detach.)"""
    ctx.rule(rule, "ruma_html::html: every function that removes from a Vec<NodeRef> of children (take / remove / clear / drain / pop ..) also clears an "
                   "Option<Weak<Node>> parent link (take / replace / set), and every function that inserts into one (push / insert / append / extend) also SETS one (replace / set), "
                   "directly or in a callee of the module")
    if "ruma_html" not in w.crates:
        return
    REMOVE = {"take", "remove", "clear", "drain", "truncate", "pop", "swap_remove", "retain", "split_off", "replace"}
    INSERT = {"push", "insert", "append", "extend", "extend_from_slice", "insert_many"}
    n = 0
    for g in w.crates["ruma_html"].all_fns():
        if "body" not in g or "ruma_html::html::" not in g["path"]:
            continue
        rem, ins, par = [], [], []
        for body in M.all_bodies(g):
            for _, c in M.calls(body):
                name = M.callee_name(c)
                last = name.rsplit("::", 1)[-1]
                fa = " ".join(c.get("fnargs") or [])
                on_children = ("Vec<ruma_html::html::NodeRef>" in fa) or ("alloc::vec::Vec" in name and fa.startswith("ruma_html::html::NodeRef"))
                on_parent = "Option<alloc::rc::Weak<ruma_html::html::Node>>" in fa
                if on_children and last in REMOVE:
                    rem.append(last)
                if on_children and last in INSERT:
                    ins.append(last)
                if on_parent and last in ("take", "replace", "set", "swap"):
                    par.append(last)
        if not rem and not ins:
            continue
        # link writes in direct callees inside the module (`fn set_parent(&self, ..)`, `append_child`) count for the caller
        via = []
        for body in M.all_bodies(g):
            for _, c in M.calls(body):
                cn = M.callee_name(c)
                if "ruma_html::html::" in cn:
                    for h in w.fn_index.get(cn, []):
                        for hb in (M.all_bodies(h) if "body" in h else []):
                            for _, c2 in M.calls(hb):
                                fa2 = " ".join(c2.get("fnargs") or [])
                                if "Option<alloc::rc::Weak<ruma_html::html::Node>>" in fa2 and M.callee_name(c2).rsplit("::", 1)[-1] in ("take", "replace", "set", "swap"):
                                    via.append(M.callee_name(c2).rsplit("::", 1)[-1])
        n += 1
        key = PC.key_path(g["path"])
        # a removal is matched by a clear in the function itself, or by a `take` in a callee: a callee that SETS the link (append_child) does
        # not stand for clearing it - it may first detach the node through the stale link
        clears = [x for x in par if x in ("take", "replace", "set", "swap")] + [x for x in via if x == "take"]
        sets = [x for x in par + via if x in ("replace", "set", "swap")]
        good = (not rem or bool(clears)) and (not ins or bool(sets))
        ctx.check(good, rule, f"{rule}:{key}", w.where(g),
                  bad_msg=f"{g['path']} changes a children list (removes: {sorted(set(rem))}, inserts: {sorted(set(ins))}) without the matching parent-link write "
                          f"(clears seen: {sorted(set(clears))}, sets seen: {sorted(set(sets))}): a node keeps a parent whose children no longer contain it, or sits in a children "
                          f"list without a parent link - then detach() is a no-op and next_sibling() is None, so the sanitizer cannot remove or even visit it, or "
                          f"parent_and_index panics ('child should be in parent\'s children'); reachable from Html::parse on misnested formatting tags")
    ctx.floor("functions of ruma_html::html that change a children list", n, 4)


def run(ctx):
    fx = ctx.facts("A")
    w = W.World(fx, CRATES)
    ctx.rule("C17.sites", "every potential panic/truncation/bounds site of the 7 crates is discharged by a verified rule or is a reviewed site (exact key + reason)")
    PC.site_rule(ctx, w, CRATES, "C17.sites", floor=600, report_stale=True)
    # the reviewed accessor sites of category INV-ID (`ServerName::port().unwrap()`, `&s[..colon_idx]`, ...) are panic-free only as long as
    # the validators guarantee the shape the accessors assume: the rules that establish that shape are part of this property
    from . import C10
    C10.invariant_rules(ctx, w)
    tree_link_rule(ctx, w)
    redacts_fallback_rule(ctx, w, "C17.redacts-fallback")
    # the literal word search of push conditions consumes at least one character per iteration (its loop has an exit, but an exit that is never taken
    # is a hang): the progress argument is the one C12 decides for the skipping step
    from . import C12 as _C12
    _C12.word_skip_rule(ctx, w, "C17.word-skip")

    if ctx.tier == "thorough":
        # build configuration B: the API crates with client+server features (generated request/response conversions, the multipart
        # media parser), ruma-html/matrix, ruma-signatures/ring-compat
        fxb = ctx.facts("B")
        import os as _os
        names = sorted({f.split("-")[0] for f in _os.listdir(fxb.dir) if f.endswith(".json")})
        crates_b = [n for n in names if n.startswith("ruma") and n not in ("ruma_macros", "ruma")]
        wb = W.World(fxb, crates_b)
        ctx.rule("C17.sites-B", "the same site inventory over build configuration B (all ruma crates, extended features): every site is discharged by a "
                                "verified rule or reviewed in spec/panic_allow.json / spec/panic_allow_B.json")
        PC.site_rule(ctx, wb, crates_b, "C17.sites-B", floor=1500, extra_table=True)
        edges_b = PC.call_graph(wb)
        for comp in PC.recursive_sccs(edges_b):
            anchors = [f for f in comp if f in RECURSION_OK]
            if not anchors:
                fn = wb.lookup(comp[0])
                ctx.violation("C17.recursion", f"C17.recursion:B:{sorted(comp)[0]}", wb.where(fn) if fn else "",
                              f"(configuration B) recursive component {sorted(comp)[:4]} has no reviewed depth bound")
        ctx.count("call_graph_nodes_B", len(edges_b))
    ctx.rule("C17.recursion", "the only recursive call-graph components are the reviewed tree walks (a new recursion, e.g. one frame per word of a message body, is reported)")
    edges = PC.call_graph(w)
    sccs = PC.recursive_sccs(edges)
    for comp in sccs:
        anchors = [f for f in comp if f in RECURSION_OK]
        if not anchors:
            fn = w.lookup(comp[0])
            ctx.violation("C17.recursion", f"C17.recursion:{sorted(comp)[0]}", w.where(fn) if fn else "",
                          f"recursive component {sorted(comp)[:4]} has no reviewed depth bound (one stack frame per unit of input)")
            continue
        module, reason = RECURSION_OK[anchors[0]]
        ctx.ok("C17.recursion", f"C17.recursion:{anchors[0]}", w.where(w.fn(anchors[0])), f"{reason} ({len(comp)} functions in the component)")
        for f in comp:
            # a reviewed walk may be split into helpers of the same module; anything else joining the cycle is new recursion
            if module not in f:
                fn = w.lookup(f)
                ctx.violation("C17.recursion", f"C17.recursion:{f}", w.where(fn) if fn else "",
                              f"{f} joined the recursive component of {anchors[0]} from outside {module}")
    ctx.count("call_graph_nodes", len(edges))
    ctx.floor("call graph nodes", len(edges), 9000)

    ctx.rule("C17.caches", "functions that fill a cache behind a Mutex: no path that returns an error has written to the cache before (a rejected value "
                           "must not change what later calls return); every function of the crates that locks a Mutex is covered")
    lockers = []
    for fn in w.all_fns():
        if "body" not in fn or "::tests" in fn["path"] or "test_utils" in fn["path"]:
            continue
        if any("sync::poison::mutex::Mutex::<T>::lock" in M.callee_name(c) or M.callee_name(c).endswith("Mutex::<T>::lock") for body in M.all_bodies(fn) for _, c in M.calls(body)):
            lockers.append(fn)
    ctx.floor("functions locking a Mutex", len(lockers), 1)
    MUT = ("insert", "or_insert", "or_insert_with", "or_default", "remove", "clear", "push", "extend", "retain", "append", "pop", "truncate", "swap_remove", "take", "replace")
    dexc = D.Dex(w.lookup, adt_discr=w.adt_discr, unroll=1, inline=lambda n: "{closure" in n,
                 effects=lambda n: n.rsplit("::", 1)[-1] in MUT and ("btree" in n or "hash" in n or "vec::" in n or "Entry" in n or "indexmap" in n))
    for fn in lockers:
        nargs = fn["body"]["argc"]
        try:
            paths = dexc.paths(fn, [D.sym(f"a{i}") for i in range(nargs)])
        except D.Unrecognised as e:
            ctx.unrecognised("C17.caches", f"C17.caches:{fn['path']}", w.where(fn), str(e))
            continue
        errp = [p for p in paths if p.kind == "ret" and U.is_err(p.ret)]
        okp = [p for p in paths if p.kind == "ret" and not U.is_err(p.ret)]
        dirty = [p for p in errp if p.effects]
        fills = any(p.effects for p in okp)
        ctx.check(not dirty and fills and bool(errp), "C17.caches", f"C17.caches:{fn['path']}:error-paths-clean", w.where(fn),
                  ok_msg=f"{len(errp)} error paths without cache writes, {sum(1 for p in okp if p.effects)} filling success paths",
                  bad_msg=(f"an error path of {fn['path'].rsplit('::', 1)[-1]} writes to the cache first ({[e[0].rsplit('::', 2)[-2:] for e in dirty[0].effects][:2]}): "
                           f"the first call reports the malformed value, later calls answer from the cache as if the field were absent") if dirty else
                          "the function has no error path / never fills the cache (shape not recognised)")

    ctx.rule("C17.loops", "every natural loop of every body has an exit edge (no `loop {}` without break/return)")
    nloops = 0
    for fn in w.all_fns():
        for body in M.all_bodies(fn):
            if not any(b["t"][0] in ("goto", "switch", "call", "drop", "assert") for b in body["blocks"]):
                continue
            cfg = M.Cfg(body)
            reach = cfg.reachable()
            for head, blocks in cfg.natural_loops().items():
                if head not in reach:
                    continue
                nloops += 1
                exits = [b for b in blocks if any(s not in blocks for s in cfg.succ[b]) or body["blocks"][b]["t"][0] in ("ret",)]
                # a call that may unwind / diverge is not an exit; a loop with no exit edge never terminates normally
                if not exits:
                    ctx.violation("C17.loops", f"C17.loops:{fn['path']}", w.where(fn), "loop without exit edge")
    ctx.ok("C17.loops", "C17.loops:scan", "", f"{nloops} loops scanned")
    ctx.floor("loops scanned", nloops, 300)

    stream_errors(ctx, w, "C17.stream-errors")

    ctx.rule("C17.statics", "no `static mut` and no static with interior mutability other than tracing call-site registrations: a rejected input leaves no state behind")
    n = 0
    for cn in CRATES:
        for s in w.crates[cn].statics:
            n += 1
            if s["mutable"]:
                ctx.violation("C17.statics", f"C17.statics:{s['path']}", f"{s['span'][0]}:{s['span'][1]}", "static mut")
            elif not s["freeze"] and s["ty"] != "tracing_core::callsite::DefaultCallsite":
                ctx.violation("C17.statics", f"C17.statics:{s['path']}", f"{s['span'][0]}:{s['span'][1]}", f"static with interior mutability: {s['ty']}")
    ctx.ok("C17.statics", "C17.statics:scan", "", f"{n} statics")
    from . import controls
    controls.sites(ctx, "C17.sites")
    controls.recursion(ctx, "C17.recursion")
    controls.loops(ctx, "C17.loops")
    controls.statics(ctx, "C17.statics")
    ctx.assumptions += ["panics inside dependencies on values ruma passes them are out of scope except where a reviewed entry says why they cannot occur",
                        "reviewed reasons in spec/panic_allow.json are human judgement (one line each, exact keys)"]
    ctx.samples += [{"site": "ruma_identifiers_validation::key_id::validate narrowing cast", "status": "removed by fix 19b222b; a new `as u8` without a dominating bound is reported"},
                    {"site": "matches_word recursion", "status": "removed by fix; C17.recursion reports any new recursive component"}]
