//! Positive controls: one seeded violation per zero-expected-count rule. The checks compile this crate with the same
//! mirfacts driver and FAIL if a control is not reported (a rule that matches nothing passes vacuously forever).
use std::collections::{HashMap, HashSet};

/// A3-G3: narrowing cast without a dominating bound (the shape of the old `key_id::validate`).
pub fn narrow_unguarded(s: &str) -> u8 {
    let idx = s.find(':').unwrap_or(0);
    idx as u8
}

/// A3-G3 negative control: the same cast under a bound test must be discharged automatically.
pub fn narrow_guarded(s: &str) -> Option<u8> {
    let idx = s.find(':')?;
    if idx > 255 {
        return None;
    }
    Some(idx as u8)
}

/// A3-G1: index 0 without an emptiness test (the shape of the old `parse_with_sigil`).
pub fn first_byte_unguarded(s: &str) -> u8 {
    s.as_bytes()[0]
}

/// A3-G1 negative control.
pub fn first_byte_guarded(s: &str) -> u8 {
    if s.is_empty() {
        return 0;
    }
    s.as_bytes()[0]
}

/// A3: unwrap on input-derived data.
pub fn unwrap_site(s: &str) -> usize {
    s.find('/').unwrap()
}

/// recursion inventory: one frame per word (the shape of the old `matches_word`).
pub fn recursive_words(s: &str) -> usize {
    match s.find(' ') {
        Some(i) => 1 + recursive_words(&s[i + 1..]),
        None => 0,
    }
}

/// loop without exit edge.
pub fn spin(flag: &std::sync::atomic::AtomicBool) {
    loop {
        flag.store(true, std::sync::atomic::Ordering::Relaxed);
    }
}

/// A5: hash iteration collected into a Vec and returned (order-sensitive consumer).
pub fn hash_order_leak(set: &HashSet<String>) -> Vec<String> {
    set.iter().cloned().collect::<Vec<_>>()
}

/// A5: `next()` on a hash iterator outside a loop (first-seen wins).
pub fn first_seen(map: &HashMap<String, u32>) -> Option<u32> {
    map.values().next().copied()
}

/// A5 negative control: collected into a set.
pub fn hash_to_set(set: &HashSet<String>) -> HashSet<String> {
    set.iter().cloned().collect::<HashSet<_>>()
}

/// purity: a clock read.
pub fn clock() -> std::time::SystemTime {
    std::time::SystemTime::now()
}

pub enum Verdict {
    Accept,
    Reject,
}

/// A6: early accept inside a for-all loop (the shape of the old `node_action`).
pub fn all_allowed_early_accept(attrs: &[(String, String)], schemes: &HashMap<String, Vec<String>>) -> Verdict {
    for (name, value) in attrs {
        let Some(allowed) = schemes.get(name) else {
            return Verdict::Accept;
        };
        if !allowed.iter().any(|s| value.starts_with(s.as_str())) {
            return Verdict::Reject;
        }
    }
    Verdict::Accept
}

/// A6 negative control: `continue` instead of the early accept.
pub fn all_allowed(attrs: &[(String, String)], schemes: &HashMap<String, Vec<String>>) -> Verdict {
    for (name, value) in attrs {
        let Some(allowed) = schemes.get(name) else {
            continue;
        };
        if !allowed.iter().any(|s| value.starts_with(s.as_str())) {
            return Verdict::Reject;
        }
    }
    Verdict::Accept
}

static COUNTER: std::sync::atomic::AtomicUsize = std::sync::atomic::AtomicUsize::new(0);

/// writable static.
pub fn bump() -> usize {
    COUNTER.fetch_add(1, std::sync::atomic::Ordering::Relaxed)
}
