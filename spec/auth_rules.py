"""Decision model of the Matrix authorization rules (specification v1.14, room versions 1-11), written from the specification text
(DESIGN.md Appendix A.5) - NOT from the implementation. Every function takes a scenario dict of abstract observations and the
AuthorizationRules flags of a room version, and returns 'allow', 'reject' or 'delegate:<check>'.

Memberships: Join Invite Leave Ban Knock _Custom(other). Join rules: Public Invite Knock Restricted KnockRestricted Private _Custom.
Power levels are plain integers; only their order matters.
"""


def member_dispatch(sc, fl):
    """m.room.member: which rule set applies."""
    if not sc["has_state_key"] or not sc["state_key_is_user_id"] or not sc["membership_ok"]:
        return "reject"
    m = sc["membership"]
    if m == "Join":
        return "delegate:check_room_member_join"
    if m == "Invite":
        return "delegate:check_room_member_invite"
    if m == "Leave":
        return "delegate:check_room_member_leave"
    if m == "Ban":
        return "delegate:check_room_member_ban"
    if m == "Knock" and fl["knocking"]:
        return "delegate:check_room_member_knock"
    return "reject"


def member_join(sc, fl):
    # 1. only previous event is the create event and the target is the creator
    if sc["prev"] == "only_create" and sc["target_is_creator"]:
        return "allow"
    # 2. sender must be the target
    if not sc["sender_is_target"]:
        return "reject"
    tm = sc["target_membership"]
    # 3. banned
    if tm == "Ban":
        return "reject"
    jr = sc["join_rule"]
    # 4. invite (v7+: or knock): allow iff invited or joined
    if jr == "Invite" or (fl["knocking"] and jr == "Knock"):
        return "allow" if tm in ("Invite", "Join") else "reject"
    # 5. restricted (v8+) / knock_restricted (v10+)
    if (fl["restricted_join_rule"] and jr == "Restricted") or (fl["knock_restricted_join_rule"] and jr == "KnockRestricted"):
        if tm in ("Join", "Invite"):
            return "allow"
        if not sc["auth_user_present"]:
            return "reject"
        if sc["auth_user_membership"] != "Join":
            return "reject"
        return "allow" if sc["auth_user_pl"] >= sc["invite_pl"] else "reject"
    # 6. public
    if jr == "Public":
        return "allow"
    return "reject"


def member_invite(sc, fl):
    if sc["third_party_invite"]:
        return "delegate:check_third_party_invite"
    if sc["sender_membership"] != "Join":
        return "reject"
    if sc["target_membership"] in ("Join", "Ban"):
        return "reject"
    return "allow" if sc["sender_pl"] >= sc["invite_pl"] else "reject"


def third_party_invite_prefix(sc, fl):
    """Everything before the signature loop; 'signatures' = continue into the (exists-)loop over signatures."""
    if sc["target_membership"] == "Ban":
        return "reject"
    if not sc["has_token"] or not sc["has_mxid"]:
        return "reject"
    if not sc["mxid_is_target"]:
        return "reject"
    if not sc["tpi_event_found"]:
        return "reject"
    if not sc["tpi_sender_is_sender"]:
        return "reject"
    return "signatures"


def member_leave(sc, fl):
    sm = sc["sender_membership"]
    if sc["sender_is_target"]:
        if sm in ("Invite", "Join") or (fl["knocking"] and sm == "Knock"):
            return "allow"
        return "reject"
    if sm != "Join":
        return "reject"
    if sc["target_membership"] == "Ban" and sc["sender_pl"] < sc["ban_pl"]:
        return "reject"
    if sc["sender_pl"] >= sc["kick_pl"] and sc["target_pl"] < sc["sender_pl"]:
        return "allow"
    return "reject"


def member_ban(sc, fl):
    if sc["sender_membership"] != "Join":
        return "reject"
    if sc["sender_pl"] >= sc["ban_pl"] and sc["target_pl"] < sc["sender_pl"]:
        return "allow"
    return "reject"


def member_knock(sc, fl):
    jr = sc["join_rule"]
    if not (jr == "Knock" or (fl["knock_restricted_join_rule"] and jr == "KnockRestricted")):
        return "reject"
    if not sc["sender_is_target"]:
        return "reject"
    if sc["sender_membership"] in ("Ban", "Invite", "Join"):
        return "reject"
    return "allow"


def room_create(sc, fl):
    if sc["has_prev_events"]:
        return "reject"
    if not sc["room_id_has_server"] or not sc["room_id_server_is_sender_server"]:
        return "reject"
    if not fl["use_room_create_sender"] and not sc["has_creator"]:
        return "reject"
    return "allow"


def top_level(sc, fl):
    """auth_check for a non-create event; returns allow / reject / delegate:<specific check>."""
    t = sc["type"]
    if t == "RoomCreate":
        return "delegate:check_room_create"
    if not sc["create_in_state"]:
        return "reject"
    if not sc["create_in_auth_events"]:
        return "reject"
    if not sc["federate"] and not sc["same_server_as_creator"]:
        return "reject"
    if fl["special_case_room_aliases"] and t == "RoomAliases":
        return "allow" if sc["state_key_is_sender_server"] else "reject"
    if t == "RoomMember":
        return "delegate:check_room_member"
    if sc["sender_membership"] != "Join":
        return "reject"
    if t == "RoomThirdPartyInvite":
        return "allow" if sc["sender_pl"] >= sc["invite_pl"] else "reject"
    if sc["sender_pl"] < sc["required_pl"]:
        return "reject"
    if sc["state_key_starts_with_at"] and not sc["state_key_is_sender"]:
        return "reject"
    if t == "RoomPowerLevels":
        return "delegate:check_room_power_levels"
    if fl["special_case_room_redaction"] and t == "RoomRedaction":
        return "delegate:check_room_redaction"
    return "allow"


def room_redaction(sc, fl):
    if sc["sender_pl"] >= sc["redact_pl"]:
        return "allow"
    if sc["same_server_as_redacted"]:
        return "allow"
    return "reject"


# defaults (A.5): ban kick redact state_default = 50; invite events_default users_default = 0; creator without power levels event = 100
DEFAULT_LEVELS = {"Ban": 50, "Kick": 50, "Redact": 50, "StateDefault": 50, "Invite": 0, "EventsDefault": 0, "UsersDefault": 0}
DEFAULT_CREATOR_LEVEL = 100


def scalar_field_change(sc, fl):
    """One of the scalar power-level fields differs between current and new content (absent = default)."""
    if sc["current"] > sc["sender_pl"] or sc["new"] > sc["sender_pl"]:
        return "reject"
    return "ok"


def map_entry_change(sc, fl):
    """events / notifications entry: sc['current'] / sc['new'] are ints or None (absent)."""
    if sc["current"] == sc["new"]:
        return "ok"
    if sc["current"] is not None and sc["current"] > sc["sender_pl"]:
        return "reject"
    if sc["new"] is not None and sc["new"] > sc["sender_pl"]:
        return "reject"
    return "ok"


def users_entry_change(sc, fl):
    if sc["current"] == sc["new"]:
        return "ok"
    if sc["current"] is not None and not sc["user_is_sender"] and sc["current"] >= sc["sender_pl"]:
        return "reject"
    if sc["new"] is not None and sc["new"] > sc["sender_pl"]:
        return "reject"
    return "ok"
